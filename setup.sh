#!/bin/sh
# Run once after a fresh restore, offline: build the conformance harness and parse every spec module.
set -e
cd "$(dirname "$0")"
export CARGO_NET_OFFLINE=true
mkdir -p work out evidence
(cd harness && cargo build --release --offline --quiet)
cd spec
# Proof_*.tla import the TLAPS standard library (NaturalsInduction, TLAPS), which lives with tlapm
TLAPSLIB=/opt/veriftools/tlapm/lib/tlapm/stdlib
for f in *.tla; do
  java -DTLA-Library=$TLAPSLIB -cp /opt/veriftools/tla/tla2tools.jar:/opt/veriftools/tla/CommunityModules-deps.jar tla2sany.SANY "$f" > ../work/sany.log 2>&1 || { cat ../work/sany.log; echo "SANY failed on $f"; exit 1; }
done
echo setup ok
