"""C11 — spatial vector functions satisfy their geometric definitions (DESIGN §6 C11)."""
import core

OPS = ["v_dot", "v_mag2", "v_dist2", "v_reflect", "v_cross", "v_side", "v_homog", "v_face", "v_pred", "v_refract", "v_try",
       "v_slerp", "v_mag", "v_norm", "v_angle", "v_angle_f", "v_side_i"]


def key(rec):
    return "%s/%s/%s" % (rec["op"], rec.get("how", rec.get("form", "")), rec.get("ty", ""))


def corrupt(rs):
    idx = [i for i, r in enumerate(rs) if r["op"] == "v_norm" and r["pan"] == 0 and r["obs"]["v"]]
    i = idx[len(idx) // 2]
    rs[i]["obs"]["m"] = [-rs[i]["obs"]["m"][0], rs[i]["obs"]["m"][1]]      # the negative square root
    rs[i]["obs"]["v"] = [[-x[0], x[1]] for x in rs[i]["obs"]["v"]]           # ... with the antiparallel unit vector
    return i


def run(ctx):
    ctx.rule = ("TLC checks on the specification (random tuples over Z_46337) that the cross product is bilinear, "
                "anticommutative, orthogonal to both operands with Lagrange's squared length, that reflection about a unit "
                "normal is a length-preserving involution, that refraction satisfies Snell's law with a unit result, that "
                "determine_side is the translation-invariant antisymmetric 2D cross product; every record is one real call "
                "on exact rationals (pairs, ordered field) for all 9 spatial vector types (dimensions 2..64): dot, "
                "magnitude/distance (squared and not), the four normalisation forms and try_normalized, the predicates, "
                "reflection, refraction incl. total internal reflection, face_forward for negative/zero/positive dot, "
                "angle_between on token angles and in degrees, and on f32/f64 multiples of 45 degrees between vectors that are both very "
                "short / ordinary / very long (independent of length, to 2^-10), cross, determine_side / triangle areas (also on i32/i64: exact whenever the area is an integer), homogenisation, "
                "Vec3 slerp; square roots are validated by what they satisfy (m^2 = |v|^2, m >= 0, m * unit = v)")
    thorough = ctx.tier == "thorough"
    core.law_runs(ctx, "Law_Spatial", ["Law_Spatial"])
    # symbolic lane: dot, squared magnitude / distance, reflection about an arbitrary vector (Vec2/3/4/8/16, Extent2/3), cross,
    # determine_side on free symbols, compared as polynomials - every input at once
    core.drive_validate(ctx, "sym", "Trace_Spatial", "Trace_Spatial_S", "spatial-sym", 1,
                        ["v_dot", "v_mag2", "v_dist2", "v_reflect", "v_cross", "v_side"], key=key, extra_args=["--area", "spatial"],
                        corrupt_op="v_reflect")
    core.drive_validate(ctx, "spatial", "Trace_Spatial", "Trace_Spatial", "spatial", 60 if thorough else 5, OPS, key=key,
                        corrupt=corrupt)
    ctx.assumptions = ["vectors whose length is irrational are not examined for sqrt-based outputs (the exact lane drops them "
                       "as inconclusive); constructed vectors have rational length in every dimension",
                       "angles are token angles with rational cosine; try_normalized thresholds are sampled on f32/f64 "
                       "classes zero / tiny / normal", "the near-equality predicates are examined on exact operands only"]


def replay(ctx, path):
    return core.replay_record(ctx, path)
