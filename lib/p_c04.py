"""C04 — rotation builders yield proper right-handed rotations, consistent across types (DESIGN §6 C04)."""
import core

OPS = ["rot_axis", "rot_3d", "mat_of_quat", "quat_rot", "vec2_rot"]
OPS_S = ["rot_axis", "mat_of_quat", "quat_rot", "vec2_rot"]


def key(rec):
    if rec["op"] == "rot_axis":
        return "rot_axis/%s/mat%s" % (rec["axis"], rec["n"])
    if rec["op"] in ("rot_3d", "mat_of_quat"):
        return "%s/mat%s" % (rec["op"], rec["n"])
    return "%s/%s" % (rec["op"], rec.get("form", ""))


def nontrivial(r):
    return r.get("k", r.get("hk", 1)) != 0


def run(ctx):
    ctx.rule = ("TLC checks on the specification (200 random tuples over Z_46337 per run, plus exact rationals for the "
                "order-dependent laws) that RotX/Y/Z, the 2D rotation and Rodrigues' formula are orthogonal with "
                "determinant +1, compose additively about a common axis, fix their axis, turn counter-clockwise "
                "(RotZ e_x = (c,s,0); R v = c v + s n x v + (1-c)(n.v)n), restrict to RotX/Y/Z on the basis axes, "
                "that the 3x3 result is the block of the 4x4 one and that the quaternion route equals the direct route; "
                "every record is one real vek call (rotation_*/rotated_*/rotate_* on Mat2/Mat3/Mat4 in both layouts, "
                "rotation_3d with non-normalised Pythagorean axes, From<Quaternion> for Mat3/Mat4, all 12 quaternion "
                "rotation builders, Vec2 rotation) on angle tokens k*phi_b with exact rational cos/sin, recomputed by "
                "TLC; non-trivial = non-zero angle")
    thorough = ctx.tier == "thorough"
    core.law_runs(ctx, "Law_Xform", ["Law_Xform_P", "Law_Xform_Q"])
    core.law_runs(ctx, "Law_XformS", ["Law_XformS"])      # the same laws as polynomial identities modulo c^2+s^2=1, |n|^2=1
    n = 300 if thorough else 20
    # symbolic lane: matrix entries are free symbols and the angle is a symbol whose (cos, sin) are paired symbols, so each
    # record (rotation_x/y/z, rotated_*, rotate_* on every matrix type and layout, From<Quaternion>, the axis-aligned
    # quaternion builders, Vec2 rotation) is the polynomial computed for EVERY angle and operand
    core.drive_validate(ctx, "sym", "Trace_Xform", "Trace_Xform_S", "rot-sym", 1, OPS_S, key=key,
                        extra_args=["--area", "rot"], corrupt_op="rot_axis")
    core.drive_validate(ctx, "rot", "Trace_Xform", "Trace_Xform_F", "rot", n, OPS, key=key,
                        corrupt_op="rot_3d", nontrivial=nontrivial)
    ctx.assumptions = ["symbolic lane: vek is generic in T and stable Rust has no specialisation, so the polynomial returned on free symbols is the function computed for every element type (parametricity); calls that need a square root or a division by a symbol are not in this lane",
                       "angles are the tokens k*phi_b (cos/sin rational: 4/5, 12/13, 40/41, 15/17; |k| <= 6) - all-angle "
                       "coverage is through the laws on the specification (c, s free with c^2+s^2=1), the code is "
                       "sampled on tokens", "values compared in the prime field Z_46337",
                       "axes have rational length (scaled Pythagorean triples, all sign/permutation images)"]


def replay(ctx, path):
    return core.replay_record(ctx, path)
