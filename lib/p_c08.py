"""C08 — projection matrices map the view volume onto the canonical clip volume (DESIGN §6 C08)."""
import core

OPS = ["ortho_xy", "ortho", "frustum", "persp", "persp_fov", "inf_persp"]


def key(rec):
    return "%s_%s_%s/%s" % (rec["op"], rec.get("hand", ""), rec.get("depth", ""),
                            "offcentre" if rec["op"] == "frustum" else "any")


def nontrivial(r):
    o = r.get("o")
    return not o or (o["l"] + o["r"]) % 46337 != 0     # off-centre volume


def run(ctx):
    ctx.rule = ("TLC checks on the specification (200 random view volumes over Z_46337 per run, off-centre and mirrored "
                "included) that each of the formulas Ortho/Frustum/Perspective/PerspectiveFov/InfinitePerspective x "
                "{lh,rh} x {zo,no} sends the 8 corners of its view volume to the clip corners after the divide with "
                "w = +-z, that perspective = frustum of the symmetric planes and lh = rh composed with a z mirror; every "
                "record is one of the 21 real constructors (both layouts) on exact rational planes / field-of-view "
                "tokens, whose matrix must equal the formula AND is itself tested against the corner axioms by TLC; "
                "non-trivial = off-centre volume (left+right != 0) or a fov constructor")
    thorough = ctx.tier == "thorough"
    core.law_runs(ctx, "Law_Proj", ["Law_Proj"])
    n = 400 if thorough else 30
    core.drive_validate(ctx, "proj", "Trace_Proj", "Trace_Proj", "proj", n, OPS, key=key, corrupt_op="persp",
                        nontrivial=nontrivial)
    ctx.assumptions = ["plane values, aspects, sizes are sampled exact rationals; fields of view are angle tokens "
                       "(tan of the half angle rational); all-input coverage is through the laws on the specification",
                       "values compared in the prime field Z_46337"]


def replay(ctx, path):
    return core.replay_record(ctx, path)
