"""C16 — disks, spheres, segments, rays: containment, distance and hit queries are exact (DESIGN §6 C16)."""
import core

OPS_Z = ["disk_contains", "disk_collides", "disk_box", "disk_diameter", "disk_measure", "seg_distance_f"]
OPS_Q = ["seg_project", "seg_distance", "box_distance", "ray_tri", "disk_cvec"]


def key(rec):
    return "%s/%s" % (rec["op"], rec.get("ty", rec.get("how", "")))


def corrupt_z(rs):
    i = next(k for k, r in enumerate(rs) if r["op"] == "disk_contains" and k > len(rs) // 2)
    rs[i]["obs"] = 1 - rs[i]["obs"]
    return i


def corrupt_q(rs):
    i = next(k for k, r in enumerate(rs) if r["op"] == "ray_tri" and r["obs"] and k > len(rs) // 3)
    rs[i]["obs"][0] = [rs[i]["obs"][0][0] + 1, rs[i]["obs"][0][1]]
    return i


def run(ctx):
    ctx.rule = ("disks / spheres on integer centres, radii and boundary-biased points (exactly on the circle through "
                "Pythagorean offsets) through f64/f32: containment and collision against the squared-distance comparison "
                "incl. exact tangency and negative radii (a negative bound is never reached), f32/f64 segments with "
                "non-dyadic coordinates: distance_to_point = distance to projected_point within 2^-13, also for query points on "
                "the segment, bounding rectangle/box, diameter, measures against pi to 3e-3; segment projection "
                "against the clamped parametric minimiser and 17 sampled points of the segment, distances as witnessed "
                "square roots, ray/triangle against Cramer's rule in exact rationals on a small integer grid aimed at "
                "interior points, edges, vertices, parallel and coplanar directions (hits behind the origin included), "
                "tangency vectors leaving the shapes exactly tangent; non-trivial = all records")
    thorough = ctx.tier == "thorough"
    core.law_runs(ctx, "Law_Spatial", ["Law_Spatial"])
    n = 1500 if thorough else 120
    core.drive_validate(ctx, "shapes", "Trace_Geom", "Trace_Geom_Z", "shapes-z", n, OPS_Z, key=key, corrupt=corrupt_z,
                        extra_args=["--lane", "z"])
    n = 600 if thorough else 60
    core.drive_validate(ctx, "shapes", "Trace_Geom", "Trace_Geom_Q", "shapes-q", n, OPS_Q, key=key, corrupt=corrupt_q,
                        extra_args=["--lane", "q"], timeout=2400)
    ctx.assumptions = ["float decisions are exact on integer data because sqrt is monotone and exact on perfect squares; "
                       "irrational distances as outputs are not examined (dropped as inconclusive by the exact lane)",
                       "ray and triangle coordinates are small integers / quarter-grid barycentric targets"]


def replay(ctx, path):
    return core.replay_record(ctx, path)
