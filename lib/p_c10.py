"""C10 — viewport projection, unprojection and the picking matrix are consistent (DESIGN §6 C10)."""
import core

OPS = ["project", "unproject", "roundtrip", "pick"]


def key(rec):
    if rec["op"] == "pick":
        return "picking_region/compose-order"
    return "%s_%s" % (rec["op"], rec["depth"])


def run(ctx):
    ctx.rule = ("TLC checks on the specification (random tuples over Z_46337) that Project is the perspective-divided clip "
                "position mapped onto the viewport rectangle (depth halved only in the NO flavour), that Unproject "
                "inverts it and that the pick matrix maps the picked window rectangle, in clip coordinates, onto the clip "
                "square; every record is one real call of world_to_viewport_no/zo, viewport_to_world_no/zo (also "
                "composed: unproject(project(p)) through the real code) and picking_region, in both layouts, on random "
                "small-integer and on realistic (rigid view x frustum/ortho) matrix pairs, recomputed by TLC")
    thorough = ctx.tier == "thorough"
    core.law_runs(ctx, "Law_Proj", ["Law_Proj"])
    n = 400 if thorough else 30
    core.drive_validate(ctx, "viewport", "Trace_Proj", "Trace_Proj", "viewport", n, OPS, key=key, corrupt_op="project")
    ctx.assumptions = ["matrix pairs, viewports and points are sampled exact rationals; singular pairs and points with "
                       "clip w = 0 are dropped (counted as inconclusive)", "values compared in the prime field Z_46337"]


def replay(ctx, path):
    return core.replay_record(ctx, path)
