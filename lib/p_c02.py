"""C02 — vector operators and reductions act element-wise on every vector type (DESIGN §6 C02)."""
import core

OPS_Z = ["ew1", "ew2", "ew3", "map", "ctor_v", "ctor_chunks", "cmp", "minmax", "reduce_i", "arith_i"]


def key(rec):
    op = rec["op"]
    if op in ("ew1", "ew2", "ew3"):
        return "%s/code%s/%s/%s" % (op, rec["code"], rec.get("form", ""), rec["ty"])
    return "%s/%s/%s" % (op, rec.get("how", rec.get("which", "")), rec.get("ty", ""))


def corrupt_z(rs):
    idx = [i for i, r in enumerate(rs) if r["op"] == "ew2" and r["ty"] == "Vec64" and r["code"] == 11 and r["form"] == "&v.v"]
    i = idx[len(idx) // 2]
    # element 41 of the result claims to be a[41] - b[40]
    rs[i]["obs"][40] = [11] + rs[i]["a"][40] + rs[i]["b"][39]
    return i


def run(ctx):
    ctx.rule = ("lane Term: vek's generic operator code is run on an opaque term type obeying no law, so each recorded "
                "output element is the exact expression tree that produced it; TLC checks element i = op(a_i, b_i) "
                "(scalar = broadcast) structurally, which holds for every input by parametricity, for all 13 vector "
                "types x 10 binary operators x 9 operand forms (owned/borrowed/scalar/compound-assignment), Neg, Not, "
                "MulAdd in 8 reference forms + inherent, map/map2/map3/apply*/zip/hadd/user fold, and every constructor "
                "(broadcast, zero, one, iota, tuple/array/slice/iterator with fewer/equal/more items); integer lane "
                "(pairwise distinct values with planted coincidences): comparison masks, min/max, reductions, primitive "
                "scalar on the left; rational lane: sum/product/average/dot/Sum/Product; per-element real functions on "
                "exact pairs. TLC model-checks the integer operators exhaustively on 3-vectors over 0..3 (MC_Vec). "
                "non-trivial = every record (all have distinct type/operator/form)")
    thorough = ctx.tier == "thorough"
    core.law_runs(ctx, "MC_Vec", ["MC_Vec"], kind="exhaustive_model")
    core.drive_validate(ctx, "vecops", "Trace_Vec", "Trace_Vec_Z", "vecops", 40 if thorough else 3, OPS_Z, key=key,
                        corrupt=corrupt_z)
    core.drive_validate(ctx, "vecfold", "Trace_Vec", "Trace_Vec_F", "vecfold", 100 if thorough else 6, ["fold", "foldv"],
                        key=key, corrupt_op="fold")
    core.drive_validate(ctx, "vecreal", "Trace_Vec", "Trace_Vec_Q", "vecreal", 60 if thorough else 4, ["real1"],
                        key=key, corrupt=corrupt_q)
    ctx.exhaustive = True
    ctx.assumptions = ["parametricity: stable Rust has no specialisation, so generic code cannot treat the term type "
                       "differently from f32/i32; the T-op-Vec impls that exist only for primitives are checked on values",
                       "repr_simd / platform_intrinsics paths are nightly-only and not examined",
                       "sums/products are compared as exact values (association of a fold is not constrained)"]


def corrupt_q(rs):
    i = next(k for k, r in enumerate(rs) if r["which"] == "round" and k > len(rs) // 2)
    rs[i]["obs"][0] = [rs[i]["obs"][0][0] + 1, 1]
    return i


def replay(ctx, path):
    return core.replay_record(ctx, path)
