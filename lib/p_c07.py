"""C07 — affine builders and Transform act on points as defined and chain in call order (DESIGN §6 C07)."""
import os

import core

OPS = ["ctor", "chain", "mul_point", "mul_dir", "mul_point_2d", "mul_dir_2d", "from_transform"]
OPS_S = OPS + ["local_to_basis", "basis_to_local"]


def key(rec):
    if rec["op"] == "chain":
        return "chain/mat%s/%s" % (rec["n"], rec["form"])
    if rec["op"] == "ctor":
        return "ctor/%s/mat%s" % (rec["st"]["k"], rec["n"])
    if rec["op"] == "from_transform":
        uniform = len(set(str(x) for x in rec["scale"])) == 1
        return "from_transform/%s" % ("uniform-scale" if uniform else "nonuniform-scale-order")
    return rec["op"]


def describe(rec, info):
    if rec["op"] == "chain":
        return "chain %s on Mat%s (%s, %s): matrices after each call differ from Step_k*...*Step_1" % (
            [s["k"] for s in rec["steps"]], rec["n"], rec["lay"], rec["form"])
    return None


def run(ctx):
    ctx.rule = ("TLC explores the builder-chain machine (MC_Chain) for every chain of <= 3 (quick) / 4 (thorough) calls "
                "per matrix size and checks that the accumulated matrix acts on a point like the steps applied in call "
                "order; every enumerated chain is replayed on the real row-major and column-major types in returning and "
                "in-place form with random exact parameters and the matrices recorded after every call are validated "
                "by TLC (Trace_Xform), as are the constructors, point/direction helpers, Transform conversion and "
                "longer random chains; non-trivial = chain with >= 2 calls")
    thorough = ctx.tier == "thorough"
    core.law_runs(ctx, "Law_Xform", ["Law_Xform_P"])
    core.law_runs(ctx, "Law_XformS", ["Law_XformS"])      # the same laws as polynomial identities on free symbols
    L = 4 if thorough else 3
    chains = os.path.join(ctx.work, "chains.txt")
    with open(chains, "w") as out:
        for n in (2, 3, 4):
            p = os.path.join(ctx.work, "chains_%d.txt" % n)
            r = core.tlc("MC_Chain", "MC_Chain_%d_%d" % (n, L), workers=4, out_path=p, coverage=(n == 4))
            core.tlc_ok(r, "MC_Chain_%d_%d" % (n, L))
            ctx.add_tlc(r, "MC_Chain_%d_%d" % (n, L), "exhaustive_model")
            if n == 4 and r.coverage.get("Call", (1, 1))[1] == 0:
                ctx.vacuous.append("MC_Chain:Call")
            out.write(open(p).read())
            os.remove(p)
    n = 60 if thorough else 6

    def nontrivial(r):
        return r["op"] != "chain" or len(r["steps"]) >= 2
    # symbolic lane: every TLC-enumerated chain (those without the free-axis rotation) is replayed with a fresh symbol for
    # every parameter and (cos, sin) symbol pairs for the angles; the matrix recorded after each call is compared with
    # the specification's product as a polynomial matrix - for all parameters at once.  Likewise the constructors,
    # point/direction helpers, Mat4::from(Transform) on 10 symbols and the change-of-basis matrices on 12.
    recs_s, _ = core.drive_validate(ctx, "sym", "Trace_Xform", "Trace_Xform_S", "affine-sym", 1, OPS_S, key=key,
                                    extra_args=["--area", "affine", "--chains", chains], corrupt_op="ctor", nontrivial=nontrivial,
                                    shards=4)
    ctx.traces += sum(1 for r in recs_s if r["op"] == "chain")
    recs, mm = core.drive_validate(ctx, "affine", "Trace_Xform", "Trace_Xform_F", "affine", n, OPS, key=key,
                                   extra_args=["--chains", chains, "--maxlen", 10 if thorough else 6],
                                   corrupt_op="ctor", nontrivial=nontrivial, describe=lambda r, i: describe(r, i) or
                                   "%s: vek returned %s, specification %s [%s]" % (r["op"], str(r.get("obs"))[:300], str(i.get("exp"))[:300],
                                                                                  str({a: b for a, b in r.items() if a != "obs"})[:500]))
    ctx.traces += sum(1 for r in recs if r["op"] == "chain")
    ctx.exhaustive = True
    os.remove(chains)
    ctx.assumptions = ["symbolic lane: vek is generic in T and stable Rust has no specialisation, so the polynomial returned on free symbols is the function computed for every element type (parametricity); calls that need a square root or a division by a symbol are not in this lane",
                       "chains are enumerated exhaustively up to the stated length over the builder kinds of each size; "
                       "parameters of each call are sampled exact rationals / angle tokens",
                       "values compared in the prime field Z_46337"]


def replay(ctx, path):
    return core.replay_record(ctx, path)
