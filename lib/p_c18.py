"""C18 — element containers never duplicate, leak or touch a moved-out element (DESIGN §6 C18)."""
import json
import os
import re
from concurrent.futures import ThreadPoolExecutor

import core
import dotgraph

DIMS = [2, 3, 4, 8, 16, 32, 64]


def tla_seq_strs(v):
    return re.findall(r'"(\w+)"', v)


def tla_ints(v):
    return [int(x) for x in re.findall(r"-?\d+", v)]


def model_and_cases(ctx, n):
    dot = os.path.join(ctx.work, "iter_%d.dot" % n)
    r = core.tlc("MC_Iter", "MC_Iter_%d" % n, workers=2, timeout=900, coverage=(n == 4),
                 extra=["-dump", "dot,actionlabels", dot])
    core.tlc_ok(r, "MC_Iter_%d" % n)
    ctx.add_tlc(r, "MC_Iter_%d" % n, "exhaustive_model")
    if n == 4:
        for a in ["NextSome", "NextNone", "BackSome", "BackNone", "Len", "ObserveLive", "Drop"]:
            if r.coverage.get(a, (0, 0))[1] == 0:
                ctx.vacuous.append("VekIter:" + a)
    nodes, edges, init = dotgraph.parse(dot)
    behaviours, nedges = dotgraph.edge_cover(nodes, edges, init, terminal_action="Drop")
    cases = []
    for b in behaviours:
        steps = []
        for (a, dst) in b:
            sv = dotgraph.state_vars(nodes[dst])
            slot = tla_seq_strs(sv["slot"])
            ret = sv["ret"]
            steps.append({"a": a, "ret": [tla_seq_strs(ret)[0], tla_ints(ret)[0]],
                          "reads": tla_ints(sv["reads"]),
                          "live": [i + 1 for i, s in enumerate(slot) if s == "live"]})
        cases.append({"n": n, "steps": steps})
    os.remove(dot)
    return cases, nedges


def run(ctx):
    ctx.rule = ("TLC builds the complete state graph of the iterator machine (VekIter) for each dimension; behaviours "
                "covering every transition are replayed on IntoIter<Tracked> of every vector type of that dimension; "
                "the two-iterator machine (VekIterPair) enumerates pairs of cursor states (all pairs for dimensions <= 8, cursors at "
                "most 1 (quick) / 3 (thorough) apart for 16..64) and the real iterators brought to those states are compared "
                "with == and != in both orders: result = equality of the remaining sequences, reads only of live elements; "
                "distinct non-trivial = behaviours (paths of the state graph ending in Drop) with at least 2 steps")
    dims = DIMS if ctx.tier == "thorough" else [2, 3, 4, 8, 16, 32, 64]
    with ThreadPoolExecutor(max_workers=4) as ex:
        res = list(ex.map(lambda n: model_and_cases(ctx, n), dims))
    # D8 witness at design level
    r = core.tlc("MC_Iter", "MC_IterDerived", workers=1, keep_out=True)
    ctx.add_tlc(r, "MC_IterDerived(expected-violation)", "sensitivity_witness")
    if r.invariant_violated != "NoReadOfMoved":
        raise core.ToolError("MC_IterDerived: expected NoReadOfMoved violation not reported")
    # the machine's invariants hold for EVERY dimension N (inductive invariant, machine-checked): the replay binds the code
    # to the machine for vek's 13 dimensions, the proof makes the machine's safety independent of N
    core.tlaps(ctx, "Proof_Iter", deps=("VekIter",), expect_theorems=("Safety", "ExactlyOnceThm", "OrderThm"))
    path = os.path.join(ctx.work, "iter_cases.ndjson")
    total_edges = 0
    with open(path, "w") as f:
        for (cases, nedges), n in zip(res, dims):
            total_edges += nedges
            for c in cases:
                f.write(json.dumps(c, separators=(",", ":")) + "\n")
                if len(c["steps"]) >= 2:
                    ctx.nontrivial([n, [s["a"] for s in c["steps"]]])
    ctx.sample({"n": 4, "behaviour": [s["a"] for s in res[dims.index(4)][0][0]["steps"]]})
    out = path + ".rep.json"
    core.vh(["replay", "iter", "--cases", path, "--out", out], timeout=2400)
    rep = json.load(open(out))
    ctx.traces += rep["tables"]
    ctx.evals += rep["evals"]
    ctx.exhaustive = True
    for s in rep["samples"]:
        ctx.sample(s)
    ctx.sub.append({"sub": "replay-iter", "kind": "spec_to_code_behaviours", "behaviours_x_types": rep["tables"],
                    "steps": rep["evals"], "graph_edges_covered": total_edges, "mismatches": rep["mismatch_count"],
                    "notes": rep["notes"]})
    for m in rep["mismatches"]:
        ctx.violation(m["key"], "%s n=%s after %s: %s" % (m["ty"], m.get("n"), "/".join(m.get("path", [])[-6:]), m["what"]), m)
    pairs(ctx)
    conversions(ctx)
    os.remove(path)
    os.remove(out)


def pairs(ctx):
    """B1: the two-iterator machine (VekIterPair): every pair of cursor states (dimensions <= 8) / every pair whose cursors
    differ by at most BAND (16, 32, 64), compared on the real iterators of every vector type of that dimension."""
    path = os.path.join(ctx.work, "iterpair_cases.txt")
    thorough = ctx.tier == "thorough"

    def model(n):
        cfg = "MC_IterPair_%d%s" % (n, "_T" if thorough and n >= 16 else "")
        p = os.path.join(ctx.work, "iterpair_%d.txt" % n)
        r = core.tlc("VekIterPair", cfg, workers=2, out_path=p, timeout=1800)
        core.tlc_ok(r, cfg)
        return r, cfg, p
    with ThreadPoolExecutor(max_workers=4) as ex:
        res = list(ex.map(model, DIMS))
    with open(path, "w") as f:
        for r, cfg, p in res:
            ctx.add_tlc(r, cfg, "exhaustive_model")
            f.write(open(p).read())
            os.remove(p)
    out = path + ".rep.json"
    core.vh(["replay", "iterpair", "--cases", path, "--out", out], timeout=2400)
    rep = json.load(open(out))
    ctx.traces += rep["tables"]
    ctx.evals += rep["evals"]
    for s in rep["samples"]:
        ctx.sample(s)
    if rep["nontrivial"] == 0:
        ctx.vacuous.append("VekIterPair: no pair with equal remaining count and different cursors")
    ctx.sub.append({"sub": "replay-iterpair", "kind": "spec_to_code_states", "state_pairs_x_types": rep["tables"], "comparisons": rep["evals"],
                    "equal_count_different_cursor_pairs": rep["nontrivial"], "mismatches": rep["mismatch_count"]})
    for m in rep["mismatches"]:
        ctx.violation(m["key"], "%s: iterators at cursors %s and %s, %s: %s" % (m["ty"], m["a"], m["b"], m["form"], m["what"]), m)
    os.remove(path)
    os.remove(out)


OWN_OPS = ["vec_from_array", "vec_into_array", "vec_from_tuple", "vec_into_tuple", "vec_as_slice",
           "vec_as_mut_slice", "vec_from_iter", "mat_into_row_array", "mat_into_row_arrays",
           "mat_into_col_array", "mat_into_col_arrays", "mat_from_row_array", "mat_from_row_arrays",
           "mat_from_col_array", "mat_from_col_arrays", "mat_transposed"]


def conversions(ctx):
    """B2: conversions with Tracked elements, validated against the ownership ledger (VekOwn)."""
    tr = os.path.join(ctx.work, "own.ndjson")
    core.vh(["drive", "own", "--out", tr])
    recs = core.read_ndjson(tr)
    for r in recs:
        ctx.nontrivial([r["op"], r["ty"], r["k"]])
    ctx.sample(next(r for r in recs if r["op"] == "mat_into_col_arrays"))
    mm = core.validate_trace(ctx, "Trace_Own", tr, "conversions", expect_actions=OWN_OPS)
    ctx.traces += 1
    for rec, info in mm:
        ctx.violation("conversion/%s" % rec["op"], "%s %s (n=%s k=%s): out %s dropped %s reads %s; spec out %s dropped %s" % (
            rec["ty"], rec["op"], rec["n"], rec["k"], rec["out"], rec["dropped"], rec["reads"],
            info.get("exp"), info.get("expdropped")), rec)

    def mutate(rs):
        i = next(k for k, r in enumerate(rs) if r["op"] == "mat_from_col_array" and r["n"] == 3)
        rs[i]["out"][1], rs[i]["out"][3] = rs[i]["out"][3], rs[i]["out"][1]
        return i
    core.selftest_corrupt(ctx, "Trace_Own", tr, "conversions", mutate)
    for q in os.listdir(ctx.work):
        if q.startswith("own.ndjson"):
            os.remove(os.path.join(ctx.work, q))


def replay(ctx, path):
    d = json.load(open(path))
    print(json.dumps(d["first"], indent=1))
    return 0
