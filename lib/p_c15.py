"""C15 — Bezier extrema, bounding boxes, closest-point search and length bound the curve (DESIGN §6 C15)."""
import core


def key(rec):
    if rec["op"] == "bez_extrema":
        crit = rec["crit"]
        deg = 2 if rec["ty"].startswith("Quadratic") else 3
        outside = any(not (0 <= c[0] <= c[1]) for c in crit)
        cls = {0: "no-root", 1: "linear-derivative" if deg == 3 else "one-root", 2: "two-roots"}[len(crit)]
        return "extrema/%s/%s%s" % ("quadratic" if deg == 2 else "cubic", cls, "/root-outside" if outside else "")
    if rec["op"] == "bez_bounds":
        return "bounds/%s" % rec["ty"]
    return "%s/%s" % (rec["op"], rec.get("ty", ""))


def classes(recs):
    c = {}
    for r in recs:
        if r["op"] == "bez_extrema":
            k = key(r)
            c[k] = c.get(k, 0) + 1
    return c


def run(ctx):
    ctx.rule = ("every curve coordinate is constructed from a chosen class of derivative (two rational roots inside / "
                "outside / on the ends of [0,1], double root, no real root, linear derivative, constant, zero); the "
                "roots are passed as witnesses that TLC verifies against the control points (factorisation of the "
                "derivative / negative discriminant), so TLC knows the exact minimum and maximum over [0,1] and checks "
                "in exact rational arithmetic: returned parameters in [0,1] attaining them, x/y/z_bounds consistent, "
                "reported inflections are zeros of the derivative inside the interval, aabr/aabb equal [min,max] per "
                "axis in curve coordinates, closest-point search returns the curve point at its parameter, no farther "
                "than any coarse sample and the end point; discretised length on f64 with witnessed chord / polygon "
                "lengths: chord <= L_n <= polygon, L_n <= L_2n; f64 quadratics with non-dyadic coordinates and their degree-elevated "
                "cubics (leading derivative coefficient a rounding residue): bounding box = closed-form box of the quadratic to 2^-7 tenths; non-trivial = all records (each has a distinct curve)")
    thorough = ctx.tier == "thorough"
    core.law_runs(ctx, "Law_Bezier", ["Law_Bezier"])
    n = 400 if thorough else 40
    recs, mm = core.drive_validate(ctx, "bezext", "Trace_Bezier", "Trace_Bezier_Q", "bezext", n,
                                   ["bez_extrema", "bez_bounds"], key=key, corrupt=corrupt)
    cls = classes(recs)
    ctx.sub[-2 if len(ctx.sub) > 1 else -1]["branch_classes"] = cls
    need = ["extrema/cubic/two-roots", "extrema/cubic/two-roots/root-outside", "extrema/cubic/no-root",
            "extrema/cubic/linear-derivative", "extrema/cubic/linear-derivative/root-outside",
            "extrema/quadratic/one-root", "extrema/quadratic/one-root/root-outside", "extrema/quadratic/no-root"]
    for k in need:
        if not cls.get(k):
            ctx.vacuous.append("branch class never generated: " + k)
    core.drive_validate(ctx, "bezlen", "Trace_Bezier", "Trace_Bezier_Z", "bezlen", n, ["bez_length", "bez_search", "bez_elev_f", "bez_piece_box_f"], key=key,
                        corrupt=corrupt_len)
    ctx.assumptions = ["curves with irrational derivative roots are not examined (the witness must be rational); every "
                       "branch of the case analysis of the code is reached with rational roots",
                       "length: integer control points in -8..8, 3 nested discretisations per curve, slack 4/256"]


def corrupt(rs):
    idx = [i for i, r in enumerate(rs) if r["op"] == "bez_extrema" and r["pan"] == 0]
    i = idx[len(idx) // 2]
    rs[i]["obs"]["min"] = [3, 2]        # a parameter outside [0,1]
    return i


def corrupt_len(rs):
    idx = [k for k, r in enumerate(rs) if r["op"] == "bez_length"]
    i = idx[len(idx) // 2]
    rs[i]["obs"][0] = sum(rs[i]["legs"]) + 100       # longer than the control polygon
    return i


def replay(ctx, path):
    return core.replay_record(ctx, path)
