"""Shared machinery of /verif/check: harness build, TLC runs, trace validation,
table replay, evidence, findings.  Python 3 stdlib only."""
import hashlib
import json
import os
import re
import shutil
import subprocess
import sys
import time

ROOT = os.path.dirname(os.path.dirname(os.path.abspath(__file__)))
SPEC = os.path.join(ROOT, "spec")
# The registered checks always use /repo and /verif/harness.  tools/try_mutant_wt.sh audits seeded changes in
# a scratch worktree instead, with a scratch copy of the harness whose path dependency points there; it
# redirects the directories below through the environment so that nothing under /verif is touched.
HARNESS = os.environ.get("VERIF_HARNESS", os.path.join(ROOT, "harness"))
FEATPROBE = os.environ.get("VERIF_FEATPROBE", os.path.join(ROOT, "featprobe"))
REPO = os.environ.get("VERIF_REPO", "/repo")
WORK = os.environ.get("VERIF_WORK", os.path.join(ROOT, "work"))
OUT = os.environ.get("VERIF_OUT", os.path.join(ROOT, "out"))
EVID = os.environ.get("VERIF_EVID", os.path.join(ROOT, "evidence"))
VH = os.path.join(HARNESS, "target", "release", "vh")
TLA_JAR = "/opt/veriftools/tla/tla2tools.jar"
CM_JAR = "/opt/veriftools/tla/CommunityModules-deps.jar"


class ToolError(Exception):
    """Infrastructure failure (never reported as pass or violation): exit 2."""


def log(*a):
    print(*a, flush=True)


def sh(cmd, cwd=None, env=None, timeout=None, stdin=None, stdout_path=None):
    e = dict(os.environ)
    if env:
        e.update({k: str(v) for k, v in env.items()})
    t0 = time.time()
    try:
        if stdout_path:
            with open(stdout_path, "w") as fo:
                p = subprocess.run(cmd, cwd=cwd, env=e, timeout=timeout, stdin=stdin,
                                   stdout=fo, stderr=subprocess.PIPE, text=True)
            out = ""
        else:
            p = subprocess.run(cmd, cwd=cwd, env=e, timeout=timeout, stdin=stdin,
                               stdout=subprocess.PIPE, stderr=subprocess.PIPE, text=True)
            out = p.stdout
    except subprocess.TimeoutExpired:
        raise ToolError("timeout after %ss: %s" % (timeout, " ".join(map(str, cmd))[:300]))
    return p.returncode, out, p.stderr, time.time() - t0


# ---------------------------------------------------------------------------
# harness

_built = False


def build_harness():
    """cargo build of the conformance harness against /repo's working tree."""
    global _built
    if _built:
        return
    lock = os.path.join(WORK, ".cargo_lock")
    os.makedirs(WORK, exist_ok=True)
    import fcntl
    with open(lock, "w") as lf:
        fcntl.flock(lf, fcntl.LOCK_EX)
        rc, out, err, dt = sh(["cargo", "build", "--release", "--offline", "--quiet"], cwd=HARNESS,
                              env={"CARGO_NET_OFFLINE": "true"}, timeout=1800)
    if rc != 0:
        sys.stderr.write(err[-6000:])
        raise ToolError("harness build failed (does /repo still compile with all stable features?)")
    _built = True


def vh(args, timeout=1800, stdout_path=None, env=None):
    build_harness()
    rc, out, err, dt = sh([VH] + [str(a) for a in args], cwd=ROOT, timeout=timeout,
                          stdout_path=stdout_path, env=env)
    if rc != 0:
        sys.stderr.write(err[-4000:])
        raise ToolError("vh %s exited %d" % (" ".join(map(str, args)), rc))
    return out, err


# ---------------------------------------------------------------------------
# TLC

class TlcResult:
    def __init__(self):
        self.rc = None
        self.out = ""
        self.generated = 0
        self.distinct = 0
        self.depth = 0
        self.errors = []          # TLC "Error:" blocks
        self.invariant_violated = None
        self.prints = []          # decoded ToJson payloads printed by PrintT
        self.raw_prints = []      # other PrintT lines (TLA+ value syntax)
        self.coverage = {}        # action name -> (distinct, total)
        self.wall = 0.0
        self.accepted = None


_cnt_re = re.compile(r"^(\d+) states generated, (\d+) distinct states found")
_depth_re = re.compile(r"The depth of the complete state graph search is (\d+)")
_cov_re = re.compile(r"^<(\w+) line \d+, col \d+ to line \d+, col \d+ of module (\w+)>: (\d+):(\d+)")


def tlc(module, cfg=None, name=None, env=None, workers=4, timeout=900, simulate=None,
        depth=None, heap="4g", coverage=False, deque=False, extra=None, keep_out=False,
        out_path=None):
    """Run TLC on spec/<module>.tla with spec/<cfg>.cfg; returns TlcResult."""
    cfg = cfg or module
    name = name or (module + "-" + cfg)
    meta = os.path.join(WORK, "tlc", name + "-%d" % os.getpid())
    shutil.rmtree(meta, ignore_errors=True)
    os.makedirs(meta, exist_ok=True)
    jopts = "-Xss1g"
    if deque:
        jopts += " -Dtlc2.tool.queue.IStateQueue=StateDeque"
    cmd = ["java", "-Xmx" + heap, "-XX:+UseParallelGC", "-Xss1g"]
    if deque:
        cmd.append("-Dtlc2.tool.queue.IStateQueue=StateDeque")
    cmd += ["-cp", TLA_JAR + ":" + CM_JAR, "tlc2.TLC", "-workers", str(workers),
            "-metadir", meta, "-cleanup", "-noGenerateSpecTE", "-config", cfg + ".cfg"]
    if coverage:
        cmd += ["-coverage", "1"]
    if simulate:
        cmd += ["-simulate", simulate]
    if depth:
        cmd += ["-depth", str(depth)]
    if extra:
        cmd += extra
    cmd.append(module + ".tla")
    e = {"JAVA_TOOL_OPTIONS": ""}
    if env:
        e.update(env)
    if out_path:
        # big table emission: stdout goes straight to a file read by the Rust replayer
        rc, _o, err, dt = sh(cmd, cwd=SPEC, env=e, timeout=timeout, stdout_path=out_path)
        with open(out_path, errors="replace") as fo:
            out = "\n".join(l.rstrip("\n") for l in fo if not l.startswith('"'))
    else:
        rc, out, err, dt = sh(cmd, cwd=SPEC, env=e, timeout=timeout)
    shutil.rmtree(meta, ignore_errors=True)
    r = TlcResult()
    r.rc, r.out, r.wall = rc, out, dt
    cur_err = None
    for line in out.splitlines():
        m = _cnt_re.match(line)
        if m:
            r.generated, r.distinct = int(m.group(1)), int(m.group(2))
            continue
        m = _depth_re.search(line)
        if m:
            r.depth = int(m.group(1))
        if line.startswith('"') and line.endswith('"') and len(line) > 2 and line[1] in "{[":
            try:
                r.prints.append(json.loads(json.loads(line)))
                continue
            except Exception:
                pass
        if line.startswith("Error:"):
            r.errors.append(line)
            m2 = re.search(r"Invariant (\w+) is violated", line)
            if m2:
                r.invariant_violated = m2.group(1)
        m = _cov_re.match(line)
        if m:
            r.coverage[m.group(1)] = (int(m.group(3)), int(m.group(4)))
    if not keep_out and rc == 0:
        r.out = out[-4000:]
    return r


def tlc_ok(r, what):
    """A model run that is expected to complete without error."""
    if r.rc != 0 or r.errors:
        sys.stderr.write(r.out[-6000:] + "\n")
        raise ToolError("TLC run %s failed (rc=%s, errors=%s)" % (what, r.rc, r.errors[:2]))


# ---------------------------------------------------------------------------
# findings

def load_findings():
    p = os.path.join(ROOT, "known_findings.json")
    if not os.path.exists(p):
        return []
    return json.load(open(p))


class Ctx:
    """Accumulates what one check run covered and found."""

    def __init__(self, prop, tier, seed):
        self.prop, self.tier, self.seed = prop, tier, seed
        self.t0 = time.time()
        self.states = 0
        self.transitions = 0
        self.traces = 0            # behaviours/programs/tables replayed against vek
        self.evals = 0             # individual compared results
        self.distinct = set()      # hashes of distinct non-trivial cases
        self.distinct_extra = 0    # counted by the harness itself (already de-duplicated there)
        self.samples = []
        self.sub = []              # sub-check records
        self.viol = []             # dicts: key, what, detail
        self.inconclusive = 0
        self.skipped_overflow = 0
        self.vacuous = []
        self.exhaustive = None
        self.rule = ""
        self.assumptions = []
        self.work = os.path.join(WORK, prop)
        os.makedirs(self.work, exist_ok=True)

    # -- accounting
    def add_tlc(self, r, label, kind):
        self.states += r.distinct
        self.transitions += r.generated
        self.sub.append({"sub": label, "kind": kind, "tlc_distinct_states": r.distinct,
                         "tlc_states_generated": r.generated, "wall_s": round(r.wall, 2)})

    def sample(self, s):
        if len(self.samples) < 12:
            self.samples.append(s)

    def nontrivial(self, obj):
        self.distinct.add(hashlib.sha1(json.dumps(obj, sort_keys=True).encode()).hexdigest()[:16])

    def violation(self, key, what, detail=None):
        self.viol.append({"key": key, "what": what, "detail": detail})

    # -- finish
    def finish(self, level="model_checking"):
        findings = [f for f in load_findings() if f.get("property") == self.prop]
        known = {f["key"]: f for f in findings if f.get("status") == "known"}
        os.makedirs(os.path.join(OUT, "replay"), exist_ok=True)
        os.makedirs(EVID, exist_ok=True)
        new, seen_known = [], {}
        for v in self.viol:
            if v["key"] in known:
                seen_known.setdefault(v["key"], v)
            else:
                new.append(v)
        for k, v in seen_known.items():
            log("KNOWN-FINDING: property=%s %s (%s)" % (self.prop, known[k]["what"], k))
        replay_paths = []
        by_key = {}
        for v in new:
            by_key.setdefault(v["key"], []).append(v)
        for i, (k, vs) in enumerate(sorted(by_key.items())):
            path = os.path.join(OUT, "replay", "%s-%d.json" % (self.prop, i))
            json.dump({"property": self.prop, "finding_key": k, "count": len(vs),
                       "first": vs[0], "more": vs[1:6], "seed": self.seed, "tier": self.tier},
                      open(path, "w"), indent=1, default=str)
            replay_paths.append(path)
            log("VIOLATION property=%s replay=%s" % (self.prop, path))
            log("  key=%s n=%d: %s" % (k, len(vs), vs[0]["what"][:400]))
        cov = {
            "states": self.states, "transitions": self.transitions,
            "traces_validated_against_impl": self.traces,
            "evaluations": self.evals,
            "distinct_nontrivial": len(self.distinct) + self.distinct_extra,
            "rule": self.rule, "samples": self.samples or ["(none)"],
            "sub_checks": self.sub, "inconclusive_samples": self.inconclusive,
            "skipped_overflow": self.skipped_overflow, "vacuous_actions": self.vacuous,
            "known_findings_seen": sorted(seen_known),
        }
        if self.exhaustive is not None:
            cov["exhaustive"] = self.exhaustive
        ev = {"property_id": self.prop, "tier": self.tier, "seed": self.seed, "level": level,
              "coverage": cov, "assumptions": self.assumptions,
              "wall_s": round(time.time() - self.t0, 2), "violations": len(new)}
        json.dump(ev, open(os.path.join(EVID, self.prop + ".json"), "w"), indent=1, default=str)
        if self.vacuous:
            log("vacuous actions / antecedents: %s" % self.vacuous)
            raise ToolError("vacuity guard tripped: %s" % self.vacuous)
        log("%s %s: states=%d transitions=%d traces=%d evals=%d distinct=%d violations=%d known=%d wall=%.1fs" % (
            self.prop, self.tier, self.states, self.transitions, self.traces, self.evals,
            cov["distinct_nontrivial"], len(new), len(seen_known), ev["wall_s"]))
        return 1 if new else 0


# ---------------------------------------------------------------------------
# trace validation (B2): code -> spec

def read_ndjson(path):
    with open(path) as f:
        return [json.loads(l) for l in f if l.strip()]


def write_ndjson(path, recs):
    with open(path, "w") as f:
        for r in recs:
            f.write(json.dumps(r, separators=(",", ":")) + "\n")


def validate_trace(ctx, module, path, label, cfg=None, timeout=900, heap="3g", max_rounds=12,
                   group_key=None, coverage=True, expect_actions=None):
    """Validate an ndjson trace recorded from vek against spec/<module>.tla.

    The trace specification consumes one record per step; a record the
    specification cannot explain blocks the trace (TLC then reports through its
    POSTCONDITION where it stopped and what it expected).  To keep checking the
    rest, the offending record (or, for stateful traces, its whole program as
    given by group_key) is removed and the validation is run again; every
    removal is one mismatch.  Returns list of mismatches (record, info)."""
    recs = read_ndjson(path)
    n_total = len(recs)
    max_rounds = max(max_rounds, 12 + n_total // 1500)      # tolerated overflow / blocking records grow with the trace
    mismatches = []        # records that blocked the trace (removed, then the rest is validated again)
    round_mm = []          # records flagged by MISMATCH prints in the current round
    rounds = 0
    cur = path
    while True:
        rounds += 1
        r = tlc(module, cfg or module, name="%s-%s" % (ctx.prop, label), env={"TRACE": cur},
                workers=1, timeout=timeout, heap=heap, coverage=coverage and rounds == 1, deque=True,
                keep_out=True)
        ctx.add_tlc(r, label + ("" if rounds == 1 else "#%d" % rounds), "trace_validation")
        rej = None
        round_mm = []
        seen_l = set()
        for p in r.prints:
            if isinstance(p, dict) and p.get("tag") == "REJECTED_AT":
                rej = p
            if isinstance(p, dict) and p.get("tag") == "MISMATCH" and p["l"] not in seen_l:
                seen_l.add(p["l"])      # TLC may evaluate an action (and its PrintT) more than once
                round_mm.append((recs[p["l"] - 1] if 0 < p["l"] <= len(recs) else None, p))
        overflow = any("verflow" in e for e in r.errors) or "verflow" in r.out
        hard = [e for e in r.errors if "POSTCONDITION" not in e.upper() and "ostcondition" not in e]
        if rej is None and not hard and r.rc == 0:
            if expect_actions:
                # every record was consumed by the action named after its op: an op that never
                # occurs in the accepted trace means that action was never exercised (vacuity guard)
                seen = {}
                for rec in recs:
                    seen[rec.get("op")] = seen.get(rec.get("op"), 0) + 1
                for a in expect_actions:
                    if not seen.get(a):
                        ctx.vacuous.append("%s:%s" % (module, a))
                ctx.sub[-1]["events_per_action"] = seen
            break
        if rej is None:
            # evaluation error (e.g. 32-bit overflow inside TLC): find the record being consumed
            m = re.findall(r"\bl = (\d+)", r.out)
            if overflow and m:
                k = int(m[-1])
                ctx.skipped_overflow += 1
                bad = recs[k - 1]
                recs = _drop(recs, k - 1, group_key)
            else:
                sys.stderr.write(r.out[-5000:] + "\n")
                raise ToolError("trace validation %s: TLC failed without a verdict" % label)
        else:
            k = rej["l"]
            bad = recs[k - 1] if k - 1 < len(recs) else None
            mismatches.append((bad, rej))
            recs = _drop(recs, k - 1, group_key)
        if not recs:
            break
        if rounds >= max_rounds:
            raise ToolError("trace validation %s: more than %d records block the trace or overflow TLC's integers; "
                            "the remainder would go unvalidated" % (label, max_rounds))
        cur = path + ".r%d" % rounds
        write_ndjson(cur, recs)
    ctx.evals += n_total
    return mismatches + round_mm


def _drop(recs, idx, group_key):
    if group_key is None:
        return recs[:idx] + recs[idx + 1:]
    g = recs[idx].get(group_key)
    return [r for r in recs if r.get(group_key) != g]


def tlaps(ctx, module, deps=(), expect_theorems=()):
    """Checks the proofs of spec/<module>.tla with the TLA+ proof system (tlapm: SMT, Zenon, Isabelle back ends) in a
    scratch copy (tlapm writes its cache next to the module).  Proof checking is about the specification only and is
    deterministic up to back-end timeouts, so a failed run is retried once with longer timeouts before it counts."""
    import shutil
    d = os.path.join(ctx.work, "tlaps_" + module)
    shutil.rmtree(d, ignore_errors=True)
    os.makedirs(d)
    for m in (module,) + tuple(deps):
        shutil.copy(os.path.join(SPEC, m + ".tla"), d)
    text = open(os.path.join(SPEC, module + ".tla")).read()
    for t in expect_theorems:
        if not re.search(r"THEOREM\s+%s\s*==" % t, text):
            raise ToolError("%s: theorem %s not found" % (module, t))
    n = None
    for stretch, threads in ((3, 4), (12, 2)):
        rc, out, err, dt = sh(["tlapm", "--threads", str(threads), "--stretch", str(stretch), "--cleanfp", module + ".tla"], cwd=d, timeout=1800)
        m = re.search(r"All (\d+) obligations? proved", out + err)
        if m:
            n = int(m.group(1))
            break
    shutil.rmtree(d, ignore_errors=True)
    if n is None:
        sys.stderr.write((out + err)[-3000:])
        raise ToolError("%s: the proof system left obligations unproved (specification-side; vek is not involved)" % module)
    ctx.sub.append({"sub": "tlaps[%s]" % module, "kind": "machine_checked_proof", "obligations_proved": n,
                    "theorems": list(expect_theorems), "wall_s": round(dt, 1)})
    return n


def selftest_corrupt(ctx, module, path, label, mutate, cfg=None):
    """Binding demonstration: a corrupted copy of an accepted trace must be rejected."""
    recs = read_ndjson(path)
    idx = mutate(recs)
    p2 = path + ".corrupt"
    # a window around the corrupted record is enough (and keeps the demonstration fast on long traces)
    lo = max(0, idx - 100)
    write_ndjson(p2, recs[lo:idx + 100])
    r = tlc(module, cfg or module, name="%s-%s-selftest" % (ctx.prop, label), env={"TRACE": p2},
            workers=1, timeout=300, heap="2g", deque=True, keep_out=True)
    rejected = any(isinstance(p, dict) and p.get("tag") in ("REJECTED_AT", "MISMATCH") for p in r.prints)
    ctx.sub.append({"sub": label + "-selftest", "kind": "binding_demonstration",
                    "corrupted_record": idx, "rejected": rejected})
    if not rejected:
        raise ToolError("binding self-test: corrupted trace %s was accepted" % label)


# ---------------------------------------------------------------------------
# generic algebraic conformance: drive vek -> ndjson -> Trace_<X>.tla

def law_runs(ctx, module, cfgs, workers=4, timeout=1800, heap="4g", kind="law_on_spec"):
    """Run Law_* / MC_* configurations of one module in parallel; all must pass.
    RandomElement draws are seeded with the run's seed, so a run is reproducible."""
    from concurrent.futures import ThreadPoolExecutor
    with ThreadPoolExecutor(max_workers=min(6, len(cfgs))) as ex:
        futs = [(c, ex.submit(tlc, module, c, None, None, workers, timeout, None, None, heap, False, False,
                              ["-seed", str(ctx.seed)])) for c in cfgs]
        for c, f in futs:
            r = f.result()
            if r.invariant_violated:
                sys.stderr.write(r.out[-3000:] + "\n")
                raise ToolError("specification law %s violated in %s/%s: the specification itself is wrong" % (
                    r.invariant_violated, module, c))
            tlc_ok(r, "%s/%s" % (module, c))
            ctx.add_tlc(r, c, kind)


def drive_validate(ctx, drive, module, cfg, label, n, expect_ops, key=None, extra_args=None,
                   corrupt_op=None, corrupt=None, timeout=1200, nontrivial=None, describe=None, shards=None):
    """B2 for one driver: run `vh drive <drive>`, validate the trace with spec/<module>.tla under
    <cfg>, turn every record the specification rejects into a violation, then demonstrate the
    binding by corrupting one recorded result."""
    tr = os.path.join(ctx.work, "%s.ndjson" % label)
    summ = tr + ".summary"
    vac0 = len(ctx.vacuous)
    args = ["drive", drive, "--out", tr, "--seed", ctx.seed, "--n", n, "--summary", summ] + list(extra_args or [])
    vh(args, timeout=timeout)
    s = json.load(open(summ))
    ctx.inconclusive += s.get("inconclusive", 0)
    recs = read_ndjson(tr)
    if not recs:
        raise ToolError("driver %s produced no events" % drive)
    for r in recs:
        if nontrivial is None or nontrivial(r):
            ctx.nontrivial({k: v for k, v in r.items() if k not in ("obs",)})
    ctx.sample({k: recs[0][k] for k in recs[0]})
    if shards is None:
        shards = 8 if ctx.tier == "thorough" else 1
    if shards > 1 and len(recs) >= 400 * shards:
        # long traces are validated by several single-worker TLC processes in parallel, each on a contiguous part
        from concurrent.futures import ThreadPoolExecutor
        size = (len(recs) + shards - 1) // shards
        parts = []
        for k in range(shards):
            part = recs[k * size:(k + 1) * size]
            if part:
                pp = "%s.part%d" % (tr, k)
                write_ndjson(pp, part)
                parts.append((k, pp))
        with ThreadPoolExecutor(max_workers=shards) as ex:
            res = list(ex.map(lambda kp: validate_trace(ctx, module, kp[1], "%s/%d" % (label, kp[0]), cfg=cfg, timeout=timeout,
                                                        coverage=False), parts))
        mm = [x for r in res for x in r]
        seen = {}
        for r in recs:
            seen[r.get("op")] = seen.get(r.get("op"), 0) + 1
        for a in expect_ops or []:
            if not seen.get(a):
                ctx.vacuous.append("%s:%s" % (module, a))
        ctx.sub.append({"sub": label, "kind": "trace_validation_sharded", "shards": len(parts), "events_per_action": seen})
    else:
        mm = validate_trace(ctx, module, tr, label, cfg=cfg, expect_actions=expect_ops, timeout=timeout)
    ctx.traces += 1
    ctx.sub[-1]["driver_summary"] = {k: s[k] for k in ("events", "inconclusive", "panics")}
    if drive == "sym" and s.get("inconclusive", 0) > 0 and len(ctx.vacuous) > vac0:
        # the symbolic lane cannot follow code that compares or takes roots of free symbols: such calls are dropped as
        # inconclusive by the element type.  That is a limit of this lane, not a verdict and not a tool failure - the sampled
        # lanes of the same property validate the same calls; the ops are listed in the evidence instead of stopping the check
        ctx.sub[-1]["ops_inconclusive_on_free_symbols"] = ctx.vacuous[vac0:]
        log("symbolic lane: no conclusive record for %s (dropped as inconclusive); relying on the sampled lanes" % ctx.vacuous[vac0:])
        del ctx.vacuous[vac0:]
    for rec, info in mm:
        if key:
            try:
                k = key(rec, info)
            except TypeError:
                k = key(rec)
        else:
            k = rec.get("op", "?")
        what = describe(rec, info) if describe else "%s: vek returned %s, specification %s  [record %s]" % (
            rec.get("op"), json.dumps(rec.get("obs"))[:300], json.dumps(info.get("exp"))[:300],
            json.dumps({a: b for a, b in rec.items() if a != "obs"})[:600])
        ctx.violation(k, what, {"record": rec, "spec": info, "module": module, "cfg": cfg})
    if corrupt is None:
        def corrupt(rs):
            idx = [i for i, r in enumerate(rs) if (corrupt_op is None or r["op"] == corrupt_op) and r.get("pan") == 0]
            i = idx[len(idx) // 2]
            rs[i]["obs"] = _bump(rs[i]["obs"])
            return i
    selftest_corrupt(ctx, module, tr, label, corrupt, cfg=cfg)
    for q in os.listdir(ctx.work):
        if q.startswith(label + ".ndjson"):
            os.remove(os.path.join(ctx.work, q))
    return recs, mm


def _bump(v):
    """Change one number inside a recorded observation."""
    if isinstance(v, list):
        if not v:
            return [1]
        return [_bump(v[0])] + v[1:]
    if isinstance(v, bool):
        return not v
    if isinstance(v, int):
        return v + 1
    if isinstance(v, dict) and "ply" in v:
        # a polynomial of the symbolic lane: change one coefficient (or make the zero polynomial non-zero)
        t = v["ply"]
        return {"ply": ([[t[0][0] + 1, t[0][1]]] + t[1:]) if t else [[1, 1]]}
    return v


def replay_record(ctx, path):
    """--replay: re-validate the recorded call(s) of a violation file against the specification."""
    d = json.load(open(path))
    first = d["first"]
    det = first.get("detail") or {}
    log(json.dumps(first, indent=1)[:4000])
    if not det.get("module"):
        return 0
    tr = os.path.join(ctx.work, "replay.ndjson")
    write_ndjson(tr, [det["record"]])
    r = tlc(det["module"], det["cfg"], name="%s-replay" % ctx.prop, env={"TRACE": tr}, workers=1, deque=True, keep_out=True)
    bad = any(isinstance(p, dict) and p.get("tag") in ("MISMATCH", "REJECTED_AT") for p in r.prints)
    log("replayed record is %s by the specification" % ("REJECTED" if bad else "accepted"))
    if bad:
        log("VIOLATION property=%s replay=%s" % (ctx.prop, path))
    return 1 if bad else 0
