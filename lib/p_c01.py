"""C01 — matrix products are the linear-algebra product in both storage layouts (DESIGN §6 C01)."""
import core

OPS_F = ["mul_mm", "mul_mv", "mul_vm", "mul_ms", "add_ms", "sub_ms", "div_ms", "add_mm", "sub_mm",
         "mulw_mm", "div_mm", "neg_m", "identity", "zero", "is_zero", "mat2h"]
OPS_Z = OPS_F + ["rem_mm", "rem_ms"]
OPS_S = [o for o in OPS_F if not o.startswith("div_")]


def key(rec):
    if rec["op"] == "mat2h":
        return "mat2h/" + rec["h"]
    return "%s/%s" % (rec["op"], rec.get("lay", "").rstrip("="))


def nontrivial(r):
    # a product whose operands have no zero row (every output entry is a genuine sum of products)
    a = r.get("a")
    return isinstance(a, list) and all((any(x != 0 for x in row) if isinstance(row, list) else True) for row in a)


def run(ctx):
    ctx.rule = ("TLC checks the ring laws (identity, associativity, transpose, bilinearity, adjugate) on the "
                "specification's MatMul/MatVec/VecMat as polynomial identities on free symbols (VekPoly), exhaustively "
                "over small fields and on random tuples over Z_46337; the code is run on matrices of distinct free "
                "symbols (lane Sym) and every returned polynomial is compared with the specification's (all inputs at once); every record is one real vek call (sizes 2,3,4; layout pairs rr,cc,rc,cr; owned and "
                "compound-assignment forms; lanes exact-rational, i32, i64, f32, f64) whose projected result TLC "
                "recomputes from the operands; non-trivial = operand matrix without an all-zero row")
    thorough = ctx.tier == "thorough"
    cfgs = ["Law_Mat_2_S", "Law_Mat_3_S", "Law_Mat_4_S", "Law_Mat_2x2_P2p", "Law_Mat_2_rand", "Law_Mat_3_rand", "Law_Mat_4_rand"]
    if thorough:
        cfgs += ["Law_Mat_2x2_P2", "Law_Mat_2x2_P3", "Law_Mat_3_rand_big", "Law_Mat_4_rand_big"]
    core.law_runs(ctx, "Law_Mat", cfgs)
    n = 400 if thorough else 25
    # symbolic lane: operands are matrices of distinct free symbols, each recorded result is the polynomial the code
    # computes for every input; TLC compares it with the specification's polynomial (VekPoly), no sampling
    core.drive_validate(ctx, "products", "Trace_Mat", "Trace_Mat_S", "products-sym", 3 if thorough else 1, OPS_S, key=key,
                        extra_args=["--lane", "sym"], corrupt_op="mul_mm", nontrivial=nontrivial)
    core.drive_validate(ctx, "products", "Trace_Mat", "Trace_Mat_F", "products-q", n, OPS_F, key=key,
                        extra_args=["--lane", "q"], corrupt_op="mul_mm", nontrivial=nontrivial)
    core.drive_validate(ctx, "products", "Trace_Mat", "Trace_Mat_Z", "products-z", n, OPS_Z, key=key,
                        extra_args=["--lane", "z"], corrupt_op="mul_vm", nontrivial=nontrivial)
    ctx.assumptions = ["symbolic lane: vek is generic in T and stable Rust has no specialisation, so the polynomial returned on "
                       "free symbols is the function computed for every element type (parametricity)",
                       "exact arithmetic: rational operands are compared in the prime field Z_46337 (a wrong rational "
                       "result is missed only if it agrees with the right one modulo 46337)",
                       "the rational and native lanes (i32/i64/f32/f64) are sampled (seeded): an identity that fails is detected with the "
                       "probability that a random point is not a root (Schwartz-Zippel)"]


def replay(ctx, path):
    return core.replay_record(ctx, path)
