"""C09 — view and change-of-basis matrices are rigid and place eye, target, axes right (DESIGN §6 C09)."""
import core

OPS = ["look_at", "local_to_basis", "basis_to_local"]


def key(rec):
    if rec["op"] == "look_at":
        return "%slook_at_%s" % ("model_" if rec["model"] else "", rec["hand"])
    return rec["op"]


def run(ctx):
    ctx.rule = ("TLC checks over exact rationals that the textbook frame matrix satisfies the look-at axioms (rigid, det +1, "
                "eye -> origin, target -> (0,0,+-d) on the forward axis of the handedness, up in the upper vertical "
                "half-plane) and that local_to_basis/basis_to_local place origin and axes and invert each other; every "
                "record is one real vek call (look_at_lh/rh, deprecated look_at, model_look_at_* in both layouts on "
                "rational orthonormal frames with free eye, distance and up = a*u + b*f; change of basis on orthonormal "
                "and general bases) whose recorded matrix TLC tests against those axioms in the ordered field of "
                "rationals; the axioms determine the matrix uniquely")
    thorough = ctx.tier == "thorough"
    core.law_runs(ctx, "Law_Xform", ["Law_Xform_Q", "Law_Xform_P"])
    n = 400 if thorough else 30
    core.drive_validate(ctx, "view", "Trace_Xform", "Trace_Xform_Q", "view", n, OPS, key=key, corrupt_op="look_at",
                        corrupt=corrupt)
    ctx.assumptions = ["eye/target/up are constructed from rational orthonormal frames (rotation matrices of rational unit "
                       "quaternions) so that both normalisations in the code are rational: exact sampling, not a "
                       "symbolic identity over all eye/target/up (nested radicals are outside this technique)"]


def corrupt(rs):
    i = next(k for k, r in enumerate(rs) if r["op"] == "look_at" and r["model"] == 0 and k > len(rs) // 2)
    rs[i]["obs"][0][3] = [rs[i]["obs"][0][3][0] + 1, rs[i]["obs"][0][3][1]]
    return i


def replay(ctx, path):
    return core.replay_record(ctx, path)
