#!/usr/bin/env python3
"""Regenerates /verif/MANIFEST.json from the table below (one entry per claimed property)."""
import json
import os

ROOT = os.path.dirname(os.path.dirname(os.path.abspath(__file__)))
NOTE = ("Trusted base: TLC/SANY 1.8.0 + CommunityModules, rustc/cargo, the harness element types and "
        "projections (vh), serde_json. The TLA+ operators in spec/ are the oracle; Rust only produces and compares.")

TRACE_TECH = "TLA+ spec (ring-generic operators over Z_P) with its laws model-checked by TLC on the spec; calls recorded from the real code on exact-rational/integer operands validated by TLC trace validation (code->spec conformance), both storage layouts"

SYM_TECH = (TRACE_TECH + "; SYMBOLIC LANE: the same generic code is run on free symbols (harness element type Sym, field of fractions of "
            "Z[x1..xn]) and the polynomial / rational function it returns is compared by TLC with the specification's, computed in the free "
            "commutative ring VekPoly (fourth ring of VekField) - an identity in all entries, not a sample; the same ring checks the specification's "
            "own laws as polynomial identities (Law_Mat_*_S)")

CLAIMS = {
 "C01": dict(
  technique=SYM_TECH,
  text=("TLC model-checks the ring laws of the specification's matrix operators (identity, associativity, transpose of a product, row-vector form, bilinearity, adjugate identities) "
        "exhaustively over Z_2/Z_3 for 2x2 and on random operand tuples over Z_46337 for 2x2, 3x3, 4x4. Every product and element-wise operator form of the real code "
        "(sizes 2,3,4; layout pairs rr, cc, rc, cr; owned and compound-assignment; matrix*vector, vector*matrix, scalar forms, identity/zero/one/default/is_zero, the six Vec4-as-Mat2 helpers) "
        "is executed on exact rationals and on i32/i64/f32/f64, recorded, and each record is recomputed by TLC from the specification. Inputs are sampled, so 'for all inputs' is "
        "reached in the Schwartz-Zippel sense, not symbolically."
        " SYMBOLIC LANE (added): every product and element-wise form is also executed on matrices, vectors and scalars of DISTINCT FREE SYMBOLS; the returned polynomials are compared by TLC with the specification's polynomials in the free commutative ring (canonical forms), which decides those forms for every input in every commutative ring; the laws of the specification are also checked as polynomial identities (Law_Mat_2/3/4_S). The rational and native lanes remain sampling."),
  design="§6 C01, §12"),
 "C02": dict(
  technique="TLA+ spec of element-wise lifting over opaque terms (VekVec) and an exhaustive TLC model of the integer operators (MC_Vec); calls recorded from the real code on an opaque-term element type validated structurally by TLC trace validation (parametricity gives all inputs)",
  text=("The generic operator code of vek is run on an opaque term element type that obeys no arithmetic law, so every recorded output element is the exact expression tree that produced it; TLC checks "
        "that element i is op(a_i, b_i) and nothing else (a scalar standing for its broadcast) - by parametricity this decides the claim for every input - for all 13 vector types, the 10 binary "
        "operators in 9 operand forms, Neg, Not, MulAdd in its 8 reference forms and the inherent form, map/map2/map3/apply/apply2/apply3/zip/hadd/user fold, and all constructors (broadcast, zero, "
        "one, iota, from tuple/array/slice/iterator with fewer, equal or more items). Order-dependent operations (comparison masks, min/max/partial_*, reductions incl. bit and boolean ones for "
        "int/bool/float, primitive scalar on the left) are recorded on integers with planted coincidences and recomputed by TLC, whose operators are themselves model-checked exhaustively on "
        "3-vectors over 0..3; sums, products, average, dot and Sum/Product of iterators on exact rationals; sqrt/rsqrt/recip/ceil/floor/round on exact pairs."),
  design="§6 C02, §12"),
 "C03": dict(
  technique="TLA+ state machine of the layout-agnostic matrix API (VekMatProg/MC_MatProg) with two storage refinements, explored exhaustively by TLC; every enumerated program replayed on a real row-major and a real column-major value side by side and validated by TLC after every call through five projection routes",
  text=("TLC explores every program of up to 2 (quick) / 3 (thorough) calls from the symbol matrix of each size over the layout-agnostic API (transposed/transpose, layout conversion, the six "
        "size conversions, the 8 flat/nested array round trips, identity, zero, with_diagonal(diagonal), map, map2, as_, indexed write, write through the mutable flat view) and checks that "
        "the stored lines of a row-major and of a column-major refinement always abstract to the machine's matrix. Every enumerated program (and long random ones, which also exercise apply/"
        "apply2/numcast/broadcast_diagonal(trace)) is replayed on a real row-major and a real column-major value side by side; after every call both values are projected through five independent "
        "routes - (row,col) indexing, into_row_array, into_col_array, the flat slice view read with the OpenGL transpose flag, and Display - and TLC requires all ten projections to equal the abstract "
        "matrix, the flag to match the layout and the slice to be in the order its name says. map_rows/map_cols, diagonal, trace and the counts are single records."
        ' Display is additionally exercised with format parameters (precision, sign, width), which must reach every element in both layouts.'),
  design="§6 C03, §12"),
 "C04": dict(
  technique=SYM_TECH,
  text=("TLC model-checks on the specification (random tuples over Z_46337 with c,s free on the unit circle; exact rationals for the orientation laws) that RotX/Y/Z, the 2D rotation and "
        "Rodrigues' formula are orthogonal with determinant +1, compose additively about a common axis, fix their axis, turn counter-clockwise in a right-handed frame, agree with each other on the "
        "basis axes, embed as the upper-left block, and equal the matrix of the half-angle quaternion. Every rotation builder of the real code (rotation_/rotated_/rotate_ x,y,z,3d on Mat2/Mat3/Mat4 in "
        "both layouts, non-normalised axes, From<Quaternion> for Mat3/Mat4, the 12 quaternion rotation builders, Vec2 rotation) is executed on angle tokens with exact rational cos/sin and each "
        "recorded result is recomputed by TLC (cos/sin rebuilt from the token, axis length witnessed and checked)."
        " SYMBOLIC LANE (added): rotation_x/y/z, rotated_*, rotate_* on every matrix type and layout, From<Quaternion>, the axis-aligned quaternion builders and Vec2 rotation are also executed with free symbols as matrix entries and a symbolic angle whose (cos, sin) are paired free symbols; the returned polynomials in (c, s, entries) equal the specification's - for every angle and operand. rotation_3d about a free axis needs a square root and stays with the exact-rational lane (now also on very short and very long axes)."),
  design="§6 C04, §12"),
 "C05": dict(
  technique=SYM_TECH,
  text=("TLC model-checks on the specification the Hamilton algebra laws (associativity, identity, multiplicative norm, conjugate reverses products, two-sided inverse, ij=k), the identity "
        "q v conj(q) - M(q) v = (N(q)-1) v for all q, composition of actions and that M is a homomorphism on unit quaternions. Every quaternion operator, conversion, q*Vec3/q*Vec4 (unit and non-unit q), "
        "normalisation, rotation_from_to_3d (Quaternion, Mat3, Mat4, both layouts; opposite, parallel and general direction pairs with rational geometry) and into_angle_axis of the real code is "
        "executed on exact rationals; formula-valued results are recomputed by TLC, from-to and angle-axis results are tested by TLC against what they must do (map from/|from| onto to/|to| as a unit / "
        "proper rotation; Rodrigues(angle, axis) equals the quaternion's matrix)."
        ' SYMBOLIC LANE (added): Hamilton product, sum, difference, negation, conjugate, dot, squared norm, scalar multiple, q*Vec3, q*Vec4, (p*q)*v = p*(q*v) and all conversions are also executed on free symbols (8-11 symbols) and compared as polynomials. Angle-axis extraction is additionally exercised at w = -1 exactly (full turn).'),
  design="§6 C05, §12"),
 "C06": dict(
  technique=SYM_TECH,
  text=("TLC model-checks on the specification that the Leibniz determinant is transpose-invariant and multiplicative, that A*adj(A)=adj(A)*A=det(A)*I and that the "
        "cofactor inverse is two-sided (exhaustive over Z_2/Z_3 for 2x2; random tuples over Z_46337 for 2x2..4x4). Every determinant and inverse entry point of the real code "
        "(determinant of Mat2/3/4 in both layouts, also after transposition and after layout conversion; inverted/invert, inverted_affine_transform_no_scale, "
        "inverted_affine_transform and their in-place forms in both layouts, on dense, sparse, rigid and translation*rotation*scale matrices built from exact rational rotations "
        "with scales from 2^-19 to 8) is executed on exact rationals (and i32/i64/f32/f64 for determinants), recorded, and TLC recomputes each result from the specification and "
        "multiplies the recorded inverse back to the identity on both sides. Inputs are sampled, not symbolic."
        ' SYMBOLIC LANE (added): determinants of matrices of 4/9/16 free symbols are compared with the Leibniz polynomial; the general 4x4 inverse of a matrix of 16 free symbols (and of affine / triangular / checkerboard symbol patterns) is returned by the code as numerators N over one denominator D and TLC checks the rational-function identity A*N = N*A = D*I with D # 0, fraction-free - the inverse for every matrix at once; the rigid fast inverse is compared as a polynomial matrix.'),
  design="§6 C06, §12"),
 "C07": dict(
  technique="TLA+ builder-chain state machine (MC_Chain) explored exhaustively by TLC; every enumerated chain replayed on the real code (both layouts, returning and in-place forms) and the recorded matrices validated by TLC trace validation; symbolic lane: the same code run on free symbols, the returned polynomials compared by TLC in the free commutative ring VekPoly (all inputs at once)",
  text=("TLC explores every builder chain of up to 3 (quick) / 4 (thorough) calls for each matrix size over {translate_2d/3d, scale_2d/3d, shear_x/y, rotate_x/y/z/3d} and checks on the "
        "specification that the accumulated matrix acts on a point like the steps applied one after the other in call order; the laws run also checks each constructor against its point-wise "
        "definition (translation leaves directions alone, w=1/w=0 helpers) and the Transform map p -> position + orientation*(scale . p). Every enumerated chain is replayed on the real row-major "
        "and column-major types in returning and in-place form with random exact parameters; the matrix after every call, all constructors, mul_point/mul_direction(_2d), Mat4::from(Transform) "
        "(uniform and non-uniform scale, default) and longer random chains are recorded and recomputed by TLC."
        " SYMBOLIC LANE (added): every TLC-enumerated chain without the free-axis rotation is also replayed with a fresh symbol for every parameter and symbol pairs (cos, sin) for the angles; the matrix after each call is compared with the specification's product as a polynomial matrix (all parameters at once), as are the constructors, mul_point/mul_direction(_2d) on symbolic matrices, Mat4::from(Transform) on 10 free symbols and local_to_basis/basis_to_local on 12."),
  design="§6 C07, §12"),
 "C08": dict(
  technique="TLA+ spec with two layers (corner axioms + entry-wise formulas); TLC model-checks that every formula satisfies its axioms; matrices recorded from the 21 real constructors validated against formula and axioms by TLC trace validation",
  text=("TLC checks on the specification, for random view volumes over Z_46337 (off-centre and mirrored included), that each projection formula {ortho, frustum, perspective, perspective-fov, (tweaked) "
        "infinite} x {lh, rh} x {zo, no} sends the eight corners of its view volume to the clip corners after the homogeneous divide with w = +-z, that a perspective matrix is the frustum of the "
        "symmetric planes it implies and that lh = rh composed with a z mirror - so a wrong textbook sign cannot enter the oracle. Every one of the 21 real constructors is executed in both layouts on "
        "exact rational planes / field-of-view tokens; each recorded matrix must equal the formula and is also tested directly against the corner axioms by TLC."),
  design="§6 C08, §12"),
 "C09": dict(
  technique="TLA+ spec of the look-at / change-of-basis axioms over exact rationals (ordered field) model-checked by TLC; matrices recorded from the real code validated against the axioms by TLC trace validation",
  text=("TLC checks over exact rationals that the textbook frame matrix satisfies the look-at axioms and that local_to_basis/basis_to_local place origin and axes and invert each other on "
        "orthonormal bases. Every look_at_lh/rh, deprecated look_at, model_look_at_* call (both layouts) is executed on rational orthonormal frames with free eye, distance and up vector and the "
        "recorded matrix is tested by TLC against the axioms of the statement (rigid, det +1, eye -> origin, target -> (0,0,+-d) with the sign of the handedness, up in the upper half-plane; model "
        "matrix = inverse, origin -> eye), which determine it uniquely; change-of-basis results are recomputed and re-applied to origin and axes. Exact sampling, not symbolic in eye/target/up."
        ' The look-at builders are additionally run on up vectors scaled by 2^-30 .. 2^20 (the axioms are invariant under positive scaling of up, a law checked on the specification).'),
  design="§6 C09, §12"),
 "C10": dict(
  technique=TRACE_TECH,
  text=("TLC checks on the specification that Project is the perspective-divided clip position mapped onto the viewport (depth halved only in the negative-one-to-one flavour), that Unproject "
        "inverts it for invertible matrix pairs and that the pick matrix maps the picked window rectangle in clip coordinates onto the clip square. Every call of world_to_viewport_no/zo, "
        "viewport_to_world_no/zo (also composed through the real code) and picking_region is executed in both layouts on exact rationals (random small-integer pairs and rigid-view x real-projection "
        "pairs), recorded and recomputed by TLC; unprojected points are projected again on the specification and the pick matrix is tested against its axiom."),
  design="§6 C10, §12"),
 "C11": dict(
  technique="TLA+ spec of the spatial vector operators with their laws model-checked by TLC over Z_P; calls recorded from the real code on exact rationals validated by TLC trace validation over the ordered field of rationals (square roots validated by what they satisfy)",
  text=("TLC checks on the specification that the cross product is bilinear, anticommutative, orthogonal to its operands with squared length |a|^2|b|^2-(a.b)^2, that reflection about a unit normal is "
        "a length-preserving involution, that refraction obeys Snell's law with a unit result and that determine_side is the antisymmetric, translation-invariant 2D cross product. For all nine "
        "spatial vector types (dimensions 2 to 64) the real code is executed on exact rationals and every result is validated by TLC in the ordered field of rationals: dot/magnitude_squared/"
        "distance_squared/reflected/cross/determine_side/areas/homogenised recomputed; magnitude, distance and the four normalisation forms validated as m^2=|v|^2, m>=0, m*unit=v, |unit|=1 (try_normalized "
        "refusing only the zero vector, float threshold classes); refraction incl. total internal reflection and the critical angle; face_forward for negative/zero/positive dot; angle_between as a "
        "token angle in [0,pi] with the right cosine, and in degrees on right/straight/zero angles; Vec3 slerp hitting its ends and interpolating lengths linearly (also clamped)."
        ' angle_between is additionally checked on f32/f64 for multiples of 45 degrees between vectors that are both very short, ordinary or very long (independent of length).'
        ' SYMBOLIC LANE (added): dot, squared magnitude and distance, reflection about an arbitrary vector (Vec2/3/4/8/16, Extent2/3), cross product and determine_side are also executed on free symbols and compared by TLC as polynomials in the free commutative ring (every input at once).'),
  design="§6 C11, §12"),
 "C12": dict(
  technique="TLA+ spec (VekLerp, VekOps!LerpInt) with its laws model-checked by TLC; TLC-emitted integer tables replayed into the real code (spec->code); generic/quaternion/Transform/Transition interpolation recorded from the code and validated by TLC (code->spec); symbolic lane: the same code run on free symbols, the returned polynomials compared by TLC in the free commutative ring VekPoly (all inputs at once)",
  text=("TLC checks on the specification that the fast and precise formulas agree, hit the endpoints, are affine in the factor and extrapolate, that clamped = unclamped o clamp01, that the "
        "constructive slerp stays unit, reaches both ends (far end up to sign) along the shorter arc in equal steps, and that LerpInt is the real value rounded to nearest with ties away from zero. "
        "TLC prints LerpInt(from,to,j/8) for every far endpoint of i8/u8, every near endpoint (thorough; boundary set in quick) and 25 factors in [-1,2]; the harness runs the integer implementations (f32/f64 x fast/precise, "
        "reference, range and clamped forms, scaled copies for the 8 wider integer types, vector lifts) on every entry. All Lerp forms of the 13 vector types (inherent/trait, value/reference, scalar/"
        "per-element factor, range, clamped), float scalars on dyadic operands, unnormalised and normalised quaternion lerp, quaternion slerp (inherent/trait/ref/clamped; acute and obtuse pairs), "
        "Transform lerp and all Transition accessors/constructors/mappers are recorded on exact rationals with token angles and recomputed by TLC."
        ' SYMBOLIC LANE (added): the unclamped lerp forms (inherent with scalar and per-element factor; trait by value, by reference and over a range; fast and precise) of ten vector types and the un-normalised quaternion forms are also executed on free symbols and compared with the polynomials from + t (to - from) and from (1 - t) + to t.'),
  design="§6 C12, §12"),
 "C13": dict(
  technique="TLA+ spec of boxes as the point sets they denote (VekGeom); results recorded from the real code for all boxes / pairs of a small grid validated pointwise by TLC trace validation",
  text=("The specification defines every operation by the point set a box denotes, evaluated over a grid fine enough to separate all boxes of the model (corners on even integers, query points on all "
        "integers). All 256 2D boxes on {0,2,4,6}^2 and all 729 3D boxes on {0,2,4}^3, valid and invalid, are run through the real Aabr/Aabb and Rect/Rect3 code on i32 and TLC validates each "
        "recorded result pointwise: closed-interval membership, union = least box containing both point sets, intersection = exactly the common points (invalid iff none), containment = subset, "
        "collision of positive-extent boxes = interiors share a point (touching faces do not), expansion to a point, splits covering the box and sharing exactly the slice, centre/size/half size, "
        "projection = nearest grid point of the box, validity repair, map/as_, the box<->rectangle conversions, every rectangle method against the box method on the converted value, and the "
        "collision vector making the boxes touch per axis. Thorough enumerates all 65536 ordered pairs of 2D boxes (8 TLC shards); quick a seeded sample."
        ' Expansion of inside-out receivers (result contains the point; in-place = returning form) and rectangle-versus-box agreement on rectangles with negative positions and odd or negative extents are recorded as well.'),
  design="§6 C13, §12"),
 "C14": dict(
  technique=SYM_TECH,
  text=("TLC checks on the specification, for random control points and parameters over Z_46337 (extrapolation included), that the Bernstein form equals de Casteljau and the power-basis form given by "
        "the coefficient matrices, that the derivative operator is the formal derivative (exact Taylor identity), that the split halves re-parametrise the curve on [0,t] and [t,1] and meet at its "
        "point, and that elevation, reversal, segment conversion, flips and matrix action preserve the curve as a function of t. Every evaluate/evaluate_derivative/split/matrix/conversion/"
        "matrix-times-curve call of the four curve types (both layouts, sizes n and n+1) is executed on exact rationals and recomputed by TLC (split via de Casteljau levels, independent of the code's "
        "closed forms); the unit quarter circle and unit circle are sampled on f64/f32 and TLC checks radius (0.03 %), quadrant and end points in scaled integers."
        ' SYMBOLIC LANE (added): evaluate, evaluate_derivative and split of all four curve types are also executed with free symbols for every control point coordinate AND for the parameter; the returned polynomials equal the Bernstein / de Casteljau polynomials of the specification - every curve, every t, extrapolation included; reversal, flips, 2D<->3D and Mat2/3/4 * curve in both layouts likewise on symbolic matrices.'),
  design="§6 C14, §12"),
 "C15": dict(
  technique="TLA+ spec of the extremum/bounds/search/length contracts over exact rationals; derivative roots passed as witnesses that TLC verifies; results recorded from the real code validated by TLC trace validation",
  text=("Every curve coordinate is constructed from a chosen class of derivative (two rational roots inside/outside/on the ends of [0,1], double root, no real root, linear, constant, zero) so that "
        "every branch of the code's case analysis is reached; the roots are witnesses that TLC verifies against the control points (factorisation / negative discriminant), which lets TLC compute "
        "the exact minimum and maximum over [0,1] and check in exact rational arithmetic that min_*/max_*/*_bounds lie in [0,1] and attain them, that reported inflections are zeros of the "
        "derivative inside the interval and that aabr/aabb equal [min,max] per axis in curve coordinates. Closest-point search (both entry points) is checked in scaled integers: the returned "
        "point is the curve point at the returned parameter and no farther from the query than any coarse sample and the end point. Discretised length on f64 with TLC-verified chord/polygon "
        "witnesses: chord <= L_n <= polygon and L_n <= L_2n. Curves with irrational derivative roots are not examined."
        ' Degree-elevated f64 quadratics with non-dyadic coordinates (leading derivative coefficient a rounding residue) must have the closed-form bounding box of the quadratic (this check found defect D10, repaired).'),
  design="§6 C15, §12"),
 "C19": dict(
  technique="TLA+ spec of element placement (VekVec: conversions, swizzles, shuffles, colour tables) over opaque terms; calls recorded from the real code on an opaque-term element type validated structurally by TLC trace validation; all shuffle index tuples enumerated",
  text=("Run on an opaque term element type (so the result holds for every element value by parametricity), every conversion between vector kinds and sizes (order kept, trailing dropped, zero / "
        "supplied scalar / w=1 / w=0 / full or zero alpha appended), the six matrix size conversions in both layouts, every named swizzle and with_* setter, the 4-lane shuffles for every index tuple "
        "in 0..7 (thorough: all 4096; quick: all 256 in-range masks and a stride of the rest, plus indices far out of range) on Vec4 and Rgba, the fixed shuffles / interleaves / moves, ShuffleMask4 "
        "constructors and to_indices, named colours, unit vectors and deprecated direction names and the colour helpers are recorded and compared by TLC with the specification's lane tables; full() "
        "and the inverted_rgb involution are checked on values for all 18 ColorComponent types; TLC checks on the specification that embedding a smaller matrix and vector commutes with "
        "multiplication."),
  design="§6 C19, §12"),
 "C16": dict(
  technique="TLA+ spec of disks/spheres (squared-distance comparison), segments (parametric minimiser) and rays (Cramer's rule) with independent closed-form oracles; results recorded from the real code validated by TLC trace validation over integers and exact rationals",
  text=("Disks and spheres are run through f64/f32 on integer centres, radii and boundary-biased points (exactly on the circle through Pythagorean offsets), where float decisions are exact, and "
        "TLC checks containment and collision against the squared-distance comparison incl. exact tangency, the bounding rectangle/box, diameter and the measures against pi. On exact rationals "
        "TLC checks segment projection against the clamped parametric minimiser and against 17 sampled points of the segment, distances as witnessed square roots, ray/triangle queries against "
        "Cramer's rule (Some(d) exactly when the line crosses the closed triangle non-parallelly, with that d) on rays aimed at interior points, edges, vertices, parallel and coplanar "
        "directions, and that moving the other disk/sphere by the collision vector leaves the two exactly tangent on the same side."
        ' Negative radii (a negative bound is never reached) and f32/f64 segments with non-dyadic coordinates (distance_to_point = distance to projected_point, also for points on the segment) are recorded as well.'),
  design="§6 C16, §12"),
 "C17": dict(
  technique="TLA+ spec (VekOpsCore/VekOps/VekOpsAlgo) model-checked by TLC exhaustively per bit width; TLC-emitted result tables replayed into the real code (spec->code conformance); the scaling laws that lift the 8-bit tables to the wide types proved for all integers with TLAPS (spec/Proof_Ops.tla); float/angle forms recorded from the code and validated by TLC (Trace_Ops)",
  text=("TLC checks exhaustively (every (x,lo,hi) of 5-bit types in quick, 8-bit in thorough) that the declarative operators satisfy the range laws of the "
        "statement and that the implementation-shaped algorithm models compute them without leaving the machine type; TLC then prints the declarative result "
        "for every value of i8/u8 per bound pair and the harness runs vek on every entry (all 20 integer/Wrapping types via scaled copies, all 13 vector types, "
        "scalar- and vector-bound forms, all API aliases); replaying a table on a wide type with operands scaled by 2^(bits-8) is justified by the scaling laws "
        "of the operators, which the TLA+ proof system proves for all integers (524 obligations). Thorough enumerates all 2^24 triples per ternary function and signedness."
        ' delta_angle in radians is additionally exercised at exactly half a turn (the answer is +pi).'),
  design="§6 C17"),

 "C18": dict(
  technique="TLA+ ownership machine (VekIter) model-checked by TLC for every dimension; every transition of TLC's state graph replayed on IntoIter<Tracked>; the two-iterator machine (VekIterPair) explored by TLC and every state pair replayed as a comparison of two real iterators; conversion traces validated by TLC against the VekOwn ledger; the machine's invariants proved for every dimension N with TLAPS (spec/Proof_Iter.tla)",
  text=("TLC builds the complete state graph of the consuming-iterator machine for each dimension 2,3,4,8,16,32,64 and checks the ownership invariants "
        "(live = cursor window, no read of a moved element, length reports, no leak, exactly-once) on it; behaviours covering every transition of every graph are replayed "
        "on the real IntoIter of every vector type with an ownership-tracking element (returned element, len/size_hint, elements read by Debug/PartialEq/Hash, elements destroyed, "
        "exactly-once overall); pairs of cursor states of two iterators (all pairs up to dimension 8, a band around the diagonal above) are compared with ==/!= on the real "
        "iterators: result = equality of the remaining sequences, only live elements read. Conversions (arrays, nested arrays, tuples, slices, FromIterator short/exact/long, matrix row/col arrays in both layouts) are recorded from the code "
        "and validated by TLC against the ledger specification. The inductive invariant of the iterator machine (and the exactly-once / pull-order action properties, len = number of live elements) "
        "is machine-checked by the TLA+ proof system for EVERY dimension N (spec/Proof_Iter.tla, 123 obligations), so the safety of the machine does not depend on the explored dimensions."),
  design="§6 C18"),
 "C20": dict(
  technique="TLA+ spec of the scalar numeric operations and of the lifting rule (VekLift), tables emitted by TLC replayed into the real code lane by lane (spec->code); cast/approx traces validated by TLC (code->spec); feature configurations enumerated by TLC (MC_Features), built and probed, and the build log validated by TLC",
  text=("TLC prints the scalar semantics of checked/wrapping/saturating/overflowing add, sub, mul, checked div/rem/neg and Euclidean division/remainder for every pair of i8/u8 operands (thorough; "
        "boundary left operands in quick); the harness places each entry in one lane (every fourth entry in two lanes) of a vector, rotating through all 13 vector types and all lane positions "
        "with fixed exact values elsewhere, and checks that lane = table, the others untouched, None exactly when a lane is None, flag = OR of the lanes' flags. as_/numcast/the six az casts "
        "(method and trait forms) on every vector type, on matrices in both layouts and on boxes, rectangles and segments, Zero/One/is_zero/Inv, and abs-diff/relative/ULP equality of vectors, "
        "matrices and quaternions (all float classes, near-threshold neighbours, tolerance pairs in both orders) against the conjunction of the scalar predicate are recorded and validated by "
        "TLC. TLC enumerates {std, libm} x (no feature, each of the 14 features, each pair in thorough, all 14); every configuration is built offline on stable together with a fixed probe "
        "program and TLC validates that all were built, all succeeded and the probe's digest is identical under every configuration."
        ' is_zero of matrices is exercised on the zero matrix, single non-zero elements (every other stored line entirely zero), single zero elements and single non-zero lines, both layouts.'),
  design="§6 C20, §12"),
}


# sentences added in rounds 5-6 (DESIGN 14): float record classes and structured inputs per property
ROUND6 = {
 "C05": " Rounds 5-6: rotation_from_to_3d is also run on f32/f64 directions scaled by 2^-30 .. 2^40 (from_to_f: the result maps from/|from| onto to/|to| and is a unit quaternion, to 2^-14 / 2^-9), because a wrong magnitude-dependent branch ends in an irrational root that the exact lane drops as inconclusive.",
 "C07": " Rounds 5-6: chains are also applied to receivers that no builder produces (last row (0,0,0,w) with w /= 1, zero, diagonal, zero last column, general), in both layouts, returning and in-place.",
 "C08": " Rounds 5-6: view volumes in units of 2^-45 and 2^20 (rectangle and depth range independently) and with exact ties (left+right = 0 and/or bottom+top = 0, mirrored).",
 "C09": " Rounds 5-6: change of basis on left-handed as well as right-handed orthonormal bases.",
 "C10": " Rounds 5-6: general matrices with look-alike ties (bottom-right element 1 next to a non-trivial last row; last row 0 0 0 1 on one side only) and projection matrices scaled by 2^-45 and -2^-42 (homogeneous invariance: clip w tiny but non-zero).",
 "C11": " Rounds 5-6: determine_side and the triangle areas on Vec2<i32>/Vec2<i64> (exact whenever the area is an integer).",
 "C12": " Rounds 5-6: slerp_f - slerp and nlerp of unit quaternions on f32/f64 stay on the unit sphere to 2^-32 / 2^-16 for separations 2e-5 .. 2.5 rad (nearly parallel pairs, where implementations switch formulas) and factors inside and outside [0,1].",
 "C13": " Rounds 5-6: box_distance_f - distance from an f32/f64 box (2D/3D) to points 2^-4 .. 2^-60 outside a face or a corner equals the true distance to 2^-14 relative.",
 "C14": " Rounds 5-6: evaluate / derivative / split also on curves scaled by 2^-30 and 2^20 and with a handle collapsed on its end point (derivative exactly zero there); a symbolic record dropped as inconclusive is reported in the evidence and the sampled lanes decide.",
 "C15": " Rounds 5-6: bez_piece_box_f - every piece obtained by splitting an f64 cubic at one of its own extrema (and the reversed piece) contains 65 of its own points in its bounding box to 2^-26.",
 "C16": " Rounds 5-6: point shapes (radius exactly 0) queried at their own centre, Disk::point / Sphere::point.",
}

PENDING_REASON = "check for this property is not built yet in this round (see DESIGN.md §10 build order); no claim made"


def main():
    props = [json.loads(l) for l in open(os.path.join(ROOT, "properties.jsonl"))]
    checks, na = [], []
    for p in props:
        pid = p["id"]
        c = CLAIMS.get(pid)
        if not c:
            na.append({"property_id": pid, "reason": PENDING_REASON})
            continue
        checks.append({
            "property_id": pid,
            "quick_cmd": "./check %s --tier quick" % pid,
            "thorough_cmd": "./check %s --tier thorough" % pid,
            "evidence_file": "evidence/%s.json" % pid,
            "replay_cmd_template": "./check %s --replay {path}" % pid,
            "engine": "tlc+vh",
            "level_claimed": {"category": "model_checking", "text": c["text"] + ROUND6.get(pid, ""), "design_ref": c["design"] + (", §14" if pid in ROUND6 else "")},
            "level_note": c.get("note", NOTE),
            "technique": c["technique"],
        })
    m = {
        "version": 1,
        "setup_cmd": "./setup.sh",
        "hooks": {
            "guard": "vek_verif",
            "enable": "none needed: the harness observes vek through its public API with instrumented element types; the cfg name vek_verif is reserved but no source hook exists",
            "baseline_off_cmd": "cd /repo && cargo test --workspace --no-fail-fast --offline",
            "source_commits": [],
            "add_only": True,
        },
        "engines": [
            {"name": "tlc+vh", "path": "check", "serves_properties": [c["property_id"] for c in checks],
             "kind_free_text": "explicit TLA+ specification (spec/*.tla) checked by TLC; bound to the Rust code by the conformance harness harness/ (vh): TLC-generated tables/behaviours replayed into vek, and ndjson traces recorded from vek validated by Trace_*.tla"},
        ],
        "checks": checks,
        "not_applicable": na,
        "notes": "See DESIGN.md. Genuine defects found and repaired are listed in known_findings.json (status fixed).",
    }
    json.dump(m, open(os.path.join(ROOT, "MANIFEST.json"), "w"), indent=1)
    print("claimed:", [c["property_id"] for c in checks])


if __name__ == "__main__":
    main()
