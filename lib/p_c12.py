"""C12 — lerp is affine with exact endpoints; nlerp and slerp stay on the unit sphere (DESIGN §6 C12)."""
import json
import os
from concurrent.futures import ThreadPoolExecutor

import core

SB = [-128, -127, -100, -65, -64, -1, 0, 1, 2, 63, 64, 100, 126, 127]
UB = [0, 1, 2, 63, 64, 100, 127, 128, 129, 200, 254, 255]
OPS_Q = ["lerp", "transition"]
OPS_F = ["nlerp", "slerp", "xform_lerp", "slerp_f"]


def tables(ctx, signed):
    froms = "all" if ctx.tier == "thorough" else ",".join(map(str, SB if signed else UB))
    path = os.path.join(ctx.work, "lerp_tbl_%d.txt" % signed)
    r = core.tlc("Gen_Lerp", "Gen_Lerp", name="gen-lerp-%d" % signed, workers=6, heap="6g", timeout=3000,
                 env={"SIGNED": str(signed), "FROMS": froms}, out_path=path)
    core.tlc_ok(r, "Gen_Lerp")
    ctx.add_tlc(r, "Gen_Lerp[%s]" % ("signed" if signed else "unsigned"), "table_emission")
    return path


def key_q(rec):
    return "%s/%s/%s" % (rec["op"], rec.get("ty", rec.get("acc", "")), rec.get("form", rec.get("mapper", "")))


def key_f(rec):
    return "%s/%s" % (rec["op"], rec.get("form", ""))


def run(ctx):
    ctx.rule = ("TLC checks on the specification that fast = precise, endpoints, affinity in the factor, extrapolation, "
                "clamped = unclamped o clamp01 (exact rationals), that the constructive Slerp stays unit, reaches both "
                "ends (far end up to sign) and moves in equal steps (Z_46337), and that LerpInt is within 1/2 of the real "
                "value with odd symmetry (integers); TLC prints LerpInt(from, to, j/8) for every to of i8/u8, every "
                "from (thorough) or 14/12 boundary values (quick) and 25 factors in [-1,2], and the harness runs the "
                "four integer implementations (f32/f64 x fast/precise), reference/range/clamped forms, scaled copies "
                "for i16..i64/u16..u64/isize/usize and vector lifts on every entry whose result fits the type; generic "
                "Lerp forms of all 13 vector types, float scalars, Transition accessors, quaternion nlerp/slerp and "
                "Transform lerp are recorded on exact rationals and recomputed by TLC; non-trivial = table row with "
                "factor not 0 or 1")
    thorough = ctx.tier == "thorough"
    core.law_runs(ctx, "Law_Lerp", ["Law_Lerp_P", "Law_Lerp_Q", "Law_Lerp_Z"])
    with ThreadPoolExecutor(max_workers=2) as ex:
        paths = list(ex.map(lambda s: tables(ctx, s), (1, 0)))
    core.build_harness()

    def rep(sp):
        s, p = sp
        out = p + ".rep.json"
        core.vh(["replay", "lerp", "--tables", p, "--out", out, "--signed", s, "--wide-stride", 5 if thorough else 7,
                 "--seed", ctx.seed], timeout=3000)
        return json.load(open(out))
    with ThreadPoolExecutor(max_workers=2) as ex:
        reps = list(ex.map(rep, zip((1, 0), paths)))
    for s, r in zip((1, 0), reps):
        ctx.traces += r["tables"]
        ctx.evals += r["evals"]
        ctx.distinct_extra += r["nontrivial"]
        for smp in r["samples"][:1]:
            ctx.sample(smp)
        ctx.sub.append({"sub": "replay-lerp[%s]" % ("signed" if s else "unsigned"), "kind": "spec_to_code_tables",
                        "tables": r["tables"], "evaluations": r["evals"], "mismatches": r["mismatch_count"]})
        for m in r["mismatches"]:
            ctx.violation(m["key"], "%s lerp[%s](%s, %s, %s): spec %s, vek %s" % (
                m["ty"], m["form"], m["from"], m["to"], m["t"], m["expected"], m["observed"]), m)
    ctx.exhaustive = thorough
    selftest(ctx, paths[0])
    for p in paths:
        for q in (p, p + ".rep.json"):
            if os.path.exists(q):
                os.remove(q)
    n = 40 if thorough else 3
    # symbolic lane: end points and factor(s) are free symbols; the unclamped forms (inherent with scalar and per-element
    # factor, trait by value / by reference / over a range, fast and precise) of ten vector types and the un-normalised
    # quaternion forms are compared with the polynomials from + t (to - from) and from (1 - t) + to t - all inputs at once
    core.drive_validate(ctx, "sym", "Trace_Lerp", "Trace_Lerp_S", "lerp-sym", 1, ["lerp"], key=key_q,
                        extra_args=["--area", "lerp"], corrupt_op="lerp")
    core.drive_validate(ctx, "lerp", "Trace_Lerp", "Trace_Lerp_Q", "lerp", n, OPS_Q, key=key_q, corrupt_op="transition")
    n = 600 if thorough else 40
    core.drive_validate(ctx, "slerp", "Trace_Lerp", "Trace_Lerp_F", "slerp", n, OPS_F, key=key_f, corrupt_op="slerp")
    ctx.assumptions = ["symbolic lane: vek is generic in T and stable Rust has no specialisation, so the polynomial returned on free "
                       "symbols is the function computed for every element type; the clamped forms branch on the order of the "
                       "factor and are examined on exact rationals",
                       "integer endpoints: all 8-bit pairs (thorough) and their copies scaled by 2^(bits-8) for the wider "
                       "types, which the factor's float type represents exactly; factors j/8",
                       "slerp is evaluated where the interpolated angle is a token again (all j/m on acute pairs; 0, 1/2, 1 "
                       "and extrapolations on obtuse pairs); float rounding of slerp is not examined",
                       "entries whose exact result does not fit the integer type (extrapolation past the range) are skipped"]


def selftest(ctx, path):
    """Binding demonstration: a corrupted table entry must be flagged by the replayer."""
    lines = open(path).read().splitlines()
    idx = [i for i, l in enumerate(lines) if l.startswith('"{') and '\\"tn\\":4,' in l and '\\"from\\":0,' in l]
    if not idx:
        raise core.ToolError("selftest: no row with factor 4/8")
    row = json.loads(json.loads(lines[idx[0]]))
    row["v"][130] += 1
    p2 = path + ".corrupt"
    open(p2, "w").write(json.dumps(json.dumps(row)) + "\n")
    out = p2 + ".rep.json"
    core.vh(["replay", "lerp", "--tables", p2, "--out", out, "--signed", 1])
    rep = json.load(open(out))
    ok = any(m["key"].endswith("in-range") for m in rep["mismatches"])
    ctx.sub.append({"sub": "selftest-corrupt-table", "kind": "binding_demonstration", "flagged": ok})
    os.remove(p2)
    os.remove(out)
    if not ok:
        raise core.ToolError("binding self-test failed: corrupted table entry not flagged")


def replay(ctx, path):
    d = json.load(open(path))
    print(json.dumps(d["first"], indent=1)[:3000])
    det = (d["first"].get("detail") or {})
    if det.get("module"):
        return core.replay_record(ctx, path)
    return 0
