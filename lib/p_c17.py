"""C17 — clamp, range test, wrap, ping-pong, angle difference (DESIGN §6 C17)."""
import json
import os
from concurrent.futures import ThreadPoolExecutor

import core

SB = [-128, -127, -126, -65, -64, -63, -3, -2, -1, 0, 1, 2, 3, 5, 7, 63, 64, 65, 100, 125, 126, 127]
UB = [0, 1, 2, 3, 5, 7, 63, 64, 65, 100, 127, 128, 129, 200, 250, 253, 254, 255]
TERNARY = ["clamped", "is_between", "wrapped_between"]
BINARY = ["wrapped", "pingpong"]


def model_runs(ctx):
    cfgs = ["MC_Ops_S5", "MC_Ops_U5"] if ctx.tier == "quick" else ["MC_Ops_S5", "MC_Ops_U5", "MC_Ops_S8", "MC_Ops_U8"]
    with ThreadPoolExecutor(max_workers=4) as ex:
        futs = {c: ex.submit(core.tlc, "MC_Ops", c, None, None, 6 if c.endswith("8") else 2, 3000) for c in cfgs}
        for c, f in futs.items():
            r = f.result()
            core.tlc_ok(r, c)
            ctx.add_tlc(r, c, "exhaustive_model")
    # design-level witness of D7: the algorithm as found must be reported by TLC
    r = core.tlc("MC_Ops", "MC_OpsOld", workers=1, keep_out=True)
    ctx.add_tlc(r, "MC_OpsOld(expected-violation)", "sensitivity_witness")
    if r.invariant_violated != "OldAlgoNoOverflow":
        raise core.ToolError("MC_OpsOld: TLC did not report the known-overflowing algorithm; model is not sensitive")


SBQ = [-128, -127, -64, -1, 0, 1, 2, 7, 63, 64, 126, 127]
UBQ = [0, 1, 2, 7, 63, 64, 127, 128, 200, 254, 255]


def tables(ctx, signed, fn):
    bset = SBQ if signed else UBQ
    full = ctx.tier == "thorough"
    if fn in TERNARY:
        los = "all" if full else ",".join(map(str, bset))
        his = los
    else:
        los, his = "0", "all"
    path = os.path.join(ctx.work, "tbl_%s_%d.txt" % (fn, signed))
    r = core.tlc("Gen_Ops", "Gen_Ops", name="gen-%s-%d" % (fn, signed), workers=4, heap="6g", timeout=1800,
                 env={"SIGNED": str(signed), "FN": fn, "LOS": los, "HIS": his}, out_path=path)
    core.tlc_ok(r, "Gen_Ops %s" % fn)
    ctx.add_tlc(r, "Gen_Ops[%s,%s]" % (fn, "signed" if signed else "unsigned"), "table_emission")
    return path


def replay_table(ctx, path, signed, fn, selftest=False):
    out = path + ".rep.json"
    core.vh(["replay", "ops", "--tables", path, "--out", out, "--signed", signed,
             "--wide-stride", 5 if ctx.tier == "thorough" else 7, "--seed", ctx.seed,
             "--vec-rounds", 400 if ctx.tier == "thorough" else 60], timeout=3000)
    rep = json.load(open(out))
    return rep


def run(ctx):
    ctx.rule = ("TLC evaluates the declarative spec (VekOps) for every value of the 8-bit type per bound pair; "
                "vek is run on every entry for i8/u8 and their Wrapping forms, on scaled (x*2^(bits-8)) and unscaled "
                "copies for the 16 wider integer types (sound by the scaling laws Clamp/IsBetween/Wrapped/WrapBetween/PingPong(k x, k b) "
                "= k * (...), which TLAPS proves for ALL integers in spec/Proof_Ops.tla), and through the vector forms of all "
                "13 vector types; "
                "non-trivial = table row (fn, lo, hi) whose bounds are valid (some non-panic entry)")
    model_runs(ctx)
    # the scaling laws that justify replaying the 8-bit tables on the wide types, proved for all integers
    core.tlaps(ctx, "Proof_Ops", deps=("VekOpsCore",),
               expect_theorems=("ModScale", "ClampScale", "IsBetweenScale", "WrappedScale", "WrapBetweenScale", "PingPongScale"))
    jobs = [(s, f) for s in (1, 0) for f in TERNARY + BINARY]
    with ThreadPoolExecutor(max_workers=3 if ctx.tier == "thorough" else 5) as ex:
        paths = list(ex.map(lambda j: tables(ctx, *j), jobs))
    core.build_harness()
    with ThreadPoolExecutor(max_workers=5) as ex:
        reps = list(ex.map(lambda jp: replay_table(ctx, jp[1], jp[0][0], jp[0][1]), zip(jobs, paths)))
    for (s, f), rep in zip(jobs, reps):
        ctx.traces += rep["tables"]
        ctx.evals += rep["evals"]
        ctx.distinct_extra += rep["nontrivial"]
        for smp in rep["samples"][:1]:
            ctx.sample(smp)
        ctx.sub.append({"sub": "replay[%s,%s]" % (f, "signed" if s else "unsigned"), "kind": "spec_to_code_tables",
                        "tables": rep["tables"], "evaluations": rep["evals"], "mismatches": rep["mismatch_count"]})
        for m in rep["mismatches"]:
            ctx.violation(m["key"], "%s %s(%s, %s, %s): spec %s, vek %s" % (
                m["ty"], m["fn"], m["x"], m["lo"], m["hi"], m["expected"], m["observed"]), m)
    ctx.exhaustive = ctx.tier == "thorough"
    float_traces(ctx)
    # binding demonstration: a corrupted table entry must be flagged by the replayer
    selftest(ctx, paths[jobs.index((1, "wrapped"))])
    for p in paths:
        for q in (p, p + ".rep.json"):
            if os.path.exists(q):
                os.remove(q)


ACTIONS = ["clamped", "is_between", "wrapped", "wrapped_between", "pingpong", "delta_angle_degrees", "delta_angle", "in_range", "wrap_2pi"]


def float_traces(ctx):
    """B2: f32/f64 forms and the angle differences, recorded from vek, validated by Trace_Ops."""
    n = 1500 if ctx.tier == "quick" else 20000
    tr = os.path.join(ctx.work, "ops_trace.ndjson")
    core.vh(["drive", "ops", "--out", tr, "--seed", ctx.seed, "--n", n])
    recs = core.read_ndjson(tr)
    for r in recs:
        if r["r"] == 888888:
            ctx.inconclusive += 1
        ctx.nontrivial([r["op"], r["x"], r["lo"], r["hi"], r["s"]])
    ctx.sample(recs[2])
    ctx.sample(recs[5])
    mm = core.validate_trace(ctx, "Trace_Ops", tr, "float-trace", expect_actions=ACTIONS, timeout=1200)
    ctx.traces += 1
    for rec, info in mm:
        ctx.violation("%s/float" % rec["op"], "%s %s(x=%s, lo=%s, hi=%s)*2^-%s: spec %s, vek %s" % (
            rec["ty"], rec["op"], rec["x"], rec["lo"], rec["hi"], rec["s"], info.get("exp"), rec["r"]), rec)

    def mutate(rs):
        i = next(k for k, r in enumerate(rs) if r["op"] == "wrapped" and r["r"] not in (999999, 888888))
        rs[i]["r"] += 1
        return i
    core.selftest_corrupt(ctx, "Trace_Ops", tr, "float-trace", mutate)
    for q in os.listdir(ctx.work):
        if q.startswith("ops_trace"):
            os.remove(os.path.join(ctx.work, q))


def selftest(ctx, path):
    lines = open(path).read().splitlines()
    idx = [i for i, l in enumerate(lines) if l.startswith('"{') and '\\"hi\\":7,' in l]
    if not idx:
        raise core.ToolError("selftest: row hi=7 not found")
    row = json.loads(json.loads(lines[idx[0]]))
    row["v"][130] = (row["v"][130] + 1) % 7
    p2 = path + ".corrupt"
    open(p2, "w").write(json.dumps(json.dumps(row)) + "\n")
    out = p2 + ".rep.json"
    core.vh(["replay", "ops", "--tables", p2, "--out", out, "--signed", 1, "--vec-rounds", 0])
    rep = json.load(open(out))
    ok = rep["mismatch_count"] > 0
    ctx.sub.append({"sub": "selftest-corrupt-table", "kind": "binding_demonstration", "flagged": ok})
    os.remove(p2)
    os.remove(out)
    if not ok:
        raise core.ToolError("binding self-test failed: corrupted table entry not flagged")


def replay(ctx, path):
    d = json.load(open(path))
    print(json.dumps(d["first"], indent=1))
    return 0
