"""C05 — quaternions form the Hamilton algebra and rotate vectors like their matrix (DESIGN §6 C05)."""
import core

OPS = ["quat_mul", "quat_add", "quat_sub", "quat_dot", "quat_neg", "quat_conj", "quat_inv", "quat_norm2", "quat_muls",
       "quat_divs", "quat_mulv3", "quat_mulv4", "quat_compose", "quat_conv", "quat_normalized", "quat_magnitude",
       "from_to", "angle_axis", "angle_axis_f", "from_to_f"]


OPS_S = ["quat_mul", "quat_add", "quat_sub", "quat_dot", "quat_neg", "quat_conj", "quat_norm2", "quat_muls", "quat_mulv3",
         "quat_mulv4", "quat_compose", "quat_conv"]


def key(rec):
    return "%s/%s" % (rec["op"], rec.get("ty", rec.get("how", rec.get("kind", ""))))


def run(ctx):
    ctx.rule = ("TLC checks on the specification (random tuples over Z_46337) that QuatMul is associative with neutral "
                "identity, multiplicative norm, conjugation reversing products, two-sided inverse, i j = k, that "
                "q v conj(q) - MatOfQuat(q) v = (N(q)-1) v for ALL q (so equal on unit quaternions), that application "
                "composes and MatOfQuat is a homomorphism on unit quaternions; every record is one real vek call on "
                "exact rationals: all quaternion operators and conversions, q*Vec3 / q*Vec4 for unit and non-unit q, "
                "rotation_from_to_3d as Quaternion/Mat3/Mat4 in both layouts on pairs with rational geometry "
                "(exactly opposite, parallel, general), validated by what the result must do (maps from/|from| onto "
                "to/|to|, unit / proper rotation), into_angle_axis validated by Rodrigues(angle, axis) = MatOfQuat(q)")
    thorough = ctx.tier == "thorough"
    core.law_runs(ctx, "Law_Xform", ["Law_Xform_P"])
    core.law_runs(ctx, "Law_XformS", ["Law_XformS"])      # the same laws as polynomial identities on free symbols
    n = 600 if thorough else 40
    # symbolic lane: quaternion components, vectors and scalars are free symbols - Hamilton product, sums, conjugate, norm,
    # q*Vec3, q*Vec4, composition (p*q)*v = p*(q*v) and the conversions are compared as polynomials (all inputs at once)
    core.drive_validate(ctx, "sym", "Trace_Xform", "Trace_Xform_S", "quat-sym", 1, OPS_S, key=key,
                        extra_args=["--area", "quat"], corrupt_op="quat_mul")
    core.drive_validate(ctx, "quat", "Trace_Xform", "Trace_Xform_F", "quat", n, OPS, key=key, corrupt_op="quat_mul")
    ctx.assumptions = ["symbolic lane: vek is generic in T and stable Rust has no specialisation, so the polynomial returned on free symbols is the function computed for every element type (parametricity); calls that need a square root or a division by a symbol are not in this lane",
                       "operands are sampled exact rationals; all-input coverage is through the laws on the specification",
                       "direction pairs are constructed so that every square root in the code under test is rational "
                       "(to = mu * S*S * from with S a rational rotation); other pairs are not explored",
                       "values compared in the prime field Z_46337"]


def replay(ctx, path):
    return core.replay_record(ctx, path)
