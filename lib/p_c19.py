"""C19 — vector kind/size conversions, swizzles, shuffles, colour helpers keep elements (DESIGN §6 C19)."""
import core

OPS = ["conv", "mat_resize", "swz", "named", "shuf", "full", "invert", "pixel"]


def key(rec):
    op = rec["op"]
    if op == "conv":
        return "conv/%s->%s/%s" % (rec["from"], rec["to"], rec["how"])
    if op == "mat_resize":
        return "mat_resize/%s/%s->%s" % (rec["lay"], rec["n"], rec["m"])
    if op == "shuf":
        return "shuf/%s/%s" % (rec["ty"], rec["how"])
    return "%s/%s/%s" % (op, rec.get("ty", ""), rec.get("how", rec.get("n", "")))


def corrupt(rs):
    idx = [i for i, r in enumerate(rs) if r["op"] == "shuf" and r["how"] == "lo_hi" and r["idx"][2] % 4 != r["idx"][3] % 4]
    i = idx[len(idx) // 2]
    rs[i]["obs"][2], rs[i]["obs"][3] = rs[i]["obs"][3], rs[i]["obs"][2]
    return i


def run(ctx):
    ctx.rule = ("lane Term (opaque elements, so every input by parametricity): every From/with_/from_point/"
                "from_direction/new_point/... conversion between the vector kinds and sizes (keep order, drop trailing, "
                "append zero / supplied scalar / w=1 / w=0 / full alpha / zero alpha), every named swizzle and with_* "
                "setter, the 4-lane shuffles for all 8^4 index tuples (thorough; all 256 in-range masks plus every 7th "
                "out-of-range tuple in quick) on Vec4 and Rgba with indices taken modulo 4, fixed shuffles / interleaves "
                "/ moves against their lane diagrams, ShuffleMask4 constructors and to_indices, named colours, unit "
                "vectors and deprecated direction names, colour helpers (inverted_rgb structure, average_rgb, argb/bgra/"
                "bgr); full() and the inverted_rgb involution on values for all 18 ColorComponent types; TLC checks "
                "on the specification that embedding a smaller matrix and vector commutes with multiplication; "
                "non-trivial = shuffle record whose four selected lanes are not all equal, or a non-shuffle record")
    thorough = ctx.tier == "thorough"
    core.law_runs(ctx, "Law_Xform", ["Law_Xform_P"])

    def nontrivial(r):
        return r["op"] != "shuf" or len(set(x % 4 for x in r["idx"])) > 1
    core.drive_validate(ctx, "vconv", "Trace_Vec", "Trace_Vec_Z", "vconv", 1, OPS, key=key, corrupt=corrupt,
                        extra_args=["--full", "1" if thorough else "0"], nontrivial=nontrivial)
    ctx.exhaustive = True
    ctx.assumptions = ["parametricity (no specialisation on stable Rust): opaque-term results hold for every element value",
                       "matrix size conversions are checked on opaque elements for the six direction pairs in both layouts; that embedding commutes with multiplication is a law on the specification"]


def replay(ctx, path):
    return core.replay_record(ctx, path)
