"""Parse TLC's `-dump dot,actionlabels` output and derive behaviours covering every edge."""
import re
from collections import defaultdict, deque

_node = re.compile(r'^(-?\d+) \[label="((?:[^"\\]|\\.)*)"')
_edge = re.compile(r'^(-?\d+) -> (-?\d+) \[label="(\w+)"')


def parse(path):
    nodes, edges, init = {}, defaultdict(list), None
    with open(path) as f:
        for line in f:
            m = _edge.match(line)
            if m:
                edges[m.group(1)].append((m.group(3), m.group(2)))
                continue
            m = _node.match(line)
            if m:
                nodes[m.group(1)] = m.group(2).replace('\\\\', '\\').replace('\\"', '"').replace('\\n', '\n')
                if init is None and "style = filled" in line:
                    init = m.group(1)
    return nodes, edges, init


def state_vars(label):
    """'/\\ x = 1\n/\\ y = <<..>>' -> {'x': '1', 'y': '<<..>>'}"""
    out = {}
    for part in label.split("/\\"):
        part = part.strip()
        if not part:
            continue
        k, _, v = part.partition(" = ")
        out[k.strip()] = v.strip()
    return out


def edge_cover(nodes, edges, init, terminal_action=None):
    """Behaviours (lists of (action, dst)) from init that together take every edge:
    shortest path to an uncovered edge, then keep taking uncovered edges greedily."""
    parent = {init: None}
    dq = deque([init])
    while dq:
        u = dq.popleft()
        for a, v in edges.get(u, []):
            if v not in parent:
                parent[v] = (u, a)
                dq.append(v)
    covered = set()
    behaviours = []
    all_edges = [(u, a, v) for u in edges for (a, v) in edges[u] if u in parent]
    for (u, a, v) in all_edges:
        if (u, a, v) in covered:
            continue
        path = []
        x = u
        while parent[x] is not None:
            pu, pa = parent[x]
            path.append((pa, x))
            covered.add((pu, pa, x))
            x = pu
        path.reverse()
        path.append((a, v))
        covered.add((u, a, v))
        cur = v
        while True:
            nxt = [(a2, v2) for (a2, v2) in edges.get(cur, []) if (cur, a2, v2) not in covered]
            if not nxt:
                break
            # prefer progress actions last so that observation edges of this state get covered first
            nxt.sort(key=lambda e: (e[1] != cur, e[0]))
            a2, v2 = nxt[0]
            covered.add((cur, a2, v2))
            path.append((a2, v2))
            cur = v2
        if terminal_action:
            t = [(a2, v2) for (a2, v2) in edges.get(cur, []) if a2 == terminal_action]
            if t:
                covered.add((cur, t[0][0], t[0][1]))
                path.append(t[0])
        behaviours.append(path)
    return behaviours, len(all_edges)
