"""C03 — element (i,j) means row i, column j in every matrix API, whatever the layout (DESIGN §6 C03)."""
import os

import core

OPS = ["matprog", "map_lines", "diag", "display_fmt"]
ROUTES = ("idx", "rows", "cols", "slice", "ptr", "mintr", "mintc", "disp")


def first_bad(rec, info):
    """(step, register, route) of the first projection that differs from the abstract matrix"""
    exp = (info or {}).get("exp") or {}
    for k, o in enumerate(rec["obs"]):
        want = exp.get(str(k))
        for reg in ("r", "c"):
            for route in ROUTES:
                if want is not None and o[reg][route] != want:
                    return k, reg, route
    return None


def key(rec, info=None):
    if rec["op"] == "matprog":
        fb = first_bad(rec, info)
        if fb:
            k, reg, route = fb
            return "program/mat%s/%s/%s" % (len(rec["obs"][k]["r"]["idx"]), rec["calls"][k - 1]["c"] if k else "new", rec["obs"][k][reg]["lay"])
        return "program/flags"
    return "%s/%s" % (rec["op"], rec.get("how", ""))


def describe(rec, info):
    if rec["op"] != "matprog":
        return None
    exp = info.get("exp") or {}
    for k, o in enumerate(rec["obs"]):
        want = exp.get(str(k))
        for reg in ("r", "c"):
            for route in ROUTES:
                if want is not None and o[reg][route] != want:
                    return ("program %s from the %sx%s symbol matrix: after call %d (%s) the %s value read through '%s' is %s, "
                            "the abstract matrix is %s" % ([c["c"] for c in rec["calls"]], rec["n0"], rec["n0"], k,
                                                          rec["calls"][k - 1]["c"] if k else "start",
                                                          "first (initially row-major)" if reg == "r" else "second (initially column-major)",
                                                          route, o[reg][route], want))
    return "program %s: flag/order fields inconsistent" % [c["c"] for c in rec["calls"]]


def corrupt(rs):
    idx = [i for i, r in enumerate(rs) if r["op"] == "matprog" and len(r["calls"]) >= 2]
    i = idx[len(idx) // 2]
    v = rs[i]["obs"][2]["c"]["cols"]
    v[0][1], v[1][0] = v[1][0] + 1, v[0][1]
    return i


def run(ctx):
    ctx.rule = ("TLC explores the matrix-API machine (MC_MatProg): every program of <= 2 (quick) / 3 (thorough) calls over "
                "{transposed, transpose, layout conversion, resize to the other two sizes, the 8 flat/nested array round "
                "trips (same and crossed row/column), identity, zero, with_diagonal(diagonal), map, map2 with the transpose, "
                "as_, indexed write, write through the mutable flat view, write through the raw mutable pointer, round trip through the mint row / column matrix} from the symbol matrix of each size, checking "
                "that the stored lines of a row-major and of a column-major refinement always abstract to the machine's "
                "matrix; every program is replayed on a real row-major and a real column-major value side by side and "
                "after EVERY call both are projected through 8 routes (m[(i,j)], into_row_array, into_col_array, flat "
                "slice view and as_row_ptr/as_col_ptr reads interpreted with gl_should_transpose (is_packed must hold), mint RowMatrix / ColumnMatrix, Display) that TLC compares with the abstract matrix; plus long "
                "random programs and single records for map_rows/map_cols, diagonal, trace, row/col counts, Display with format "
                "parameters (precision, sign, width reach every element in both layouts); "
                "non-trivial = program with >= 2 calls")
    thorough = ctx.tier == "thorough"
    L = 3 if thorough else 2
    progs = os.path.join(ctx.work, "progs.txt")
    with open(progs, "w") as out:
        for n in (2, 3, 4):
            p = os.path.join(ctx.work, "progs_%d.txt" % n)
            r = core.tlc("MC_MatProg", "MC_MatProg_%d_%d" % (n, L), workers=6, out_path=p, heap="6g", timeout=2400)
            core.tlc_ok(r, "MC_MatProg_%d_%d" % (n, L))
            ctx.add_tlc(r, "MC_MatProg_%d_%d" % (n, L), "exhaustive_model")
            out.write(open(p).read())
            os.remove(p)
    recs, mm = core.drive_validate(ctx, "matprog", "Trace_MatProg", "Trace_MatProg", "matprog", 400 if thorough else 40, OPS,
                                   key=key, extra_args=["--programs", progs, "--maxlen", 14 if thorough else 10],
                                   corrupt=corrupt, nontrivial=lambda r: r["op"] != "matprog" or len(r["calls"]) >= 2,
                                   describe=lambda r, i: describe(r, i) or "%s: vek returned %s [%s]" % (r["op"], r.get("obs"), {a: b for a, b in r.items() if a != "obs"}),
                                   timeout=3000)
    ctx.traces += sum(1 for r in recs if r["op"] == "matprog")
    ctx.exhaustive = True
    os.remove(progs)
    ctx.assumptions = ["elements are 16 pairwise distinct integer symbols (10*row+col), so a misplaced element is always "
                       "visible; element values play no role in the calls of this machine",
                       "programs are enumerated exhaustively up to the stated length; longer programs are sampled"]


def replay(ctx, path):
    return core.replay_record(ctx, path)
