"""C13 — axis-aligned boxes and rectangles behave as the point sets they denote (DESIGN §6 C13)."""
import os
from concurrent.futures import ThreadPoolExecutor

import core

OPS = ["contains_point", "is_valid", "made_valid", "union", "intersection", "contains_box", "collides", "expanded", "split",
       "center_size", "projected", "collision_vector", "map", "rect_to_box", "box_to_rect", "new_empty", "box_drop_z",
       "expanded_any", "rect_vs_box", "box_distance_f"]


def key(rec):
    a = rec.get("a", {})
    dim = len(a.get("min", [0, 0])) if isinstance(a, dict) else 2
    return "%s/%sd/%s" % (rec["op"], dim, rec.get("form", ""))


def corrupt(rs):
    # a NON-EMPTY intersection (an empty one is any invalid box: moving a corner of it proves nothing)
    idx = [i for i, r in enumerate(rs) if r["op"] == "intersection" and r["pan"] == 0
           and all(a <= b for a, b in zip(r["obs"]["min"], r["obs"]["max"]))]
    i = idx[len(idx) // 2]
    rs[i]["obs"]["max"][0] += 2
    return i


def run(ctx):
    ctx.rule = ("TLC validates every recorded result POINTWISE against the point sets the operands denote, over the half "
                "grid: corners of all 2D boxes (valid and invalid, 256) on {0,2,4,6}^2 and of all 3D boxes (729) on "
                "{0,2,4}^3, query points on all integers: closed-interval membership, union = least box containing both, "
                "intersection = exactly the common points (invalid iff none), containment = subset, collision = interiors "
                "share a point, expansion, splits covering the box and sharing the slice, centre/size/half size, nearest "
                "point over all grid points, validity repair, map/as_, box<->rectangle conversions, every rectangle "
                "method as the box method on the converted value (also on rectangles with negative positions and odd or negative "
                "extents, where integer division matters), expansion of inside-out receivers (result contains the point, in-place "
                "= returning form), collision vector making the boxes touch per axis; distance from a float box (f32/f64, 2D/3D) to points 2^-4 .. 2^-60 outside a face or a corner = the true distance to 2^-14 relative; "
                "thorough: ALL 65536 ordered pairs of 2D boxes; quick: a seeded sample of pairs (half of positive extent); "
                "non-trivial = binary record whose operands are neither equal nor disjoint on every axis")
    thorough = ctx.tier == "thorough"

    def nontrivial(r):
        if "b" not in r or not isinstance(r.get("a"), dict):
            return r["op"] not in ("contains_point", "map", "is_valid")
        a, b = r["a"], r["b"]
        return a != b and any(not (a["max"][k] < b["min"][k] or b["max"][k] < a["min"][k]) for k in range(len(a["min"])))
    if not thorough:
        core.drive_validate(ctx, "boxes", "Trace_Geom", "Trace_Geom_Z", "boxes", 1, OPS, key=key, corrupt=corrupt,
                            extra_args=["--pairs", 400], nontrivial=nontrivial, timeout=1500)
    else:
        shards = 8

        def one(k):
            sub = core.Ctx(ctx.prop, ctx.tier, ctx.seed)
            sub.work = ctx.work
            core.drive_validate(sub, "boxes", "Trace_Geom", "Trace_Geom_Z", "boxes-%d" % k, 1,
                                OPS if k == 0 else ["union", "intersection", "contains_box", "collides", "collision_vector"],
                                key=key, corrupt=corrupt, extra_args=["--full", 1, "--shard", k, "--shards", shards],
                                nontrivial=nontrivial, timeout=3000)
            return sub
        with ThreadPoolExecutor(max_workers=shards) as ex:
            subs = list(ex.map(one, range(shards)))
        for s in subs:
            ctx.states += s.states
            ctx.transitions += s.transitions
            ctx.traces += s.traces
            ctx.evals += s.evals
            ctx.distinct |= s.distinct
            ctx.sub += s.sub
            ctx.viol += s.viol
            ctx.vacuous += s.vacuous
            ctx.skipped_overflow += s.skipped_overflow
            for smp in s.samples[:1]:
                ctx.sample(smp)
        ctx.exhaustive = True
    ctx.assumptions = ["set laws (least containing box, subset, interiors) are asserted for valid operands, collision for "
                       "operands of positive extent, as the statement says; invalid boxes: membership, validity, repair, map",
                       "coordinates are i32 on a grid fine enough to separate all boxes of the model; Real-only methods "
                       "(distance) are examined under C16's rational lane"]


def replay(ctx, path):
    return core.replay_record(ctx, path)
