"""C14 — Bezier evaluate, derivative, split and conversions obey the Bernstein identities (DESIGN §6 C14)."""
import core

OPS = ["bez_eval", "bez_deriv", "bez_split", "bez_conv", "bez_matrix", "bez_mul", "bez_circle", "bez_tangent"]


def key(rec):
    return "%s/%s/%s" % (rec["op"], rec.get("ty", rec.get("deg", "")), rec.get("how", rec.get("n", "")))


def corrupt(rs):
    idx = [i for i, r in enumerate(rs) if r["op"] == "bez_split"]
    i = idx[len(idx) // 2]
    rs[i]["obs"][1][1][0] += 1
    return i


def run(ctx):
    ctx.rule = ("TLC checks on the specification (random control points and parameters over Z_46337, extrapolation "
                "included) that the Bernstein form equals de Casteljau and the power-basis (matrix) form, that the "
                "derivative operator is the formal derivative (exact Taylor identity), that the split halves "
                "re-parametrise the curve on [0,t] and [t,1] and meet at its point, and that elevation, reversal, "
                "segment conversion and matrix action preserve the curve; every record is one real call on the four "
                "curve types (evaluate, evaluate_derivative, normalized_tangent, split, matrix, into_cubic/From, reversed/reverse, "
                "into_2d/3d, flips, vector/array/tuple round trips, Mat2/3/4 * curve in both layouts) on exact "
                "rationals, recomputed by TLC (split via de Casteljau levels, independent of the code's closed "
                "forms); unit (quarter) circle sampled on f64/f32 and checked by TLC in scaled integers")
    thorough = ctx.tier == "thorough"
    core.law_runs(ctx, "Law_Bezier", ["Law_Bezier"])
    n = 300 if thorough else 20
    # symbolic lane: control points AND the parameter are free symbols - evaluate, evaluate_derivative and both halves of
    # split are compared with the Bernstein / de Casteljau polynomials (every curve, every t, extrapolation included);
    # reversal, flips, 2D<->3D, Mat2/3/4 * curve in both layouts on symbolic matrices
    def corrupt_sym(rs):
        i = next(k for k, r in enumerate(rs) if r["op"] == "bez_split")
        t = rs[i]["obs"][1][1][0]["ply"]
        rs[i]["obs"][1][1][0] = {"ply": [[t[0][0] + 1, t[0][1]]] + t[1:]}
        return i
    core.drive_validate(ctx, "sym", "Trace_Bezier", "Trace_Bezier_S", "bezier-sym", 1,
                        ["bez_eval", "bez_deriv", "bez_split", "bez_conv", "bez_mul"], key=key, extra_args=["--area", "bezier"],
                        corrupt=corrupt_sym)
    core.drive_validate(ctx, "bezier", "Trace_Bezier", "Trace_Bezier_F", "bezier", n, OPS, key=key, corrupt=corrupt)
    ctx.assumptions = ["symbolic lane: vek is generic in T and stable Rust has no specialisation, so the polynomial returned on free "
                       "symbols is the function computed for every element type; conversions that divide by a constant (into_cubic, "
                       "from a segment) and normalized_tangent are not in this lane",
                       "control points, parameters and matrices are sampled exact rationals; all-input coverage is through "
                       "the laws on the specification", "values compared in the prime field Z_46337",
                       "unit circle: 65 parameters per quarter, tolerance 0.03 % of the radius plus quantisation at 2^-14"]


def replay(ctx, path):
    return core.replay_record(ctx, path)
