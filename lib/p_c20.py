"""C20 — numeric lifts, casts, approx equality are per-element; all feature sets build (DESIGN §6 C20)."""
import json
import os
import shutil
from concurrent.futures import ThreadPoolExecutor

import core

SB = [-128, -127, -65, -64, -2, -1, 0, 1, 2, 3, 63, 64, 126, 127]
UB = [0, 1, 2, 3, 15, 16, 17, 127, 128, 129, 254, 255]
FAMS = [("checked", "add,sub,mul,div,rem,neg,div_euclid,rem_euclid"), ("wrapping", "add,sub,mul,neg"),
        ("saturating", "add,sub,mul"), ("overflowing", "add,sub,mul"), ("plain", "div_euclid,rem_euclid")]


def tables(ctx, signed, fam, ops):
    xs = "all" if ctx.tier == "thorough" else ",".join(map(str, SB if signed else UB))
    if not signed:
        ops = ",".join(o for o in ops.split(",") if not (o == "neg" and fam == "wrapping" and False))
    path = os.path.join(ctx.work, "num_%s_%d.txt" % (fam, signed))
    r = core.tlc("Gen_Num", "Gen_Num", name="gen-num-%s-%d" % (fam, signed), workers=4, heap="4g", timeout=3000,
                 env={"SIGNED": str(signed), "FAM": fam, "OPS": ops, "XS": xs}, out_path=path)
    core.tlc_ok(r, "Gen_Num %s" % fam)
    ctx.add_tlc(r, "Gen_Num[%s,%s]" % (fam, "signed" if signed else "unsigned"), "table_emission")
    return path


def lifts(ctx):
    jobs = [(s, f, o) for s in (1, 0) for f, o in FAMS]
    with ThreadPoolExecutor(max_workers=4) as ex:
        paths = list(ex.map(lambda j: tables(ctx, *j), jobs))
    core.build_harness()

    def rep(jp):
        (s, f, o), p = jp
        out = p + ".rep.json"
        core.vh(["replay", "num", "--tables", p, "--out", out, "--signed", s, "--stride", 1], timeout=3000)
        return json.load(open(out))
    with ThreadPoolExecutor(max_workers=5) as ex:
        reps = list(ex.map(rep, zip(jobs, paths)))
    for (s, f, o), r in zip(jobs, reps):
        ctx.traces += r["tables"]
        ctx.evals += r["evals"]
        ctx.distinct_extra += r["nontrivial"]
        if f == "checked":
            for smp in r["samples"][:1]:
                ctx.sample(smp)
        ctx.sub.append({"sub": "replay-num[%s,%s]" % (f, "signed" if s else "unsigned"), "kind": "spec_to_code_tables",
                        "tables": r["tables"], "evaluations": r["evals"], "mismatches": r["mismatch_count"]})
        for m in r["mismatches"]:
            ctx.violation(m["key"], "%s %s_%s lane %s (x=%s, y=%s): spec %s, vek %s" % (
                m["ty"], m["fam"], m["op"], m["lane"], m["x"], m["y"], m["expected"], m["observed"]), m)
    # binding demonstration: a corrupted table entry must be flagged
    p = paths[0]
    lines = [l for l in open(p).read().splitlines() if l.startswith('"{') and '\\"op\\":\\"add\\"' in l]
    row = json.loads(json.loads(lines[len(lines) // 2]))
    k = next(i for i, v in enumerate(row["v"]) if v != 999999)
    row["v"][k] += 1
    p2 = p + ".corrupt"
    open(p2, "w").write(json.dumps(json.dumps(row)) + "\n")
    core.vh(["replay", "num", "--tables", p2, "--out", p2 + ".rep.json", "--signed", 1])
    ok = json.load(open(p2 + ".rep.json"))["mismatch_count"] > 0
    ctx.sub.append({"sub": "selftest-corrupt-table", "kind": "binding_demonstration", "flagged": ok})
    if not ok:
        raise core.ToolError("binding self-test failed: corrupted table entry not flagged")
    for q in paths + [p2]:
        for x in (q, q + ".rep.json"):
            if os.path.exists(x):
                os.remove(x)


def key(rec):
    return "%s/%s/%s" % (rec["op"], rec.get("how", rec.get("kind", "")), rec.get("ty", ""))


def corrupt(rs):
    idx = [i for i, r in enumerate(rs) if r["op"] == "approx" and r["obs"] == 1]
    i = idx[len(idx) // 2]
    rs[i]["elems"][0] = 0
    return i


FEATURES = core.FEATPROBE


def build_config(cfg, tdir):
    feats = [cfg["base"]] + list(cfg["feats"])
    rc, out, err, dt = core.sh(["cargo", "run", "--offline", "--quiet", "--target-dir", tdir, "--features", " ".join(feats)],
                               cwd=FEATURES, env={"CARGO_NET_OFFLINE": "true"}, timeout=1200)
    digest = out.strip().splitlines()[-1] if rc == 0 and out.strip() else ""
    return {"base": cfg["base"], "feats": list(cfg["feats"]), "ok": 1 if rc == 0 else 0, "digest": digest,
            "stderr": "" if rc == 0 else err[-1500:], "wall_s": round(dt, 1)}


def features(ctx):
    level = 2 if ctx.tier == "thorough" else 1
    r = core.tlc("MC_Features", "MC_Features_%d" % level, workers=2, keep_out=True)
    core.tlc_ok(r, "MC_Features")
    ctx.add_tlc(r, "MC_Features_%d" % level, "configuration_enumeration")
    cfgs = [p for p in r.prints if isinstance(p, dict) and "base" in p]
    # the lock file of the tree under test when it has one (it is not tracked by vek's repository), else the probe's own
    if os.path.exists(os.path.join(core.REPO, "Cargo.lock")):
        shutil.copy(os.path.join(core.REPO, "Cargo.lock"), os.path.join(FEATURES, "Cargo.lock"))
    nw = 8
    root = os.path.join(core.WORK, "feat")
    shutil.rmtree(root, ignore_errors=True)

    def worker(k):
        return [build_config(c, os.path.join(root, "t%d" % k)) for c in cfgs[k::nw]]
    try:
        with ThreadPoolExecutor(max_workers=nw) as ex:
            res = [x for part in ex.map(worker, range(nw)) for x in part]
    finally:
        shutil.rmtree(root, ignore_errors=True)
    tr = os.path.join(ctx.work, "features.ndjson")
    core.write_ndjson(tr, [{k: v for k, v in x.items() if k != "stderr"} for x in res])
    for x in res:
        ctx.nontrivial([x["base"], sorted(x["feats"])])
    ctx.sample({"config": res[0]["base"], "feats": res[0]["feats"], "digest": res[0]["digest"]})
    mm = core.validate_trace(ctx, "Trace_Features", tr, "features", cfg="Trace_Features_%d" % level, coverage=False)
    ctx.traces += 1
    ctx.sub[-1]["configurations"] = len(res)
    ctx.sub[-1]["slowest_s"] = max(x["wall_s"] for x in res)
    for rec, info in mm:
        full = next((x for x in res if rec and x["base"] == rec["base"] and x["feats"] == rec["feats"]), {})
        what = ("features %s + %s: %s" % (rec["base"], rec["feats"], "does not build: " + full.get("stderr", "")[-600:] if not rec["ok"]
                                          else "probe digest %r differs from %r" % (rec["digest"], info.get("exp")))) if rec else "configuration set not covered"
        ctx.violation("features/%s" % ("build" if rec and not rec["ok"] else "behaviour"), what, {"record": rec})
    # binding demonstration: a failed build in the log must be rejected
    recs = core.read_ndjson(tr)
    recs[len(recs) // 2]["ok"] = 0
    bad = tr + ".corrupt"
    core.write_ndjson(bad, recs)
    r2 = core.tlc("Trace_Features", "Trace_Features_%d" % level, env={"TRACE": bad}, workers=1, keep_out=True)
    if not any(isinstance(p, dict) and p.get("tag") in ("MISMATCH", "REJECTED_AT") for p in r2.prints):
        raise core.ToolError("binding self-test: failed build record accepted")
    os.remove(bad)
    os.remove(tr)


def run(ctx):
    ctx.rule = ("TLC prints the scalar semantics (VekLift) of checked/wrapping/saturating/overflowing add, sub, mul, "
                "checked div, rem, neg, Euclidean division and remainder (checked and plain) for every right operand of "
                "i8/u8 and every left operand (thorough; 14/12 boundary values in quick); the harness puts each entry in "
                "one lane of a vector (all 13 types and all lane positions in rotation, fixed exact values elsewhere) and "
                "checks: that lane = table, other lanes untouched, None iff that lane is None, flag = that lane's flag; "
                "casts (as_, numcast, the six az casts incl. trait forms) on all vector types, matrices in both layouts, "
                "boxes, rectangles, segments to 8/16-bit targets, Zero/One/is_zero/Inv, and abs_diff/relative/ulps "
                "equality of vectors, matrices, quaternions against the conjunction of the scalar predicate over all "
                "float classes are recorded and validated by TLC; TLC enumerates the feature configurations "
                "{std,libm} x (none, each single feature, each pair in thorough, all 14) and validates that each one "
                "builds offline on stable and that the probe program prints the same digest under all of them; "
                "non-trivial = table row containing a None or an overflow flag, plus every configuration")
    lifts(ctx)
    core.drive_validate(ctx, "numcast", "Trace_Num", "Trace_Num", "numcast", 40 if ctx.tier == "thorough" else 4,
                        ["cast", "zero_one", "approx"], key=key, corrupt=corrupt)
    features(ctx)
    ctx.exhaustive = ctx.tier == "thorough"
    ctx.assumptions = ["8-bit operands; wider integer types share the macro-generated lifts and are not enumerated here",
                       "feature matrix: singles + full set in quick, all pairs in thorough; nightly-only features "
                       "(platform_intrinsics, repr_simd code paths) are not exercised - repr_simd is a no-op on stable",
                       "'enabling a feature only adds items' is observed through one fixed probe program that must build and "
                       "behave identically under every configuration, not through an API diff"]


def replay(ctx, path):
    d = json.load(open(path))
    print(json.dumps(d["first"], indent=1)[:3000])
    det = (d["first"].get("detail") or {})
    if det.get("module"):
        return core.replay_record(ctx, path)
    return 0
