"""C06 — determinants are correct and the inverse functions really invert (DESIGN §6 C06)."""
import core

OPS_Q = ["det", "inv", "inv_rigid", "inv_affine"]


def key(rec):
    return "%s/%s" % (rec["op"], rec.get("lay", "").split("/")[0].rstrip("="))


def nontrivial(r):
    a = r.get("a")
    return isinstance(a, list) and sum(1 for row in a for x in row if x != 0) >= len(a) * len(a) - 4


def run(ctx):
    ctx.rule = ("TLC checks on the specification that Det (Leibniz expansion) is transpose-invariant and multiplicative, "
                "that A*adj(A) = adj(A)*A = det(A)*I, that Inv is two-sided and that the rigid-inverse formula inverts "
                "[R|t] (exhaustively over Z_2/Z_3 for 2x2, random tuples over Z_46337 for 2x2..4x4); every record is one "
                "real vek call (determinant of Mat2/3/4 in both layouts, also after transposition and layout change; "
                "inverted/invert, inverted_affine_transform_no_scale, inverted_affine_transform in both layouts on "
                "general, rigid and T*R*S matrices with exact rational rotations) whose result TLC recomputes by "
                "Leibniz/cofactors and additionally multiplies back to the identity on both sides; on the symbolic lane the "
                "determinant is compared as a polynomial in all entries and the inverse N/D of a matrix of 16 free symbols is "
                "checked by A*N = N*A = D*I (rational-function identity); non-trivial = "
                "operand with at most 4 zero entries")
    thorough = ctx.tier == "thorough"
    cfgs = ["Law_Mat_2_S", "Law_Mat_3_S", "Law_Mat_4_S", "Law_Mat_2x2_P2p", "Law_Mat_2_rand", "Law_Mat_3_rand", "Law_Mat_4_rand"]
    if thorough:
        cfgs += ["Law_Mat_2x2_P3", "Law_Mat_3_rand_big", "Law_Mat_4_rand_big"]
    core.law_runs(ctx, "Law_Mat", cfgs)
    n = 400 if thorough else 30
    # symbolic lane: determinants of matrices of 4/9/16 free symbols compared with the Leibniz polynomial; the general inverse
    # on 16 free symbols (and on affine / triangular / checkerboard symbol patterns) returned as N/D and checked fraction-free:
    # A*N = N*A = D*I, D # 0 - the rational-function identity, for every matrix at once; the rigid fast inverse as a polynomial
    def corrupt_sym(rs):
        i = next(k for k, r in enumerate(rs) if r["op"] == "inv_sym")
        t = rs[i]["obs"]["num"][1][2]["ply"]
        rs[i]["obs"]["num"][1][2] = {"ply": [[t[0][0] + 1, t[0][1]]] + t[1:]}
        return i
    core.drive_validate(ctx, "detinv", "Trace_Mat", "Trace_Mat_S", "detinv-sym", 1, ["det", "inv_sym", "inv_rigid_sym"], key=key,
                        extra_args=["--lane", "sym"], corrupt=corrupt_sym)
    core.drive_validate(ctx, "detinv", "Trace_Mat", "Trace_Mat_F", "detinv-q", n, OPS_Q, key=key,
                        extra_args=["--lane", "q"], corrupt_op="inv", nontrivial=nontrivial)
    core.drive_validate(ctx, "detinv", "Trace_Mat", "Trace_Mat_Z", "detinv-z", n, ["det"], key=key,
                        extra_args=["--lane", "z"], corrupt_op="det", nontrivial=nontrivial)
    ctx.assumptions = ["symbolic lane: vek is generic in T and stable Rust has no specialisation, so the rational function returned "
                       "on free symbols is the function computed for every element type (parametricity); the branching affine "
                       "inverse (epsilon comparison) is not in this lane",
                       "exact arithmetic: rational operands and results are compared in the prime field Z_46337",
                       "operands are sampled (seeded): general small rational matrices, sparse ones, exact rational "
                       "rotations from integer quaternions, scales in +-{1/8..8} (the rational lane is sampling)",
                       "a sample whose determinant vanishes (in Q or modulo 46337) is dropped and counted as inconclusive"]


def replay(ctx, path):
    return core.replay_record(ctx, path)
