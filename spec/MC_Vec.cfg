CONSTANTS N = 3
  M = 3
INIT Init
NEXT Next
INVARIANTS MinMaxLaw CmpLaw ReduceLaw TermLaw
CHECK_DEADLOCK FALSE
