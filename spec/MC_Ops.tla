------------------------------- MODULE MC_Ops -------------------------------
(***************************************************************************)
(* Bounded exhaustive model for C17 (and the integer part of C12).         *)
(* State: one pair of bounds (lo, hi) of a BITS-wide integer type; the     *)
(* invariants quantify over every value x of the type, so the run visits   *)
(* every (x, lo, hi) triple of the type.                                   *)
(*                                                                         *)
(*  SpecLaws*   the declarative operators satisfy the property statement   *)
(*  Algo*       the implementation-shaped algorithms (VekOpsAlgo) compute  *)
(*              the declarative value and never leave the machine type     *)
(*  OldAlgoNoOverflow  is expected to be VIOLATED (defect D7 witness);     *)
(*              checked only by MC_OpsOld.cfg                              *)
(***************************************************************************)
EXTENDS VekOpsAlgo, TLC
CONSTANTS BITS, SIGNED
VARIABLES lo, hi

T == ZRange(BITS, SIGNED)
Init == lo \in T /\ hi \in T
Next == UNCHANGED <<lo, hi>>

\* -- the specification satisfies the statement of C17 ---------------------
SpecLawsClamp ==
    /\ (lo > hi) => \A x \in T : Clamp(x, lo, hi) = PANIC /\ IsBetween(x, lo, hi) = PANIC
    /\ (lo <= hi) => \A x \in T :
          LET c == Clamp(x, lo, hi) IN
          /\ c \in lo .. hi
          /\ Clamp(c, lo, hi) = c                                  \* idempotent
          /\ (c = x) <=> (IsBetween(x, lo, hi) = 1)                \* agrees with the range test
          /\ (x < lo => c = lo) /\ (x > hi => c = hi)              \* the nearer bound
SpecLawsWrap ==
    /\ ~WrapBetweenOk(lo, hi) => \A x \in T : WrapBetween(x, lo, hi) = PANIC
    /\ WrapBetweenOk(lo, hi) => \A x \in T :
          LET r == WrapBetween(x, lo, hi) IN
          /\ r \in lo .. (hi - 1)
          /\ (r - x) % (hi - lo) = 0
          /\ r = WrapBetweenDecl(x, lo, hi)                        \* the unique such value
          /\ WrapBetween(x + (hi - lo), lo, hi) = r                \* periodic
          /\ WrapBetween(r, lo, hi) = r                            \* idempotent
          /\ WrapBetween(3 * x, 3 * lo, 3 * hi) = 3 * r            \* homogeneous (used to scale tables)
    /\ (lo = 0 /\ hi > 0) => \A x \in T : Wrapped(x, hi) = WrapBetween(x, 0, hi)
SpecLawsPingPong ==                                                \* hi plays `upper`
    /\ hi <= 0 => \A x \in T : PingPong(x, hi) = PANIC
    /\ hi > 0 => \A x \in T :
          LET p == PingPong(x, hi) IN
          /\ p \in 0 .. hi
          /\ p = PingPong(-x, hi) /\ p = PingPong(x + 2 * hi, hi)
          /\ (0 <= x /\ x <= hi) => p = x
          /\ (hi <= x /\ x <= 2 * hi) => p = 2 * hi - x
          /\ PingPong(3 * x, 3 * hi) = 3 * p
SpecLawsDelta ==                                                   \* turn = 2*(|hi|+1)
    LET turn == 2 * (Abs(hi) + 1) IN
    \A x \in T : LET d == DeltaAngle(lo, x, turn) IN
          /\ 2 * d > -turn /\ 2 * d <= turn
          /\ (d - (x - lo)) % turn = 0

\* -- the repaired algorithms ------------------------------------------------
AlgoWrapBetween == WrapBetweenOk(lo, hi) => \A x \in T :
    LET a == NewWrapBetween(x, lo, hi, BITS, SIGNED) IN a.val = WrapBetween(x, lo, hi) /\ ~a.ovf
AlgoPingPong == hi > 0 => \A x \in T :
    LET a == NewPingPong(x, hi, BITS, SIGNED) IN a.val = PingPong(x, hi) /\ ~a.ovf

\* -- the algorithms as found: functionally right in unbounded arithmetic ... -
OldAlgoCorrect == WrapBetweenOk(lo, hi) => \A x \in T :
    OldWrapBetween(x, lo, hi, BITS, SIGNED).val = WrapBetween(x, lo, hi)
\* ... but their intermediate steps leave the type (D7): expected to fail
OldAlgoNoOverflow ==
    /\ WrapBetweenOk(lo, hi) => \A x \in T : ~OldWrapBetween(x, lo, hi, BITS, SIGNED).ovf
    /\ hi > 0 => \A x \in T :
          ~(IF SIGNED THEN OldPingPongS(x, hi, BITS) ELSE OldPingPongU(x, hi, BITS)).ovf
=============================================================================
