---------------------------- MODULE Trace_Xform ----------------------------
(***************************************************************************)
(* Trace validation (binding B2, code -> spec) for rotations (C04),        *)
(* quaternions (C05), affine builders, chains and Transform (C07) and the  *)
(* view / change-of-basis matrices (C09).  Every record is one call of the *)
(* real vek code (`vh drive rot|quat|affine|view`), logged after the call  *)
(* returned with operands and the projected result.  Angles are tokens     *)
(* (b, k) = k * phi_b whose cosine and sine THIS module recomputes; lengths*)
(* of vectors the code normalises are witnesses (`len`) that this module   *)
(* checks (len^2 = |v|^2, and positive through the exact pair `lenq`).     *)
(* With P = 46337 values are residues; with P = -1 exact pairs <<n, d>>;   *)
(* with P = PPoly the records come from the symbolic lane: operands are    *)
(* free symbols, an angle is the symbol pair `cs` = (cos, sin) (`hcs` for  *)
(* the half angle) and each result is a polynomial compared as such.       *)
(***************************************************************************)
EXTENDS VekXform, TLC, Json, IOUtils
Rec == DecodeTrace(ndJsonDeserialize(IOEnv.TRACE))
VARIABLE l

\* token base 0 = quarter turns
QuarterCS(k) == LET m == k % 4 IN IF m = 0 THEN <<F1, F0>> ELSE IF m = 1 THEN <<F0, F1>> ELSE IF m = 2 THEN <<FNeg(F1), F0>> ELSE <<F0, FNeg(F1)>>
CSOf(b, k) == IF b = 0 THEN QuarterCS(k) ELSE TokenCS(b, k)
\* the (cos, sin) of a record's angle: recomputed from the token, or the symbol pair of the symbolic lane
CS(e) == IF "cs" \in DOMAIN e THEN e.cs ELSE CSOf(e.b, e.k)
HCS(e) == IF "hcs" \in DOMAIN e THEN e.hcs ELSE CSOf(e.b, e.hk)
\* a length witness: squares to |v|^2 and is positive (checked on the exact pair)
LenOk(len, lenq, v) == FSq(len) = Norm2(v) /\ lenq[1] > 0 /\ lenq[2] > 0 /\ FOfQ(lenq) = len
UnitOf(v, len) == VScale(v, FInv(len))

AxisRot(axis, n, cs) ==
    IF n = 2 THEN RotZ2(cs[1], cs[2])
    ELSE Resize(CASE axis = "x" -> RotX3(cs[1], cs[2]) [] axis = "y" -> RotY3(cs[1], cs[2]) [] axis = "z" -> RotZ3(cs[1], cs[2]), n)
QuatRotExpected(e) ==
    LET h == HCS(e)
        r == QuatOfHalfAngleAxis(h[1], h[2], UnitOf(e.v, e.len))
    IN IF e.form \in {"rotation_3d", "rotation_x", "rotation_y", "rotation_z"} THEN r ELSE QuatMul(r, e.a)
ConvExpected(e) ==
    CASE e.how \in {"from_xyzw", "into_vec4", "from_vec4", "from_into_vec4", "from_scalar_and_vec3", "into_scalar_and_vec3"} -> e.p
      [] e.how = "into_vec3" -> QV(e.p)
      [] e.how \in {"identity", "default"} -> QuatId
      [] e.how = "zero" -> <<F0, F0, F0, F0>>
\* the steps of a chain record carry (c, s) next to their token; bind them
StepsOk(steps) == \A i \in 1 .. Len(steps) : "b" \in DOMAIN steps[i] => <<steps[i].c, steps[i].s>> = CSOf(steps[i].b, steps[i].kk)

Expected(e) ==
    CASE e.op = "rot_axis" -> MatMul(AxisRot(e.axis, e.n, CS(e)), e.a)
      [] e.op = "rot_3d" -> LET cs == CS(e) IN MatMul(Resize(Rodrigues(cs[1], cs[2], UnitOf(e.v, e.len)), e.n), e.a)
      [] e.op = "mat_of_quat" -> IF e.n = 3 THEN MatOfQuat3(e.q) ELSE MatOfQuat4(e.q)
      [] e.op = "quat_rot" -> QuatRotExpected(e)
      [] e.op = "vec2_rot" -> LET cs == CS(e) IN MatVec(RotZ2(cs[1], cs[2]), e.v)
      [] e.op = "quat_mul" -> QuatMul(e.p, e.q)
      [] e.op = "quat_add" -> VAdd(e.p, e.q)
      [] e.op = "quat_sub" -> VSub(e.p, e.q)
      [] e.op = "quat_dot" -> Dot(e.p, e.q)
      [] e.op = "quat_neg" -> VNeg(e.p)
      [] e.op = "quat_conj" -> QuatConj(e.p)
      [] e.op = "quat_inv" -> QuatInv(e.p)
      [] e.op = "quat_norm2" -> QuatNorm2(e.p)
      [] e.op = "quat_muls" -> VScale(e.p, e.s)
      [] e.op = "quat_divs" -> VScale(e.p, FInv(e.s))
      [] e.op = "quat_mulv3" -> QuatRot(e.q, e.v)
      [] e.op = "quat_mulv4" -> QuatRot(e.q, e.v) \o <<e.w>>
      [] e.op = "quat_compose" -> <<QuatRot(e.p, QuatRot(e.q, e.v)), QuatRot(e.p, QuatRot(e.q, e.v))>>
      [] e.op = "quat_conv" -> ConvExpected(e)
      [] e.op = "quat_normalized" -> VScale(e.p, FInv(e.len))
      [] e.op = "quat_magnitude" -> FOfQ(e.lenq)
      [] e.op = "ctor" -> StepMat(e.n, e.st)
      \* by induction over the recorded matrices: the matrix after call i is Step_i times the matrix after call i-1
      \* (equal to ChainMat(e.n, e.steps, i); written this way because TLC re-evaluates nested recursive products)
      [] e.op = "chain" -> [i \in 1 .. Len(e.steps) |-> MatMul(StepMat(e.n, e.steps[i]), IF i = 1 THEN (IF "start" \in DOMAIN e THEN e.start ELSE Idn(e.n)) ELSE e.obs[i - 1])]
      [] e.op = "mul_point" -> XYZ(MatVec(e.a, Point4(e.v)))
      [] e.op = "mul_dir" -> XYZ(MatVec(e.a, Dir4(e.v)))
      [] e.op = "mul_point_2d" -> XY(MatVec(e.a, Point3(e.v)))
      [] e.op = "mul_dir_2d" -> XY(MatVec(e.a, Dir3(e.v)))
      [] e.op = "from_transform" -> XformMat(e.pos, e.q, e.scale)
      [] e.op = "local_to_basis" -> LocalToBasis(e.o, e.i, e.j, e.k)
      [] e.op = "basis_to_local" -> BasisToLocal(e.o, e.i, e.j, e.k)
AxiomOps == {"from_to", "angle_axis", "look_at", "angle_axis_f", "from_to_f"}

\* operations validated by what the result must DO rather than by a formula
FromToOk(e) ==
    LET img == IF e.ty = "quat" THEN QuatRot(e.obs, e.from)
               ELSE MatVec(Rot3Of(e.obs), e.from)
    IN /\ LenOk(e.fl, e.flq, e.from) /\ LenOk(e.tl, e.tlq, e.to)
       /\ VScale(img, e.tl) = VScale(e.to, e.fl)                 \* from/|from| is mapped onto to/|to|
       /\ IF e.ty = "quat" THEN QuatNorm2(e.obs) = F1
          ELSE MatMul(Rot3Of(e.obs), Transp(Rot3Of(e.obs))) = Idn(3) /\ Det(Rot3Of(e.obs)) = F1
               /\ (Len(e.obs) = 4 => IsAffine(e.obs) /\ TranslOf(e.obs) = VZero(3))
RECURSIVE CSOfList(_, _)
CSOfList(toks, i) == IF i = 0 THEN <<F1, F0>> ELSE AngAdd(CSOfList(toks, i - 1), CSOf(toks[i][1], toks[i][2]))
AngleAxisOk(e) == LET cs == CSOfList(e.obs.ang, Len(e.obs.ang))
                  IN /\ Norm2(e.obs.axis) = F1
                     /\ Rodrigues(cs[1], cs[2], e.obs.axis) = MatOfQuat3(e.q)
LookAtOk(e) == IF e.model = 0 THEN IsLookAt(e.obs, e.eye, e.target, e.up, e.zsign)
               ELSE /\ IsRigid(e.obs) /\ MulPoint(e.obs, VZero(3)) = e.eye
                    /\ IsLookAt(RigidInv(e.obs), e.eye, e.target, e.up, e.zsign)
Extra(e) ==
    CASE e.op = "rot_3d" -> LenOk(e.len, e.lenq, e.v)
      [] e.op = "quat_rot" -> LenOk(e.len, e.lenq, e.v)
      [] e.op = "quat_normalized" -> FSq(e.len) = Norm2(e.p) /\ e.lenq[1] > 0 /\ FOfQ(e.lenq) = e.len
      [] e.op = "quat_magnitude" -> FSq(FOfQ(e.lenq)) = Norm2(e.p) /\ e.lenq[1] > 0
      [] e.op = "chain" -> StepsOk(e.steps)
      [] e.op = "from_to" -> FromToOk(e)
      [] e.op = "angle_axis" -> AngleAxisOk(e)
      [] e.op = "look_at" -> LookAtOk(e)
      \* floats, plain integers (angle * 2^26, axis * 2^20): a rotation by an angle in (0, pi) about a unit axis has exactly one
      \* angle-axis description, so the extraction must return the pair the quaternion was built from (to 2^-12 relative)
      [] e.op = "angle_axis_f" -> /\ e.obs.ang - e.ang \in (0 - (e.ang \div 4096) - 8) .. ((e.ang \div 4096) + 8)
                                  /\ \A i \in 1 .. 3 : e.obs.axis[i] - e.axis[i] \in -256 .. 256
      \* floats, plain integers (unit vectors * 2^20, tolerance e.tol): the rotation built from a pair of directions maps from/|from|
      \* onto to/|to| and is a unit quaternion WHATEVER the two lengths are (very long, very short, very different); the exact
      \* lane cannot see a wrong branch that ends in an irrational square root (its sample is dropped as inconclusive)
      [] e.op = "from_to_f" -> /\ \A i \in 1 .. 3 : e.obs.img[i] - e.obs.to[i] \in (0 - e.tol) .. e.tol
                               /\ e.obs.n2 - 1048576 \in (0 - e.tol) .. e.tol
      \* basis_to_local undoes local_to_basis for an orthonormal basis
      [] e.op = "basis_to_local" -> e.ortho = 1 => MatMul(e.obs, LocalToBasis(e.o, e.i, e.j, e.k)) = Idn(4)
      [] e.op = "local_to_basis" -> /\ MulPoint(e.obs, VZero(3)) = e.o /\ MulPoint(e.obs, Unit(3, 1)) = VAdd(e.o, e.i)
                                    /\ MulPoint(e.obs, Unit(3, 2)) = VAdd(e.o, e.j) /\ MulPoint(e.obs, Unit(3, 3)) = VAdd(e.o, e.k)
      [] OTHER -> TRUE
Conforms(e) == e.pan = 0 /\ (e.op \in AxiomOps \/ e.obs = Expected(e)) /\ Extra(e)

Init == l = 1
Step(name) ==
    /\ l <= Len(Rec) /\ Rec[l].op = name
    /\ IF Conforms(Rec[l]) THEN TRUE
       ELSE PrintT(ToJson([tag |-> "MISMATCH", l |-> l, exp |-> IF name \in AxiomOps THEN 0 ELSE Expected(Rec[l])]))
    /\ l' = l + 1
RotAxis == Step("rot_axis")
Rot3d == Step("rot_3d")
MatOfQuat == Step("mat_of_quat")
QuatRotA == Step("quat_rot")
Vec2Rot == Step("vec2_rot")
QuatMulA == Step("quat_mul")
QuatAdd == Step("quat_add")
QuatSub == Step("quat_sub")
QuatDot == Step("quat_dot")
QuatNeg == Step("quat_neg")
QuatConjA == Step("quat_conj")
QuatInvA == Step("quat_inv")
QuatNorm2A == Step("quat_norm2")
QuatMulS == Step("quat_muls")
QuatDivS == Step("quat_divs")
QuatMulV3 == Step("quat_mulv3")
QuatMulV4 == Step("quat_mulv4")
QuatCompose == Step("quat_compose")
QuatConv == Step("quat_conv")
QuatNormalized == Step("quat_normalized")
QuatMagnitude == Step("quat_magnitude")
FromTo == Step("from_to")
AngleAxis == Step("angle_axis")
AngleAxisF == Step("angle_axis_f")
FromToF == Step("from_to_f")
Ctor == Step("ctor")
Chain == Step("chain")
MulPointA == Step("mul_point")
MulDirA == Step("mul_dir")
MulPoint2d == Step("mul_point_2d")
MulDir2d == Step("mul_dir_2d")
FromTransform == Step("from_transform")
LookAt == Step("look_at")
LocalToBasisA == Step("local_to_basis")
BasisToLocalA == Step("basis_to_local")
Next == AngleAxisF \/ FromToF \/ RotAxis \/ Rot3d \/ MatOfQuat \/ QuatRotA \/ Vec2Rot \/ QuatMulA \/ QuatAdd \/ QuatSub \/ QuatDot \/ QuatNeg
        \/ QuatConjA \/ QuatInvA \/ QuatNorm2A \/ QuatMulS \/ QuatDivS \/ QuatMulV3 \/ QuatMulV4 \/ QuatCompose \/ QuatConv
        \/ QuatNormalized \/ QuatMagnitude \/ FromTo \/ AngleAxis \/ Ctor \/ Chain \/ MulPointA \/ MulDirA \/ MulPoint2d
        \/ MulDir2d \/ FromTransform \/ LookAt \/ LocalToBasisA \/ BasisToLocalA

Accepted == IF TLCGet("stats").diameter - 1 = Len(Rec) THEN TRUE
            ELSE PrintT(ToJson([tag |-> "REJECTED_AT", l |-> TLCGet("stats").diameter])) /\ FALSE
=============================================================================
