\* C17: every (x, lo, hi) of a 5-bit signed type. States = 2^(2*5) bound pairs.
CONSTANTS BITS = 5 SIGNED = TRUE
INIT Init
NEXT Next
INVARIANTS SpecLawsClamp SpecLawsWrap SpecLawsPingPong SpecLawsDelta AlgoWrapBetween AlgoPingPong OldAlgoCorrect
CHECK_DEADLOCK FALSE
