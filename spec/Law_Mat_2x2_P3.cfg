\* every (A,B,v,s) over Z_3 with C = A^T: 81^2*9*3 = 177147 states
CONSTANTS P = 3
  N = 2
  MODE = "pairs"
  K = 0
INIT Init
NEXT Next
INVARIANT Laws
CHECK_DEADLOCK FALSE
