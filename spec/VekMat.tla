------------------------------- MODULE VekMat -------------------------------
(***************************************************************************)
(* Abstract square matrices of the vek machine: a matrix is the sequence   *)
(* of its rows, M[i][j] is row i, column j.  THERE IS NO STORAGE LAYOUT in *)
(* the abstract value; row-major and column-major vek types are two        *)
(* refinements whose abstraction functions are Abs below (C03).            *)
(* C01 | src/mat.rs Mul impls, mul_memberwise, identity, zero              *)
(* C03 | src/mat.rs new, Index, transposed, diagonal, From<..>, arrays     *)
(* C06 | src/mat.rs determinant, inverted, inverted_affine_transform*      *)
(***************************************************************************)
EXTENDS VekField, FiniteSets

Dim(A) == Len(A)
\* TLC evaluates function constructors lazily and re-evaluates them on every application; a product of
\* products would be recomputed exponentially often.  Tup / ForceM turn a (<= 4)-vector / matrix into an
\* explicit tuple, evaluated once.  They are identities on values.
Tup(v) == CASE Len(v) = 1 -> <<v[1]>> [] Len(v) = 2 -> <<v[1], v[2]>> [] Len(v) = 3 -> <<v[1], v[2], v[3]>>
            [] Len(v) = 4 -> <<v[1], v[2], v[3], v[4]>> [] OTHER -> v
ForceM(A) == Tup([i \in 1 .. Len(A) |-> Tup(A[i])])
Mat(n, Entry(_, _)) == [i \in 1 .. n |-> [j \in 1 .. n |-> Entry(i, j)]]
Idn(n) == [i \in 1 .. n |-> [j \in 1 .. n |-> IF i = j THEN F1 ELSE F0]]
ZeroM(n) == [i \in 1 .. n |-> [j \in 1 .. n |-> F0]]
Transp(A) == [i \in 1 .. Len(A) |-> [j \in 1 .. Len(A) |-> A[j][i]]]
\* abstraction function of the two storage layouts: `lines` are the stored
\* vectors (rows of a row-major matrix, columns of a column-major one)
AbsLay(lay, lines) == IF lay = "r" THEN lines ELSE Transp(lines)
Row(A, i) == A[i]
Col(A, j) == [i \in 1 .. Len(A) |-> A[i][j]]
Dot(u, v) == FSum([k \in 1 .. Len(u) |-> FMul(u[k], v[k])])
MatMul(A, B) == ForceM([i \in 1 .. Len(A) |-> [j \in 1 .. Len(A) |-> Dot(A[i], Col(B, j))]])
MatVec(A, v) == [i \in 1 .. Len(A) |-> Dot(A[i], v)]          \* M * column vector
VecMat(v, A) == [j \in 1 .. Len(A) |-> Dot(v, Col(A, j))]     \* row vector * M
MapM(A, Op(_)) == [i \in 1 .. Len(A) |-> [j \in 1 .. Len(A) |-> Op(A[i][j])]]
Map2M(A, B, Op(_, _)) == [i \in 1 .. Len(A) |-> [j \in 1 .. Len(A) |-> Op(A[i][j], B[i][j])]]
MatScale(A, s) == MapM(A, LAMBDA x : FMul(x, s))
MatAdd(A, B) == Map2M(A, B, FAdd)
MatSub(A, B) == Map2M(A, B, FSub)
MatNeg(A) == MapM(A, FNeg)
Diag(A) == [i \in 1 .. Len(A) |-> A[i][i]]
WithDiag(d) == [i \in 1 .. Len(d) |-> [j \in 1 .. Len(d) |-> IF i = j THEN d[i] ELSE F0]]
TraceM(A) == FSum(Diag(A))
IsZeroM(A) == \A i \in 1 .. Len(A) : \A j \in 1 .. Len(A) : A[i][j] = F0
FlatRows(A) == [k \in 1 .. Len(A) * Len(A) |-> A[((k - 1) \div Len(A)) + 1][((k - 1) % Len(A)) + 1]]
FlatCols(A) == FlatRows(Transp(A))
UnflatRows(n, s) == [i \in 1 .. n |-> [j \in 1 .. n |-> s[(i - 1) * n + j]]]
UnflatCols(n, s) == Transp(UnflatRows(n, s))
\* size conversion: keep the common upper-left block, fill with identity   | From<Mat3> for Mat4 ...
Resize(A, m) == [i \in 1 .. m |-> [j \in 1 .. m |->
                   IF i <= Len(A) /\ j <= Len(A) THEN A[i][j] ELSE IF i = j THEN F1 ELSE F0]]

(* Determinant by the Leibniz expansion over all permutations.             *)
Perms(n) == {p \in [1 .. n -> 1 .. n] : \A i, j \in 1 .. n : i # j => p[i] # p[j]}
Inversions(p, n) == Cardinality({ij \in (1 .. n) \X (1 .. n) : ij[1] < ij[2] /\ p[ij[1]] > p[ij[2]]})
PermTerm(A, p) == LET n == Len(A)
                      t == FProd([i \in 1 .. n |-> A[i][p[i]]])
                  IN IF Inversions(p, n) % 2 = 0 THEN t ELSE FNeg(t)
RECURSIVE SumOverSet(_, _, _)
SumOverSet(S, A, acc) == IF S = {} THEN acc
                         ELSE LET p == CHOOSE q \in S : TRUE
                              IN SumOverSet(S \ {p}, A, FAdd(acc, PermTerm(A, p)))
P2 == Perms(2)
P3 == Perms(3)
P4 == Perms(4)
PermsOf(n) == IF n = 2 THEN P2 ELSE IF n = 3 THEN P3 ELSE IF n = 4 THEN P4 ELSE Perms(n)
Det(A) == IF Len(A) = 1 THEN A[1][1] ELSE SumOverSet(PermsOf(Len(A)), A, F0)
\* minor: delete row i and column j
Minor(A, i, j) == LET n == Len(A)
                  IN [r \in 1 .. (n - 1) |-> [c \in 1 .. (n - 1) |->
                        A[IF r < i THEN r ELSE r + 1][IF c < j THEN c ELSE c + 1]]]
Cofactor(A, i, j) == LET d == Det(Minor(A, i, j)) IN IF (i + j) % 2 = 0 THEN d ELSE FNeg(d)
Adj(A) == [i \in 1 .. Len(A) |-> [j \in 1 .. Len(A) |-> Cofactor(A, j, i)]]
Inv(A) == MatScale(Adj(A), FInv(Det(A)))
\* the 2x2 adjugate used by the Vec4-as-Mat2 helpers                       | src/vec.rs mat2_*
Adj2(A) == <<<<A[2][2], FNeg(A[1][2])>>, <<FNeg(A[2][1]), A[1][1]>>>>
\* a Vec4 (x,y,z,w) read as 2x2 matrix, rows flavour / columns flavour
M2Rows(v) == <<<<v[1], v[2]>>, <<v[3], v[4]>>>>
M2Cols(v) == <<<<v[1], v[3]>>, <<v[2], v[4]>>>>
V4Rows(A) == <<A[1][1], A[1][2], A[2][1], A[2][2]>>
V4Cols(A) == <<A[1][1], A[2][1], A[1][2], A[2][2]>>
=============================================================================
