----------------------------- MODULE MC_MatProg -----------------------------
(***************************************************************************)
(* Exhaustive exploration of the matrix-API machine (C03): every program   *)
(* of at most MAXLEN calls from the symbol matrix of size N0.  The history *)
(* is part of the state, so every program is a distinct state and is       *)
(* printed once (binding B1: the harness replays each program on a         *)
(* row-major and a column-major value side by side).                       *)
(* Invariants: the two refinements (stored lines of a row-major and of a   *)
(* column-major register) always abstract to the machine's matrix          *)
(* (LayoutUnobservable); algebraic facts of the call set (double           *)
(* transposition, array round trips, resize up then down).                 *)
(* Constants: N0 in {2,3,4}; MAXLEN 2 (quick: 463+ programs per size) or   *)
(* 3 (thorough: ~10^4 per size); P = 0 (integer symbols).                  *)
(***************************************************************************)
EXTENDS VekMatProg, TLC, Json
CONSTANTS N0, MAXLEN
VARIABLES M, hist, concR, concC

CallSet(n) == {[c |-> x, arg |-> 0] : x \in {"transposed", "transpose", "convert_layout", "rr", "cc", "rc", "cr", "RR", "CC", "RC", "CR",
                                              "identity", "zero", "with_diagonal", "map", "map2", "as", "slice_write", "ptr_write", "mint_r", "mint_c"}}
              \cup {[c |-> "resize", arg |-> m] : m \in {2, 3, 4} \ {n}} \cup {[c |-> "set", arg |-> 1]}
Init == M = Symbols(N0) /\ hist = <<>> /\ concR = <<"r", Symbols(N0)>> /\ concC = <<"c", Transp(Symbols(N0))>>
Next == /\ Len(hist) < MAXLEN
        /\ \E call \in CallSet(Len(M)) :
              /\ M' = Apply(M, call) /\ hist' = Append(hist, call)
              /\ concR' = ConcApply(concR[1], concR[2], call) /\ concC' = ConcApply(concC[1], concC[2], call)
LayoutUnobservable == AbsLay(concR[1], concR[2]) = M /\ AbsLay(concC[1], concC[2]) = M
IsRun == M = Run(Symbols(N0), hist, Len(hist))
Facts == /\ Apply(Apply(M, [c |-> "transposed", arg |-> 0]), [c |-> "transpose", arg |-> 0]) = M
         /\ Apply(Apply(M, [c |-> "rc", arg |-> 0]), [c |-> "cr", arg |-> 0]) = M
         /\ \A m \in {2, 3, 4} : m >= Len(M) => Apply(Apply(M, [c |-> "resize", arg |-> m]), [c |-> "resize", arg |-> Len(M)]) = M
         /\ Diag(Apply(M, [c |-> "transposed", arg |-> 0])) = Diag(M)
Emit == PrintT(ToJson([n0 |-> N0, calls |-> hist]))
=============================================================================
