------------------------------ MODULE VekBezier ------------------------------
(***************************************************************************)
(* Quadratic and cubic Bezier curves of the abstract machine.  A curve is  *)
(* the sequence of its control points (3 or 4 points, each a sequence of   *)
(* 2 or 3 ring elements).                                                  *)
(* C14 | src/bezier.rs evaluate, evaluate_derivative, split, matrix,       *)
(*       into_cubic, From<LineSegment|Range|Quadratic>, reversed/reverse,  *)
(*       into_2d/into_3d, flipped_x/y/z, Mul<Bezier> for Mat2/3/4,         *)
(*       unit_quarter_circle, unit_circle                                  *)
(* C15 | src/bezier.rs x/y/z_inflection(s), min_x.., x_bounds.., aabr,     *)
(*       aabb, binary_search_point(_by_steps), length_by_discretization    *)
(***************************************************************************)
EXTENDS VekLerp

Deg(C) == Len(C) - 1
Dimn(C) == Len(C[1])
PLerp(p, q, t) == [i \in 1 .. Len(p) |-> LerpPrecise(p[i], q[i], t)]
\* binomial coefficients of degree 2 and 3
Binom(n, k) == IF n = 2 THEN <<1, 2, 1>>[k + 1] ELSE IF n = 3 THEN <<1, 3, 3, 1>>[k + 1] ELSE IF n = 1 THEN 1 ELSE 1
Bern(n, k, t) == FMul(FI(Binom(n, k)), FMul(FPow(FSub(F1, t), n - k), FPow(t, k)))
RECURSIVE VSumFrom(_, _)
VSumFrom(s, i) == IF i = Len(s) THEN s[i] ELSE VAdd(s[i], VSumFrom(s, i + 1))
\* the Bernstein polynomial of the control points                           | evaluate
Eval(C, t) == VSumFrom([k \in 1 .. Len(C) |-> VScale(C[k], Bern(Deg(C), k - 1, t))], 1)
\* homogeneous form: D^n * Eval(C, j / D), a polynomial in (j, D) - defined in every ring, used where the
\* parameter is a fraction and the ring has no division (integers)
BernHom(n, k, j, D) == FMul(FI(Binom(n, k)), FMul(FPow(FSub(D, j), n - k), FPow(j, k)))
EvalHom(C, j, D) == VSumFrom([k \in 1 .. Len(C) |-> VScale(C[k], BernHom(Deg(C), k - 1, j, D))], 1)
\* n times the Bernstein polynomial of the forward differences               | evaluate_derivative
Diffs(C) == [k \in 1 .. (Len(C) - 1) |-> VSub(C[k + 1], C[k])]
Deriv(C, t) == VScale(Eval(Diffs(C), t), FI(Deg(C)))
\* de Casteljau: repeated interpolation of adjacent points
Level(C, t) == [k \in 1 .. (Len(C) - 1) |-> PLerp(C[k], C[k + 1], t)]
RECURSIVE Casteljau(_, _)
Casteljau(C, t) == IF Len(C) = 1 THEN C[1] ELSE Casteljau(Level(C, t), t)
RECURSIVE Levels(_, _)
Levels(C, t) == IF Len(C) = 1 THEN <<C>> ELSE <<C>> \o Levels(Level(C, t), t)
\* the two halves of a split: first points / last points of the de Casteljau levels   | split
SplitFirst(C, t) == LET L == Levels(C, t) IN [k \in 1 .. Len(C) |-> L[k][1]]
SplitSecond(C, t) == LET L == Levels(C, t) IN [k \in 1 .. Len(C) |-> L[Len(C) + 1 - k][k]]
\* power-basis coefficient matrices (row k = coefficients of t^(k-1))        | matrix
BezMatrix(n) == IF n = 2 THEN << <<FI(1), FI(0), FI(0)>>, <<FI(-2), FI(2), FI(0)>>, <<FI(1), FI(-2), FI(1)>> >>
                ELSE << <<FI(1), FI(0), FI(0), FI(0)>>, <<FI(-3), FI(3), FI(0), FI(0)>>,
                        <<FI(3), FI(-6), FI(3), FI(0)>>, <<FI(-1), FI(3), FI(-3), FI(1)>> >>
\* coefficient vectors c_0..c_n with Eval(C, t) = sum c_k t^k
PowerCoefs(C) == LET M == BezMatrix(Deg(C))
                 IN [k \in 1 .. Len(C) |-> VSumFrom([j \in 1 .. Len(C) |-> VScale(C[j], M[k][j])], 1)]
EvalPower(C, t) == LET c == PowerCoefs(C) IN VSumFrom([k \in 1 .. Len(C) |-> VScale(c[k], FPow(t, k - 1))], 1)
DerivPower(C, t) == LET c == PowerCoefs(C) IN VSumFrom([k \in 1 .. (Len(C) - 1) |-> VScale(c[k + 1], FMul(FI(k), FPow(t, k - 1)))], 1)
\* degree elevation quadratic -> cubic                                       | into_cubic / From<Quadratic>
Elevate(C) == << C[1], VScale(VAdd(C[1], VScale(C[2], F2)), FInv(FI(3))), VScale(VAdd(C[3], VScale(C[2], F2)), FInv(FI(3))), C[3] >>
FromSegment(n, s, e) == IF n = 2 THEN << s, VScale(VAdd(s, e), FHalf), e >>
                        ELSE << s, PLerp(s, e, FInv(FI(3))), PLerp(s, e, FDiv(F2, FI(3))), e >>
Reversed(C) == [k \in 1 .. Len(C) |-> C[Len(C) + 1 - k]]
MapPts(C, Op(_)) == [k \in 1 .. Len(C) |-> Op(C[k])]
Flip(C, axis) == MapPts(C, LAMBDA p : [i \in 1 .. Len(p) |-> IF i = axis THEN FNeg(p[i]) ELSE p[i]])
\* a matrix acting on the control points: linear for equal size, as an affine map of points for size+1
BezMul(A, C) == IF Len(A) = Dimn(C) THEN MapPts(C, LAMBDA p : MatVec(A, p))
                ELSE MapPts(C, LAMBDA p : [i \in 1 .. Len(p) |-> MatVec(A, p \o <<F1>>)[i]])
Coord(C, axis) == [k \in 1 .. Len(C) |-> <<C[k][axis]>>]          \* the 1-dimensional curve of one coordinate
=============================================================================
