\* C18: every pair of cursor states of two iterators of dimension 3
CONSTANTS N = 3 BAND = 3
SPECIFICATION Spec
INVARIANTS TypeOK EqFacts Emit
CHECK_DEADLOCK FALSE
