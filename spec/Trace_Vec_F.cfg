CONSTANT P = 46337
INIT Init
NEXT Next
POSTCONDITION Accepted
CHECK_DEADLOCK FALSE
