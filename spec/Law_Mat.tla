------------------------------ MODULE Law_Mat ------------------------------
(***************************************************************************)
(* Laws of the matrix part of the specification, checked by TLC ON THE     *)
(* SPECIFICATION (so that the operators used as oracle for the code are    *)
(* known to be the linear-algebra product / determinant / inverse):        *)
(*  - exhaustively over every triple of N x N matrices, vector and scalar  *)
(*    of the field Z_P for small P (Law_Mat_2x2_P2/P3 ...), and            *)
(*  - on K random operand tuples over Z_46337 for the sizes whose operand  *)
(*    space is too large to enumerate (MODE = "random"), and               *)
(*  - as POLYNOMIAL IDENTITIES on free symbols (MODE = "sym", P = PPoly):  *)
(*    every entry of A, B, C, v and s is a distinct variable of the free   *)
(*    commutative ring, so a law that holds holds for every input in every *)
(*    commutative ring (Law_Mat_*_S.cfg).                                  *)
(* C01: identity neutral, associativity, (AB)^T = B^T A^T, v*M = M^T*v,    *)
(*      bilinearity, compatibility with scalars, layout independence,      *)
(*      the 2x2 adjugate identities behind the Vec4 helpers.               *)
(* C06: det is transpose-invariant and multiplicative, A*adj(A) = adj(A)*A *)
(*      = det(A)*I, the inverse is two-sided whenever det # 0, the rigid   *)
(*      inverse formula inverts [R|t] whenever R R^T = I.                  *)
(***************************************************************************)
EXTENDS VekMat, TLC
CONSTANTS N, MODE, K
VARIABLES A, B, C, v, s, k

Ms == [1 .. N -> [1 .. N -> FSet]]
Vs == [1 .. N -> FSet]
RandV == [i \in 1 .. N |-> RandomElement(FSet)]
RandM == [i \in 1 .. N |-> RandV]
\* a matrix of distinct variables (numbered after `off`); the scalar and the vector get the smallest primes
\* because they reach the highest degrees (VekPoly codes a monomial as a product of primes, 32-bit)
SymM(off) == [i \in 1 .. N |-> [j \in 1 .. N |-> PVar(off + (i - 1) * N + j)]]
Init == IF MODE = "all"
        THEN A \in Ms /\ B \in Ms /\ C \in Ms /\ v \in Vs /\ s \in FSet /\ k = 0
        ELSE IF MODE = "pairs"
        THEN A \in Ms /\ B \in Ms /\ C = Transp(A) /\ v \in Vs /\ s \in FSet /\ k = 0
        ELSE IF MODE = "sym"
        THEN /\ k = 0 /\ s = PVar(1) /\ v = [i \in 1 .. N |-> PVar(1 + i)]
             /\ A = SymM(1 + N) /\ B = SymM(1 + N + N * N) /\ C = SymM(1 + N + 2 * N * N)
        ELSE k \in 1 .. K /\ A = RandM /\ B = RandM /\ C = RandM /\ v = RandV /\ s = RandomElement(FSet)
Next == UNCHANGED <<A, B, C, v, s, k>>

I == Idn(N)
VScale(u, c) == [i \in 1 .. N |-> FMul(u[i], c)]
VAdd(u, w) == [i \in 1 .. N |-> FAdd(u[i], w[i])]
IdentityNeutral == MatMul(I, A) = A /\ MatMul(A, I) = A /\ MatVec(I, v) = v /\ VecMat(v, I) = v
Associative == MatMul(MatMul(A, B), C) = MatMul(A, MatMul(B, C))
TransposeOfProduct == Transp(MatMul(A, B)) = MatMul(Transp(B), Transp(A))
RowVecIsTranspose == VecMat(v, A) = MatVec(Transp(A), v)
ActionComposes == MatVec(MatMul(A, B), v) = MatVec(A, MatVec(B, v))
Bilinear == /\ MatMul(A, MatAdd(B, C)) = MatAdd(MatMul(A, B), MatMul(A, C))
            /\ MatMul(MatAdd(A, B), C) = MatAdd(MatMul(A, C), MatMul(B, C))
            /\ MatVec(A, VAdd(v, Row(B, 1))) = VAdd(MatVec(A, v), MatVec(A, Row(B, 1)))
ScalarCompat == /\ MatMul(MatScale(A, s), B) = MatScale(MatMul(A, B), s)
                /\ MatVec(A, VScale(v, s)) = VScale(MatVec(A, v), s)
                /\ MatScale(A, s) = MatMul(A, MatScale(I, s))
\* a row-major and a column-major value holding the same abstract matrix store
\* transposed line lists; every abstract operation is layout independent
LayoutUnobservable == /\ AbsLay("r", A) = AbsLay("c", Transp(A))
                      /\ Transp(Transp(A)) = A
                      /\ UnflatRows(N, FlatRows(A)) = A /\ UnflatCols(N, FlatCols(A)) = A
                      /\ FlatCols(A) = FlatRows(Transp(A))
                      /\ Resize(Resize(A, 4), N) = A
Adj2Laws == N = 2 => /\ MatMul(Adj2(A), A) = MatScale(I, Det(A))
                     /\ MatMul(A, Adj2(A)) = MatScale(I, Det(A))
                     /\ Adj2(A) = Adj(A)
                     /\ M2Rows(V4Rows(A)) = A /\ M2Cols(V4Cols(A)) = A
DetLaws == /\ Det(Transp(A)) = Det(A)
           /\ Det(MatMul(A, B)) = FMul(Det(A), Det(B))
           /\ Det(I) = F1
           /\ Det(MatScale(A, s)) = FMul(FPow(s, N), Det(A))
AdjLaws == /\ MatMul(A, Adj(A)) = MatScale(I, Det(A))
           /\ MatMul(Adj(A), A) = MatScale(I, Det(A))
InverseLaws == Det(A) # F0 => /\ MatMul(A, Inv(A)) = I /\ MatMul(Inv(A), A) = I
                              /\ Det(Inv(A)) = FInv(Det(A))
Laws == IdentityNeutral /\ Associative /\ TransposeOfProduct /\ RowVecIsTranspose /\ ActionComposes
        /\ Bilinear /\ ScalarCompat /\ LayoutUnobservable /\ Adj2Laws /\ DetLaws /\ AdjLaws /\ InverseLaws
\* the laws that are identities of the free commutative ring (no division, no case distinction); the product
\* rule of the determinant has degree 2N in 2N^2 variables and fits TLC's integers for N = 2 only
DetSym == /\ Det(Transp(A)) = Det(A) /\ Det(I) = F1
          /\ Det(MatScale(A, s)) = FMul(FPow(s, N), Det(A))
          /\ (N = 2 => Det(MatMul(A, B)) = FMul(Det(A), Det(B)))
\* sanity of the symbolic lane itself: on free symbols the product is visibly NOT commutative and a matrix
\* differs from its transpose, so "=" between polynomial matrices is not vacuously true
SymDistinguishes == MatMul(A, B) # MatMul(B, A) /\ Transp(A) # A /\ Det(A) # Det(B) /\ FAdd(A[1][1], A[1][1]) # A[1][1]
SymLaws == SymDistinguishes /\ IdentityNeutral /\ Associative /\ TransposeOfProduct /\ RowVecIsTranspose /\ ActionComposes
           /\ Bilinear /\ ScalarCompat /\ LayoutUnobservable /\ Adj2Laws /\ DetSym /\ AdjLaws
\* vacuity guard: the antecedent of InverseLaws must hold somewhere (checked by the driver
\* through the evaluation count of this state function)
Invertible == Det(A) # F0
=============================================================================
