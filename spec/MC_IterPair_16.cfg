\* C18: pairs of cursor states of two iterators of dimension 16 whose cursors differ by at most BAND
CONSTANTS N = 16 BAND = 1
SPECIFICATION Spec
CONSTRAINT Band
INVARIANTS TypeOK EqFacts Emit
CHECK_DEADLOCK FALSE
