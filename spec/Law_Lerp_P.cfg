CONSTANTS P = 46337
  K = 100
INIT Init
NEXT Next
INVARIANTS FastIsPrecise Endpoints Affine Extrapolates SlerpLaw
CHECK_DEADLOCK FALSE
