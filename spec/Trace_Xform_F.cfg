\* field lane: exact rationals logged as residues in Z_46337
CONSTANT P = 46337
INIT Init
NEXT Next
POSTCONDITION Accepted
CHECK_DEADLOCK FALSE
