\* float lane: integer control points, lengths scaled by 256
CONSTANT P = 0
INIT Init
NEXT Next
POSTCONDITION Accepted
CHECK_DEADLOCK FALSE
