------------------------------ MODULE VekIter ------------------------------
(***************************************************************************)
(* Ownership machine of vek's consuming iterator `IntoIter<T>` (C18).      *)
(* Anchors: src/vec.rs  IntoIter { vector: CVec<ManuallyDrop<T>>, start,   *)
(* end }, impl Iterator / DoubleEndedIterator / ExactSizeIterator / Drop,  *)
(* and the Debug / PartialEq / Hash implementations of IntoIter.           *)
(*                                                                         *)
(* Abstract state: N slots, each "live" (owned by the iterator),           *)
(* "yielded" (moved out to the caller) or "dropped" (destroyed by the      *)
(* iterator's Drop); two cursors; whether the iterator still exists.       *)
(* One action per public call; `ret` is what the call returns and `reads`  *)
(* the set of slots the call read (observed by an ownership-tracking       *)
(* element type in the harness).                                           *)
(***************************************************************************)
EXTENDS Integers, FiniteSets
CONSTANT N
VARIABLES start, end, alive, slot, ret, reads

vars == <<start, end, alive, slot, ret, reads>>
Slots == 1 .. N
Live == {i \in Slots : slot[i] = "live"}

Init == /\ start = 0 /\ end = N /\ alive = TRUE
        /\ slot = [i \in Slots |-> "live"]
        /\ ret = <<"into_iter", N>> /\ reads = {}

\* next(): moves out the element at the front cursor        | src/vec.rs next
NextSome == /\ alive /\ start < end
            /\ ret' = <<"some", start + 1>>
            /\ slot' = [slot EXCEPT ![start + 1] = "yielded"]
            /\ start' = start + 1 /\ reads' = {}
            /\ UNCHANGED <<end, alive>>
NextNone == /\ alive /\ start = end
            /\ ret' = <<"none", 0>> /\ reads' = {}
            /\ UNCHANGED <<start, end, alive, slot>>
\* next_back(): moves out the element before the back cursor | src/vec.rs next_back
BackSome == /\ alive /\ start < end
            /\ ret' = <<"some", end>>
            /\ slot' = [slot EXCEPT ![end] = "yielded"]
            /\ end' = end - 1 /\ reads' = {}
            /\ UNCHANGED <<start, alive>>
BackNone == /\ alive /\ start = end
            /\ ret' = <<"none", 0>> /\ reads' = {}
            /\ UNCHANGED <<start, end, alive, slot>>
\* len() and size_hint() report the remaining count          | src/vec.rs len/size_hint
Len == /\ alive /\ ret' = <<"len", end - start>> /\ reads' = {}
       /\ UNCHANGED <<start, end, alive, slot>>
\* what the property demands of formatting / comparison / hashing: they may read
\* live elements only
ObserveLive == /\ alive /\ ret' = <<"observe", 0>> /\ reads' = Live
               /\ UNCHANGED <<start, end, alive, slot>>
\* what #[derive(Debug, Hash, PartialEq)] over all slots does (defect D8): named
\* deviation, not part of Next; used by MC_IterDerived.cfg only
ObserveDerived == /\ alive /\ ret' = <<"observe", 0>> /\ reads' = Slots
                  /\ UNCHANGED <<start, end, alive, slot>>
\* dropping the iterator destroys exactly the elements it still owns | src/vec.rs Drop
Drop == /\ alive /\ alive' = FALSE
        /\ slot' = [i \in Slots |-> IF slot[i] = "live" THEN "dropped" ELSE slot[i]]
        /\ ret' = <<"drop", Cardinality(Live)>> /\ reads' = {}
        /\ UNCHANGED <<start, end>>

Next == NextSome \/ NextNone \/ BackSome \/ BackNone \/ Len \/ ObserveLive \/ Drop
NextDerived == Next \/ ObserveDerived
Spec == Init /\ [][Next]_vars

\* ---- properties (C18) ----------------------------------------------------
TypeOK == /\ start \in 0 .. N /\ end \in 0 .. N /\ start <= end
          /\ slot \in [Slots -> {"live", "yielded", "dropped"}]
\* the live elements are exactly the window between the cursors
LiveIsWindow == alive => \A i \in Slots : (slot[i] = "live") <=> (start < i /\ i <= end)
\* no operation reads an element that was already yielded (or dropped)
NoReadOfMoved == reads \subseteq Live
\* length reports match the remaining count
LenOk == (ret[1] = "len") => ret[2] = Cardinality(Live)
\* after the iterator is gone every element was yielded or dropped - exactly once by
\* construction of `slot` (a slot has one status), so: none is still live (no leak)
NoLeak == ~alive => \A i \in Slots : slot[i] \in {"yielded", "dropped"}
\* a yielded element is never destroyed by the iterator as well, and vice versa
ExactlyOnce == [][\A i \in Slots : slot[i] # "live" => slot'[i] = slot[i]]_vars
\* front pulls ascend, back pulls descend, and they never cross
Order == [][(ret'[1] = "some" /\ start' # start) => ret'[2] = start + 1]_vars
=============================================================================
