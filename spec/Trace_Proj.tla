----------------------------- MODULE Trace_Proj -----------------------------
(***************************************************************************)
(* Trace validation (binding B2, code -> spec) for projection matrices     *)
(* (C08) and viewport projection / unprojection / picking (C10).  Every    *)
(* record is one call of the real vek code (`vh drive proj|viewport`).     *)
(* A recorded projection matrix must EQUAL the specification's formula and *)
(* is additionally tested directly against the axioms of the statement     *)
(* (corners of the view volume -> corners of the clip volume, w = +-z).    *)
(***************************************************************************)
EXTENDS VekProj, TLC, Json, IOUtils
Rec == ndJsonDeserialize(IOEnv.TRACE)
VARIABLE l

TanHalf(e) == LET cs == TokenCS(e.b, e.hk) IN FDiv(cs[2], cs[1])
Expected(e) ==
    CASE e.op = "ortho_xy" -> OrthoXY(e.o)
      [] e.op = "ortho" -> Ortho(e.o, e.hand, e.depth)
      [] e.op = "frustum" -> Frustum(e.o, e.hand, e.depth)
      [] e.op = "persp" -> Perspective(TanHalf(e), e.aspect, e.n, e.f, e.hand, e.depth)
      [] e.op = "persp_fov" -> PerspectiveFov(TanHalf(e), e.width, e.height, e.n, e.f, e.hand, e.depth)
      [] e.op = "inf_persp" -> InfinitePerspective(TanHalf(e), e.aspect, e.n, e.eps, e.hand)
      [] e.op = "project" -> Project(e.p, e.mv, e.proj, e.vp, e.depth)
      [] e.op = "unproject" -> Unproject(e.p, e.mv, e.proj, e.vp, e.depth)
      [] e.op = "roundtrip" -> e.p
      [] e.op = "pick" -> PickMatrix(e.c, e.d, e.vp)
Axioms(e) ==
    CASE e.op = "ortho" -> OrthoAxioms(e.obs, e.o, e.hand, e.depth)
      [] e.op = "frustum" -> FrustumAxioms(e.obs, e.o, e.hand, e.depth)
      [] e.op = "persp" -> FrustumAxioms(e.obs, SymPlanes(TanHalf(e), e.aspect, e.n, e.f), e.hand, e.depth)
      [] e.op = "persp_fov" -> FrustumAxioms(e.obs, SymPlanes(TanHalf(e), FDiv(e.width, e.height), e.n, e.f), e.hand, e.depth)
      [] e.op = "inf_persp" -> InfiniteAxioms(e.obs, SymPlanes(TanHalf(e), e.aspect, e.n, e.n), e.eps, e.hand)
      [] e.op = "pick" -> PickAxioms(e.obs, e.c, e.d, e.vp)
      \* unprojecting and projecting again (on the specification) gives the window point back
      [] e.op = "unproject" -> Project(e.obs, e.mv, e.proj, e.vp, e.depth) = e.p
      [] OTHER -> TRUE
Conforms(e) == e.pan = 0 /\ e.obs = Expected(e) /\ Axioms(e)

Init == l = 1
Step(name) ==
    /\ l <= Len(Rec) /\ Rec[l].op = name
    /\ IF Conforms(Rec[l]) THEN TRUE
       ELSE PrintT(ToJson([tag |-> "MISMATCH", l |-> l, exp |-> Expected(Rec[l]), axioms |-> Axioms(Rec[l])]))
    /\ l' = l + 1
OrthoXYA == Step("ortho_xy")
OrthoA == Step("ortho")
FrustumA == Step("frustum")
Persp == Step("persp")
PerspFov == Step("persp_fov")
InfPersp == Step("inf_persp")
ProjectA == Step("project")
UnprojectA == Step("unproject")
RoundTripA == Step("roundtrip")
Pick == Step("pick")
Next == OrthoXYA \/ OrthoA \/ FrustumA \/ Persp \/ PerspFov \/ InfPersp \/ ProjectA \/ UnprojectA \/ RoundTripA \/ Pick

Accepted == IF TLCGet("stats").diameter - 1 = Len(Rec) THEN TRUE
            ELSE PrintT(ToJson([tag |-> "REJECTED_AT", l |-> TLCGet("stats").diameter])) /\ FALSE
=============================================================================
