\* symbolic lane: records hold polynomials over free symbols (VekPoly)
CONSTANT P <- PPoly
INIT Init
NEXT Next
POSTCONDITION Accepted
CHECK_DEADLOCK FALSE
