----------------------------- MODULE Law_Bezier -----------------------------
(***************************************************************************)
(* Laws of the Bezier part of the specification (C14), checked by TLC on K *)
(* random tuples over Z_46337 (control points, parameters t and u free, so *)
(* extrapolation outside [0,1] is included): Bernstein evaluation equals   *)
(* de Casteljau and the power-basis (matrix) form, the derivative operator *)
(* is the formal derivative, the split halves re-parametrise the curve,    *)
(* elevation / reversal / segment conversion / matrix action preserve the  *)
(* curve as a function of t.                                               *)
(***************************************************************************)
EXTENDS VekBezier, TLC
CONSTANTS K
VARIABLES k, r
Init == k \in 1 .. K /\ r = [i \in 1 .. 40 |-> RandomElement(0 .. (P - 1))]
Next == UNCHANGED <<k, r>>
Pt(i, d) == [j \in 1 .. d |-> r[3 * (i - 1) + j]]
Curve(n, d) == [i \in 1 .. (n + 1) |-> Pt(i, d)]
t == r[20]
u == r[21]
A3 == [i \in 1 .. 3 |-> [j \in 1 .. 3 |-> r[21 + 3 * (i - 1) + j]]]
A4 == [i \in 1 .. 3 |-> [j \in 1 .. 4 |-> r[21 + 4 * (i - 1) + j]]] \o << <<F0, F0, F0, F1>> >>
Cs == {Curve(2, 2), Curve(2, 3), Curve(3, 2), Curve(3, 3)}
Forms == \A C \in Cs : /\ Eval(C, t) = Casteljau(C, t) /\ Eval(C, t) = EvalPower(C, t)
                       /\ Eval(C, F0) = C[1] /\ Eval(C, F1) = C[Len(C)]
DerivLaw == \A C \in Cs : /\ Deriv(C, t) = DerivPower(C, t)
                          \* the formal derivative: f(t+u) - f(t) - u f'(t) is divisible by u^2 with quotient ...
                          \* checked through the exact Taylor expansion of a cubic/quadratic in the power basis
                          /\ LET c == PowerCoefs(C)
                                 second == IF Len(C) = 3 THEN c[3]
                                           ELSE VAdd(c[3], VScale(c[4], FAdd(FMul(FI(3), t), u)))
                             IN VSub(VSub(Eval(C, FAdd(t, u)), Eval(C, t)), VScale(Deriv(C, t), u)) = VScale(second, FSq(u))
SplitLaw == \A C \in Cs : /\ Eval(SplitFirst(C, t), u) = Eval(C, FMul(t, u))
                          /\ Eval(SplitSecond(C, t), u) = Eval(C, FAdd(t, FMul(FSub(F1, t), u)))
                          /\ SplitFirst(C, t)[Len(C)] = Eval(C, t) /\ SplitSecond(C, t)[1] = Eval(C, t)
                          /\ SplitFirst(C, t)[1] = C[1] /\ SplitSecond(C, t)[Len(C)] = C[Len(C)]
ConvLaw == /\ \A C \in {Curve(2, 2), Curve(2, 3)} : Eval(Elevate(C), t) = Eval(C, t)
           /\ \A C \in Cs : Eval(Reversed(C), t) = Eval(C, FSub(F1, t))
           /\ \A n \in {2, 3} : Eval(FromSegment(n, Pt(1, 3), Pt(2, 3)), t) = PLerp(Pt(1, 3), Pt(2, 3), t)
           /\ \A C \in {Curve(2, 3), Curve(3, 3)} : /\ Eval(BezMul(A3, C), t) = MatVec(A3, Eval(C, t))
                                                     /\ Eval(BezMul(A4, C), t) = XYZ(MatVec(A4, Point4(Eval(C, t))))
                                                     /\ Eval(Flip(C, 2), t) = [Eval(C, t) EXCEPT ![2] = FNeg(Eval(C, t)[2])]
=============================================================================
