\* D8 witness: with the derived Debug/Hash/PartialEq (reads every slot) NoReadOfMoved fails. EXPECTED TO FAIL.
CONSTANT N = 4
SPECIFICATION SpecDerived
INVARIANTS NoReadOfMoved
CHECK_DEADLOCK FALSE
