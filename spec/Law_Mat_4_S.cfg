\* the laws as polynomial identities: every entry a distinct free symbol (one state)
CONSTANTS P <- PPoly
  N = 4
  MODE = "sym"
  K = 1
INIT Init
NEXT Next
INVARIANT SymLaws
CHECK_DEADLOCK FALSE
