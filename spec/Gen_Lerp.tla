------------------------------ MODULE Gen_Lerp ------------------------------
(***************************************************************************)
(* Table emitter (binding B3, spec -> code) for the integer Lerp           *)
(* implementations (C12).  For one 8-bit signedness, prints for each       *)
(* `from` of the selected set and each factor tn/8 (tn in -8..16, i.e.     *)
(* factors -1 .. 2 in steps of 1/8, all exactly representable in f32/f64)  *)
(* the declarative result LerpInt(from, to, tn/8) = the real interpolation *)
(* rounded to nearest, ties away from zero, for EVERY `to` of the type:    *)
(*   {"from":..,"tn":..,"v":[LerpInt(from, ZMin, t) .. LerpInt(from, ZMax, t)]} *)
(* The Rust replayer (vh replay lerp) runs the four real implementations   *)
(* (fast/precise x f32/f64 factor), the clamped forms, and scaled copies   *)
(* for the wider integer types on every entry whose result fits the type.  *)
(* Environment: SIGNED=0|1, FROMS="a,b,c"|"all".                           *)
(***************************************************************************)
EXTENDS VekOps, TLC, Json, IOUtils
VARIABLES from, tn
SIGNED == IOEnv.SIGNED = "1"
T == ZRange(8, SIGNED)
RECURSIVE SplitInts(_, _, _)
SplitInts(s, i, acc) ==
    IF i > Len(s) THEN acc
    ELSE LET j == CHOOSE k \in i .. (Len(s) + 1) :
                     (k = Len(s) + 1 \/ SubSeq(s, k, k) = ",") /\
                     \A m \in i .. (k - 1) : SubSeq(s, m, m) # ","
         IN SplitInts(s, j + 1, acc \cup {atoi(SubSeq(s, i, j - 1))})
Froms == IF IOEnv.FROMS = "all" THEN T ELSE SplitInts(IOEnv.FROMS, 1, {})
Row == [from |-> from, tn |-> tn,
        v |-> [i \in 1 .. 256 |-> LerpInt(from, ZMin(8, SIGNED) + i - 1, QF(tn, 8))]]
Init == from \in Froms /\ tn \in -8 .. 16
Next == UNCHANGED <<from, tn>>
Emit == PrintT(ToJson(Row))
=============================================================================
