----------------------------- MODULE VekMatProg -----------------------------
(***************************************************************************)
(* The matrix-API machine of C03.  One register holds an ABSTRACT square   *)
(* matrix (rows of elements, M[i][j] = row i, column j - no layout).  Each *)
(* call of the layout-agnostic API is a function on that abstract value;   *)
(* the real row-major and column-major types are two refinements of it     *)
(* (abstraction function VekMat!AbsLay), so any sequence of these calls    *)
(* must yield the same abstract matrix from both.                          *)
(* A call is a record [c |-> name, arg |-> integer].                       *)
(* C03 | src/mat.rs new, Index/IndexMut, transposed/transpose, diagonal,   *)
(*       with_diagonal, broadcast_diagonal, trace, map/map2/apply/apply2,  *)
(*       as_/numcast, From between layouts and sizes, into/from row/col    *)
(*       array(s), as_(mut_)row/col_slice, as_(mut_)row/col_ptr, is_packed, gl_should_transpose, Display,   *)
(*       Default/identity/zero                                             *)
(***************************************************************************)
EXTENDS VekMat

Symbols(n) == [i \in 1 .. n |-> [j \in 1 .. n |-> FI(10 * i + j)]]
SetAtM(M, i, j, x) == [r \in 1 .. Len(M) |-> [c \in 1 .. Len(M) |-> IF r = i /\ c = j THEN x ELSE M[r][c]]]
Apply(M, call) ==
    LET n == Len(M)  c == call.c IN
    CASE c \in {"transposed", "transpose", "rc", "cr", "RC", "CR"} -> Transp(M)
      \* into_X_array then from_X_array, layout conversion, lossless casts, out to and back from the interoperability
      \* (mint) row / column matrix: the same abstract matrix
      [] c \in {"convert_layout", "rr", "cc", "RR", "CC", "as", "numcast", "mint_r", "mint_c"} -> M
      [] c = "resize" -> Resize(M, call.arg)
      [] c = "identity" -> Idn(n)
      [] c = "zero" -> ZeroM(n)
      [] c = "with_diagonal" -> WithDiag(Diag(M))
      [] c = "broadcast_trace" -> WithDiag([i \in 1 .. n |-> TraceM(M)])
      [] c \in {"map", "apply"} -> MapM(M, LAMBDA x : FAdd(x, FI(1000)))
      [] c \in {"map2", "apply2"} -> Map2M(M, Transp(M), FSub)
      \* m[(i, j)] = m[(j, i)] + 500 with i = (arg div 10) mod n, j = (arg mod 10) mod n (0-based)
      [] c = "set" -> LET i == ((call.arg \div 10) % n) + 1  j == ((call.arg % 10) % n) + 1
                      IN SetAtM(M, i, j, FAdd(M[j][i], FI(500)))
      \* writing 777 through the mutable flat view at the position of element (row 0, column 1)
      [] c = "slice_write" -> SetAtM(M, 1, 2, FI(777))
      \* writing 888 through the raw mutable pointer at the position of element (row 1, column 0)
      [] c = "ptr_write" -> SetAtM(M, 2, 1, FI(888))
RECURSIVE Run(_, _, _)
Run(M, calls, k) == IF k = 0 THEN M ELSE ForceM(Apply(Run(M, calls, k - 1), calls[k]))

(* The two refinements: what each call does to the STORED lines (rows of   *)
(* the row-major value, columns of the column-major one).                  *)
OtherLay(lay) == IF lay = "r" THEN "c" ELSE "r"
ConcApply(lay, lines, call) ==      \* returns <<lay', lines'>>
    LET n == Len(lines)  c == call.c  A == AbsLay(lay, lines)
        store(lay2, X) == <<lay2, IF lay2 = "r" THEN X ELSE Transp(X)>>
    IN CASE c \in {"transposed", "transpose"} -> <<lay, Transp(lines)>>                       \* transposing the stored lines
         [] c = "convert_layout" -> <<OtherLay(lay), Transp(lines)>>                          \* same matrix, other storage
         [] c = "rr" -> store(lay, UnflatRows(n, FlatRows(A)))
         [] c = "cc" -> store(lay, UnflatCols(n, FlatCols(A)))
         [] c = "rc" -> store(lay, UnflatCols(n, FlatRows(A)))
         [] c = "cr" -> store(lay, UnflatRows(n, FlatCols(A)))
         [] c = "slice_write" -> IF lay = "r" THEN <<lay, SetAtM(lines, 1, 2, FI(777))>> ELSE <<lay, SetAtM(lines, 2, 1, FI(777))>>
         [] c = "ptr_write" -> IF lay = "r" THEN <<lay, SetAtM(lines, 2, 1, FI(888))>> ELSE <<lay, SetAtM(lines, 1, 2, FI(888))>>
         [] OTHER -> store(lay, Apply(A, call))
=============================================================================
