---------------------------- MODULE Trace_Spatial ----------------------------
(***************************************************************************)
(* Trace validation (binding B2, code -> spec) for the spatial vector      *)
(* functions (C11), over the ordered field of exact rationals (P = -1,     *)
(* values are pairs <<n, d>>).  Algebraic results are recomputed; square   *)
(* roots returned by the code (magnitude, distance, the factor inside      *)
(* normalised vectors) are validated by what they must satisfy; angles are *)
(* tokens whose cosine and sine this module recomputes.                    *)
(***************************************************************************)
EXTENDS VekLerp, TLC, Json, IOUtils
Rec == DecodeTrace(ndJsonDeserialize(IOEnv.TRACE))
VARIABLE l

IsRootOf(m, sq) == FSq(m) = sq /\ FLe(F0, m)
RECURSIVE CSList(_, _)
CSList(toks, i) == IF i = 0 THEN <<F1, F0>> ELSE AngAdd(CSList(toks, i - 1), IF toks[i][1] = 0 THEN QuarterCS(toks[i][2]) ELSE TokenCS(toks[i][1], toks[i][2]))
Eps4 == <<1, 268435456>>      \* the harness' exact lane has epsilon 2^-40 - far below anything generated here
Expected(e) ==
    CASE e.op = "v_dot" -> Dot(e.a, e.b)
      [] e.op = "v_mag2" -> Norm2(e.a)
      [] e.op = "v_dist2" -> Norm2(VSub(e.a, e.b))
      [] e.op = "v_reflect" -> Reflect(e.a, e.n)
      [] e.op = "v_cross" -> Cross3(e.a, e.b)
      [] e.op = "v_side" -> (CASE e.how = "determine_side" -> DetermineSide(e.c, e.a, e.b)
                               [] e.how = "signed_triangle_area" -> FDiv(DetermineSide(e.c, e.a, e.b), F2)
                               [] e.how = "triangle_area" -> FAbs(FDiv(DetermineSide(e.c, e.a, e.b), F2)))
      [] e.op = "v_homog" -> (CASE e.how \in {"homogenized", "homogenize"} -> Homogenized(e.a)
                                [] e.how = "is_point" -> IF e.a[4] = F1 THEN 1 ELSE 0
                                [] e.how = "is_direction" -> IF e.a[4] = F0 THEN 1 ELSE 0
                                [] e.how = "is_homogeneous" -> IF e.a[4] \in {F0, F1} THEN 1 ELSE 0)
      [] e.op = "v_face" -> IF FLe(Dot(e.r, e.i), F0) THEN e.a ELSE VNeg(e.a)
      [] e.op = "v_pred" -> (CASE e.how = "is_normalized" -> IF Norm2(e.a) = F1 THEN 1 ELSE 0
                               [] e.how = "is_approx_zero" -> IF Norm2(e.a) = F0 THEN 1 ELSE 0
                               [] e.how = "is_magnitude_close_to" -> IF Norm2(e.a) = FSq(e.x) THEN 1 ELSE 0)
      [] e.op = "v_refract" -> IF FLt(RefractK(e.i, e.n, e.eta), F0) THEN VZero(Len(e.i)) ELSE Refract(e.i, e.n, e.eta, e.rootk)
      [] e.op = "v_try" -> IF e.class = "zero" THEN -1 ELSE IF e.class = "normal" THEN 1 ELSE e.obs
      [] e.op = "v_slerp" -> LET j == IF e.clamped = 1 THEN ClampFrac(e.t[1], e.t[2]) ELSE e.t[1]
                                 cs == TokenCS(e.b, j)
                                 tq == FDiv(FI(j), FI(e.t[2]))
                                 dir == MatVec(Rodrigues(cs[1], cs[2], e.axis), VScale(e.from, FInv(e.fl)))
                             IN VScale(dir, LerpFast(e.fl, FMul(e.fl, e.mu), tq))
AxiomOps == {"v_mag", "v_norm", "v_angle", "v_angle_f", "v_side_i"}
PI16 == 205887      \* round(pi * 2^16)
Axioms(e) ==
    CASE e.op = "v_mag" -> IsRootOf(e.obs, Norm2(e.a))
      \* normalisation: a parallel vector of unit length (v = obs.v * obs.m, m the positive magnitude); refused only for zero
      [] e.op = "v_norm" -> IF e.obs.v = <<>> THEN Norm2(e.a) = F0
                            ELSE IsRootOf(e.obs.m, Norm2(e.a)) /\ e.obs.m # F0 /\ VScale(e.obs.v, e.obs.m) = e.a /\ Norm2(e.obs.v) = F1
      \* the angle in [0, pi] whose cosine is a.b / (|a| |b|): checked without division by the magnitudes
      [] e.op = "v_angle" -> IF e.deg = 1
                             THEN LET dt == Dot(e.a, e.b) IN
                                  IF dt = F0 THEN e.obs = FI(90)
                                  ELSE /\ FSq(dt) = FMul(Norm2(e.a), Norm2(e.b)) /\ e.obs = (IF FLt(F0, dt) THEN FI(0) ELSE FI(180))
                             ELSE LET cs == CSList(e.obs, Len(e.obs)) IN
                                  /\ FLe(F0, cs[2])
                                  /\ FMul(FSq(cs[1]), FMul(Norm2(e.a), Norm2(e.b))) = FSq(Dot(e.a, e.b))
                                  /\ FSgn(cs[1]) = FSgn(Dot(e.a, e.b))
      \* floats: the angle between e1 and the direction at `eighths` * 45 degrees, whatever the common length of the two
      \* vectors (plain integers: round(angle * 2^16), -1 = not finite)
      [] e.op = "v_angle_f" -> e.obs >= 0 /\ e.obs - (e.eighths * PI16) \div 4 \in -64 .. 64
      \* integer element types (plain integers): the side test is the exact 2D cross product; the areas are half of it - exact
      \* whenever that half is an integer (halving the two products separately loses it), within one half otherwise
      [] e.op = "v_side_i" -> LET tw == (e.b[1] - e.a[1]) * (e.c[2] - e.a[2]) - (e.b[2] - e.a[2]) * (e.c[1] - e.a[1])
                                  at == IF tw < 0 THEN 0 - tw ELSE tw IN
                              (CASE e.how = "determine_side" -> e.obs = tw
                                 [] e.how = "signed_triangle_area" -> (tw % 2 = 0 => 2 * e.obs = tw) /\ 2 * e.obs - tw \in -1 .. 1
                                 [] e.how = "triangle_area" -> (at % 2 = 0 => 2 * e.obs = at) /\ 2 * e.obs - at \in -1 .. 1)
      \* preconditions of the constructive records
      [] e.op = "v_refract" -> Norm2(e.i) = F1 /\ Norm2(e.n) = F1 /\ FLe(F0, e.rootk)
                               /\ (FLe(F0, RefractK(e.i, e.n, e.eta)) => FSq(e.rootk) = RefractK(e.i, e.n, e.eta))
      [] e.op = "v_slerp" -> /\ IsRootOf(e.fl, Norm2(e.from)) /\ Norm2(e.axis) = F1 /\ Dot(e.axis, e.from) = F0 /\ FLt(F0, e.mu)
                             /\ LET cs == TokenCS(e.b, e.k) IN e.to = VScale(MatVec(Rodrigues(cs[1], cs[2], e.axis), e.from), e.mu)
      [] e.op = "v_reflect" -> e.unit = 1 => Norm2(e.n) = F1 /\ Norm2(e.obs) = Norm2(e.a)
      [] OTHER -> TRUE
Conforms(e) == e.pan = 0 /\ (e.op \in AxiomOps \/ e.obs = Expected(e)) /\ Axioms(e)

Init == l = 1
Step(name) ==
    /\ l <= Len(Rec) /\ Rec[l].op = name
    /\ IF Conforms(Rec[l]) THEN TRUE
       ELSE PrintT(ToJson([tag |-> "MISMATCH", l |-> l, exp |-> IF name \in AxiomOps THEN 0 ELSE Expected(Rec[l])]))
    /\ l' = l + 1
VDot == Step("v_dot")
VMag2 == Step("v_mag2")
VDist2 == Step("v_dist2")
VReflect == Step("v_reflect")
VCross == Step("v_cross")
VSide == Step("v_side")
VSideI == Step("v_side_i")
VHomog == Step("v_homog")
VFace == Step("v_face")
VPred == Step("v_pred")
VRefract == Step("v_refract")
VTry == Step("v_try")
VSlerp == Step("v_slerp")
VMag == Step("v_mag")
VNorm == Step("v_norm")
VAngle == Step("v_angle")
VAngleF == Step("v_angle_f")
Next == VAngleF \/ VSideI \/ VDot \/ VMag2 \/ VDist2 \/ VReflect \/ VCross \/ VSide \/ VHomog \/ VFace \/ VPred \/ VRefract \/ VTry \/ VSlerp
        \/ VMag \/ VNorm \/ VAngle
Accepted == IF TLCGet("stats").diameter - 1 = Len(Rec) THEN TRUE
            ELSE PrintT(ToJson([tag |-> "REJECTED_AT", l |-> TLCGet("stats").diameter])) /\ FALSE
=============================================================================
