CONSTANTS P <- PRational
  K = 100
INIT Init
NEXT Next
INVARIANTS FastIsPrecise Endpoints Affine ClampLaw
CHECK_DEADLOCK FALSE
