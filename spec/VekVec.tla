------------------------------- MODULE VekVec -------------------------------
(***************************************************************************)
(* Vectors of the abstract machine as plain sequences, for the properties  *)
(* that are about WHICH element goes WHERE rather than about arithmetic:   *)
(* element-wise lifting of operators (C02), reductions, comparisons, maps, *)
(* constructors, kind/size conversions, swizzles, shuffles, colour helpers *)
(* (C19) and numeric lifts (C20).                                          *)
(*                                                                         *)
(* Lane Term: an element is an opaque TERM, a flat integer sequence in     *)
(* prefix notation: variable k = <<0, k>>, constant c = <<1, c>> (0 zero,  *)
(* 1 one, 2 default), operation = <<code>> \o args.  The harness runs the  *)
(* real generic code on an element type that builds these terms and obeys  *)
(* no law; "position i is exactly op(a_i, b_i)" is then equality of        *)
(* sequences and holds for every input by parametricity.                   *)
(* C02 | src/vec.rs operator impls, reductions, map/apply/zip, hadd,       *)
(*       constructors, FromIterator, Sum, Product                          *)
(***************************************************************************)
EXTENDS VekNum, Bitwise

TVar(k) == <<0, k>>
TConst(c) == <<1, c>>
TZero == TConst(0)
TOne == TConst(1)
TDefault == TConst(2)
TOp1(code, a) == <<code>> \o a
TOp2(code, a, b) == <<code>> \o a \o b
TOp3(code, a, b, c) == <<code>> \o a \o b \o c
CADD == 10
CF1 == 30
CF2 == 31
CF3 == 32
\* element-wise lifts (sequences of equal length)
Lift1(code, a) == [i \in 1 .. Len(a) |-> TOp1(code, a[i])]
Lift2(code, a, b) == [i \in 1 .. Len(a) |-> TOp2(code, a[i], b[i])]
Lift3(code, a, b, c) == [i \in 1 .. Len(a) |-> TOp3(code, a[i], b[i], c[i])]
\* iota: 0, 0+1, (0+1)+1, ... as the code builds it (i += one)
RECURSIVE IotaT(_)
IotaT(k) == IF k = 0 THEN TZero ELSE TOp2(CADD, IotaT(k - 1), TOne)
\* horizontal add: sums of adjacent pairs of the concatenation a \o b
HAdd(a, b) == LET s == a \o b IN [i \in 1 .. Len(a) |-> TOp2(CADD, s[2 * i - 1], s[2 * i])]
\* the user fold: f(f(f(a1, a2), a3), ...), accumulator first, elements left to right
RECURSIVE FoldLeftT(_, _, _)
FoldLeftT(code, s, k) == IF k = 1 THEN s[1] ELSE TOp2(code, FoldLeftT(code, s, k - 1), s[k])
RECURSIVE Concat(_, _)
Concat(s, i) == IF i > Len(s) THEN <<>> ELSE s[i] \o Concat(s, i + 1)
\* from an iterator / slice with fewer, equally many or more items than elements
FromItems(n, items) == [i \in 1 .. n |-> IF i <= Len(items) THEN items[i] ELSE TDefault]

---------------------------------------------------------------------------
(* C19: conversions between vector kinds and sizes, swizzles, setters,     *)
(* shuffles, colour helpers - all statements about which element goes      *)
(* where.  TFull is the opaque `full()` of a colour component, TLit(k) the *)
(* literal T::from(k).                                                     *)
(* C19 | src/vec.rs From impls between kinds/sizes, with_.., swizzles,     *)
(*       from_point/from_direction, shuffle.., interleave.., ShuffleMask4, *)
(*       colour constructors / helpers                                     *)
TFull == TConst(3)
TLit(k) == TConst(100 + k)
CSUB == 11
CDIV == 13
CNEG == 20
Conv(how, m, input, s) ==
    LET n == Len(input)
        fill == CASE how = "zero" -> TZero [] how = "scalar" -> s [] how = "point" -> TOne [] how = "direction" -> TZero
                  [] how = "opaque" -> TFull [] how = "transparent" -> TZero [] OTHER -> TZero
    IN IF how = "zero_scalar" THEN <<input[1], input[2], TZero, s>>              \* Vec2::with_w
       ELSE [i \in 1 .. m |-> IF i <= n THEN input[i] ELSE fill]                 \* keep / shrink / grow
\* matrix size conversion on opaque elements (cf. VekMat!Resize): keep the common block, identity elsewhere
ResizeT(A, m) == [i \in 1 .. m |-> [j \in 1 .. m |-> IF i <= Len(A) /\ j <= Len(A) THEN A[i][j] ELSE IF i = j THEN TOne ELSE TZero]]
Perm(v, idx) == [i \in 1 .. Len(idx) |-> v[idx[i]]]
SetAt(v, k, s) == [i \in 1 .. Len(v) |-> IF i = k THEN s ELSE v[i]]
Swizzle(how, v, s) ==
    CASE how = "yx" -> Perm(v, <<2, 1>>) [] how = "zyx" -> Perm(v, <<3, 2, 1>>) [] how = "bgr" -> Perm(v, <<3, 2, 1>>)
      [] how = "wxyz" -> Perm(v, <<4, 1, 2, 3>>) [] how = "argb" -> Perm(v, <<4, 1, 2, 3>>)
      [] how = "wzyx" -> Perm(v, <<4, 3, 2, 1>>) [] how = "zyxw" -> Perm(v, <<3, 2, 1, 4>>) [] how = "bgra" -> Perm(v, <<3, 2, 1, 4>>)
      [] how = "with_x" -> SetAt(v, 1, s) [] how = "with_y" -> SetAt(v, 2, s) [] how = "with_z" -> SetAt(v, 3, s) [] how = "with_w" -> SetAt(v, 4, s)
      \* colour helpers: rgb inverted against full(), alpha untouched; average of r, g, b
      [] how = "inverted_rgb" -> [i \in 1 .. Len(v) |-> IF i <= 3 THEN TOp2(CSUB, TFull, v[i]) ELSE v[i]]
      [] how = "inverted_twice" -> [i \in 1 .. Len(v) |-> IF i <= 3 THEN TOp2(CSUB, TFull, TOp2(CSUB, TFull, v[i])) ELSE v[i]]
      [] how = "average_rgb" -> <<TOp2(CDIV, TOp2(CADD, TOp2(CADD, v[1], v[2]), v[3]), TLit(3))>>
      [] how = "gray" -> <<s, s, s>> [] how = "gray4" -> <<s, s, s, TFull>>
\* lanes (lo[a], lo[b], hi[c], hi[d]) with indices taken modulo 4
ShuffleLoHi(lo, hi, idx) == <<lo[(idx[1] % 4) + 1], lo[(idx[2] % 4) + 1], hi[(idx[3] % 4) + 1], hi[(idx[4] % 4) + 1]>>
Shuffle(how, lo, hi, idx) ==
    CASE how = "lo_hi" -> ShuffleLoHi(lo, hi, idx)
      [] how = "self" -> ShuffleLoHi(lo, lo, idx)
      [] how = "s0101" -> Perm(lo, <<1, 2, 1, 2>>) [] how = "s2323" -> Perm(lo, <<3, 4, 3, 4>>)
      [] how = "s0022" -> Perm(lo, <<1, 1, 3, 3>>) [] how = "s1133" -> Perm(lo, <<2, 2, 4, 4>>)
      [] how = "interleave_0011" -> <<lo[1], hi[1], lo[2], hi[2]>> [] how = "interleave_2233" -> <<lo[3], hi[3], lo[4], hi[4]>>
      [] how = "lo_hi_0101" -> <<lo[1], lo[2], hi[1], hi[2]>>
      [] how = "hi_lo_2323" -> <<hi[3], hi[4], lo[3], lo[4]>>      \* (a, b) |-> (b.z, b.w, a.z, a.w)
      [] how = "to_indices" -> [i \in 1 .. 4 |-> idx[i] % 4]
\* named constants: component patterns; "1" is one for unit vectors and full() for colours
TNegOne == TOp1(CNEG, TOne)
Pat(s, one) == [i \in 1 .. Len(s) |-> IF s[i] = 0 THEN TZero ELSE IF s[i] = 1 THEN one ELSE TNegOne]
NamedColor(how, n) ==
    LET rgb == CASE how = "black" -> <<0, 0, 0>> [] how = "white" -> <<1, 1, 1>> [] how = "red" -> <<1, 0, 0>> [] how = "green" -> <<0, 1, 0>>
                 [] how = "blue" -> <<0, 0, 1>> [] how = "cyan" -> <<0, 1, 1>> [] how = "magenta" -> <<1, 0, 1>> [] how = "yellow" -> <<1, 1, 0>>
                 [] how = "zero" -> <<0, 0, 0>>
    IN IF n = 3 THEN Pat(rgb, TFull) ELSE Pat(rgb \o <<IF how = "zero" THEN 0 ELSE 1>>, TFull)     \* named colours are opaque
NamedVec(how, n) ==
    LET base == CASE how \in {"unit_x", "right", "unit_x_point", "right_point"} -> <<1, 0, 0, 0>>
                  [] how \in {"left", "left_point"} -> <<2, 0, 0, 0>>
                  [] how \in {"unit_y", "up", "unit_y_point", "up_point"} -> <<0, 1, 0, 0>>
                  [] how \in {"down", "down_point"} -> <<0, 2, 0, 0>>
                  [] how \in {"unit_z", "forward_lh", "back_rh", "unit_z_point", "forward_point_lh", "back_point_rh"} -> <<0, 0, 1, 0>>
                  [] how \in {"forward_rh", "back_lh", "forward_point_rh", "back_point_lh"} -> <<0, 0, 2, 0>>
                  [] how = "unit_w" -> <<0, 0, 0, 1>>
        isPoint == how \in {"unit_x_point", "right_point", "left_point", "unit_y_point", "up_point", "down_point", "unit_z_point",
                            "forward_point_lh", "back_point_rh", "forward_point_rh", "back_point_lh"}
        v == IF isPoint THEN <<base[1], base[2], base[3], 1>> ELSE base
    IN Pat([i \in 1 .. n |-> v[i]], TOne)
\* full() of the integer colour component types, as decimal strings (64-bit values exceed TLC's integers)
FullStr(bits, signed) == IF bits = 0 THEN "1"
                         ELSE IF signed = 1 THEN (CASE bits = 8 -> "127" [] bits = 16 -> "32767" [] bits = 32 -> "2147483647" [] bits = 64 -> "9223372036854775807")
                         ELSE (CASE bits = 8 -> "255" [] bits = 16 -> "65535" [] bits = 32 -> "4294967295" [] bits = 64 -> "18446744073709551615")

---------------------------------------------------------------------------
(* Integer lane                                                            *)
B2I(b) == IF b THEN 1 ELSE 0
Cmp(which, x, y) == CASE which = "eq" -> x = y [] which = "ne" -> x # y [] which = "ge" -> x >= y
                      [] which = "gt" -> x > y [] which = "le" -> x <= y [] which = "lt" -> x < y
CmpMask(which, a, b) == [i \in 1 .. Len(a) |-> B2I(Cmp(which, a[i], b[i]))]
MinMax(which, a, b) == [i \in 1 .. Len(a) |-> IF which = "min" THEN Min2(a[i], b[i]) ELSE Max2(a[i], b[i])]
RECURSIVE FoldI(_, _, _, _)
FoldI(Op(_, _), s, i, acc) == IF i > Len(s) THEN acc ELSE FoldI(Op, s, i + 1, Op(acc, s[i]))
ReduceI(which, a) ==
    CASE which = "min" -> FoldI(Min2, a, 2, a[1])
      [] which = "max" -> FoldI(Max2, a, 2, a[1])
      [] which = "bitand" -> FoldI(LAMBDA x, y : x & y, a, 2, a[1])
      [] which = "bitor" -> FoldI(LAMBDA x, y : x | y, a, 2, a[1])
      [] which = "bitxor" -> FoldI(LAMBDA x, y : x ^^ y, a, 2, a[1])
      [] which = "and" -> B2I(\A i \in 1 .. Len(a) : a[i] # 0)
      [] which = "or" -> B2I(\E i \in 1 .. Len(a) : a[i] # 0)
      \* reduce_ne of booleans: ((b1 != b2) != b3) ..., a left fold
      [] which = "ne" -> FoldI(LAMBDA x, y : IF x # y THEN 1 ELSE 0, [i \in 1 .. Len(a) |-> IF a[i] # 0 THEN 1 ELSE 0], 2, IF a[1] # 0 THEN 1 ELSE 0)
      [] which = "any_negative" -> B2I(\E i \in 1 .. Len(a) : a[i] < 0)
      [] which = "all_positive" -> B2I(\A i \in 1 .. Len(a) : a[i] > 0)
ArithI(which, a, b) == [i \in 1 .. Len(a) |-> IF which = "add" THEN a[i] + b[i] ELSE a[i] * b[i]]
---------------------------------------------------------------------------
(* C19, feature `image`: the image::Pixel implementation of Rgb / Rgba on  *)
(* integer component types (values, ring P = 0).  a = the pixel's channels *)
(* (3 or 4), b = six further values (second pixel / slice / arguments),    *)
(* full = ColorComponent::full() of the component type.  The user maps of  *)
(* the records are f(x) = x + 1, g(x) = x + 2 (alpha), f2(x, y) = x + 2y.  *)
(* C19 | src/vec.rs vec_impl_pixel_rgb / vec_impl_pixel_rgba               *)
PixelExp(how, a, b, full) ==
    LET n == Len(a)
        rgb == <<a[1], a[2], a[3]>>
        bgr == <<a[3], a[2], a[1]>>
        alpha == IF n = 4 THEN a[4] ELSE full                       \* an Rgb pixel is opaque
        luma == (a[1] + a[2] + a[3]) \div 3                          \* in the component type; no overflow by construction
        view(v) == [v |-> v, ok |-> 1]                              \* a view of the pixel's / slice's own storage
    IN CASE how \in {"channels", "channels_mut"} -> view(a)
         [] how = "channels4" -> rgb \o <<alpha>>
         [] how = "from_channels" -> SubSeq(b, 1, n)                 \* the fourth argument is ignored by Rgb
         [] how \in {"from_slice", "from_slice_mut"} -> view(SubSeq(b, 1, n))
         [] how = "to_rgb" -> rgb
         [] how = "to_rgba" -> rgb \o <<alpha>>
         [] how = "to_bgr" -> bgr
         [] how = "to_bgra" -> bgr \o <<alpha>>
         [] how = "to_luma" -> <<luma>>
         [] how = "to_luma_alpha" -> <<luma, alpha>>
         [] how = "map" -> [i \in 1 .. n |-> a[i] + 1]
         [] how = "map_with_alpha" -> [i \in 1 .. n |-> IF i = 4 THEN a[i] + 2 ELSE a[i] + 1]
         [] how = "map2" -> [i \in 1 .. n |-> a[i] + 2 * b[i]]
         [] how = "invert" -> [i \in 1 .. n |-> IF i = 4 THEN a[i] ELSE full - a[i]]       \* alpha kept
         [] how = "blend" -> [i \in 1 .. n |-> (a[i] + b[i] + 1) \div 2]                   \* mean, halves rounded up
         [] how = "consts" -> <<n, n, 1>>                            \* CHANNEL_COUNT, length and spelling of COLOR_MODEL
=============================================================================
