------------------------------- MODULE VekVec -------------------------------
(***************************************************************************)
(* Vectors of the abstract machine as plain sequences, for the properties  *)
(* that are about WHICH element goes WHERE rather than about arithmetic:   *)
(* element-wise lifting of operators (C02), reductions, comparisons, maps, *)
(* constructors, kind/size conversions, swizzles, shuffles, colour helpers *)
(* (C19) and numeric lifts (C20).                                          *)
(*                                                                         *)
(* Lane Term: an element is an opaque TERM, a flat integer sequence in     *)
(* prefix notation: variable k = <<0, k>>, constant c = <<1, c>> (0 zero,  *)
(* 1 one, 2 default), operation = <<code>> \o args.  The harness runs the  *)
(* real generic code on an element type that builds these terms and obeys  *)
(* no law; "position i is exactly op(a_i, b_i)" is then equality of        *)
(* sequences and holds for every input by parametricity.                   *)
(* C02 | src/vec.rs operator impls, reductions, map/apply/zip, hadd,       *)
(*       constructors, FromIterator, Sum, Product                          *)
(***************************************************************************)
EXTENDS VekNum, Bitwise

TVar(k) == <<0, k>>
TConst(c) == <<1, c>>
TZero == TConst(0)
TOne == TConst(1)
TDefault == TConst(2)
TOp1(code, a) == <<code>> \o a
TOp2(code, a, b) == <<code>> \o a \o b
TOp3(code, a, b, c) == <<code>> \o a \o b \o c
CADD == 10
CF1 == 30
CF2 == 31
CF3 == 32
\* element-wise lifts (sequences of equal length)
Lift1(code, a) == [i \in 1 .. Len(a) |-> TOp1(code, a[i])]
Lift2(code, a, b) == [i \in 1 .. Len(a) |-> TOp2(code, a[i], b[i])]
Lift3(code, a, b, c) == [i \in 1 .. Len(a) |-> TOp3(code, a[i], b[i], c[i])]
\* iota: 0, 0+1, (0+1)+1, ... as the code builds it (i += one)
RECURSIVE IotaT(_)
IotaT(k) == IF k = 0 THEN TZero ELSE TOp2(CADD, IotaT(k - 1), TOne)
\* horizontal add: sums of adjacent pairs of the concatenation a \o b
HAdd(a, b) == LET s == a \o b IN [i \in 1 .. Len(a) |-> TOp2(CADD, s[2 * i - 1], s[2 * i])]
RECURSIVE Concat(_, _)
Concat(s, i) == IF i > Len(s) THEN <<>> ELSE s[i] \o Concat(s, i + 1)
\* from an iterator / slice with fewer, equally many or more items than elements
FromItems(n, items) == [i \in 1 .. n |-> IF i <= Len(items) THEN items[i] ELSE TDefault]

---------------------------------------------------------------------------
(* Integer lane                                                            *)
B2I(b) == IF b THEN 1 ELSE 0
Cmp(which, x, y) == CASE which = "eq" -> x = y [] which = "ne" -> x # y [] which = "ge" -> x >= y
                      [] which = "gt" -> x > y [] which = "le" -> x <= y [] which = "lt" -> x < y
CmpMask(which, a, b) == [i \in 1 .. Len(a) |-> B2I(Cmp(which, a[i], b[i]))]
MinMax(which, a, b) == [i \in 1 .. Len(a) |-> IF which = "min" THEN Min2(a[i], b[i]) ELSE Max2(a[i], b[i])]
RECURSIVE FoldI(_, _, _, _)
FoldI(Op(_, _), s, i, acc) == IF i > Len(s) THEN acc ELSE FoldI(Op, s, i + 1, Op(acc, s[i]))
ReduceI(which, a) ==
    CASE which = "min" -> FoldI(Min2, a, 2, a[1])
      [] which = "max" -> FoldI(Max2, a, 2, a[1])
      [] which = "bitand" -> FoldI(LAMBDA x, y : x & y, a, 2, a[1])
      [] which = "bitor" -> FoldI(LAMBDA x, y : x | y, a, 2, a[1])
      [] which = "bitxor" -> FoldI(LAMBDA x, y : x ^^ y, a, 2, a[1])
      [] which = "and" -> B2I(\A i \in 1 .. Len(a) : a[i] # 0)
      [] which = "or" -> B2I(\E i \in 1 .. Len(a) : a[i] # 0)
      [] which = "any_negative" -> B2I(\E i \in 1 .. Len(a) : a[i] < 0)
      [] which = "all_positive" -> B2I(\A i \in 1 .. Len(a) : a[i] > 0)
ArithI(which, a, b) == [i \in 1 .. Len(a) |-> IF which = "add" THEN a[i] + b[i] ELSE a[i] * b[i]]
=============================================================================
