CONSTANTS P = 46337
  K = 200
INIT Init
NEXT Next
INVARIANTS CrossLaws ReflectLaws SnellLaw SideLaws
CHECK_DEADLOCK FALSE
