----------------------------- MODULE VekOpsAlgo -----------------------------
(***************************************************************************)
(* Implementation-shaped models of vek's integer wrap / ping-pong          *)
(* algorithms (src/ops.rs wrap_impl_uint!, wrap_impl_sint!): the same      *)
(* arithmetic steps as the Rust code, in the same order, each intermediate *)
(* value carrying a "fits the machine type" obligation.  A result is a     *)
(* record [ovf |-> some step left the type, val |-> value computed in      *)
(* unbounded arithmetic].  MC_Ops checks, exhaustively for widths 3..8,    *)
(* that val equals the declarative VekOps operator and that ovf is FALSE   *)
(* for every input satisfying the documented preconditions.                *)
(*                                                                         *)
(* Two generations are modelled and named:                                 *)
(*   Old*  - the algorithms as found at the pinned commit (defect D7)      *)
(*   New*  - the repaired algorithms (commit "fix: ... wrap ...")          *)
(***************************************************************************)
EXTENDS VekOps

Fits(x, bits, signed) == InZ(x, bits, signed)

\* --- as found (pinned commit) -------------------------------------------
\* if self < lower { self += range * ((lower-self)/range + 1) }; lower + (self-lower) % range
OldWrapBetween(x, lo, hi, bits, signed) ==
    LET range == hi - lo
        d     == lo - x
        q     == TruncDiv(d, range) + 1
        inc   == range * q
        x2    == IF x < lo THEN x + inc ELSE x
        e     == x2 - lo
        res   == lo + TruncRem(e, range)
    IN [ovf |-> \/ ~Fits(range, bits, signed)
                \/ (x < lo /\ (~Fits(d, bits, signed) \/ ~Fits(q, bits, signed)
                               \/ ~Fits(inc, bits, signed) \/ ~Fits(x2, bits, signed)))
                \/ ~Fits(e, bits, signed) \/ ~Fits(res, bits, signed),
        val |-> res]
OldWrappedS(x, u, bits) == OldWrapBetween(x, 0, u, bits, TRUE)
OldPingPongU(x, u, bits) ==
    LET p == u + u
        r == x % p
    IN [ovf |-> ~Fits(p, bits, FALSE), val |-> IF r < u THEN r ELSE p - r]
OldPingPongS(x, u, bits) ==
    LET p == u + u
        w == OldWrapBetween(x, 0, p, bits, TRUE)
        r == w.val
    IN [ovf |-> ~Fits(p, bits, TRUE) \/ w.ovf, val |-> IF r <= u THEN r ELSE p - r]

\* --- repaired -----------------------------------------------------------
\* r = self % range; if r < 0 { r += range }; l = lower % range;
\* lower + if r >= l { r - l } else { range - (l - r) }
NewWrapBetween(x, lo, hi, bits, signed) ==
    LET range == hi - lo
        r0    == TruncRem(x, range)
        r     == IF r0 < 0 THEN r0 + range ELSE r0
        l     == TruncRem(lo, range)
        d     == IF r >= l THEN r - l ELSE range - (l - r)
        res   == lo + d
    IN [ovf |-> \/ ~Fits(range, bits, signed) \/ ~Fits(r0, bits, signed)
                \/ ~Fits(r, bits, signed) \/ ~Fits(l, bits, signed)
                \/ (r < l /\ ~Fits(l - r, bits, signed))
                \/ ~Fits(d, bits, signed) \/ ~Fits(res, bits, signed),
        val |-> res]
\* q = self / upper; m = self % upper; if m < 0 { m += upper; q -= 1 };
\* if q % 2 == 0 { m } else { upper - m }
NewPingPong(x, u, bits, signed) ==
    LET q0 == TruncDiv(x, u)
        m0 == TruncRem(x, u)
        m  == IF m0 < 0 THEN m0 + u ELSE m0
        q  == IF m0 < 0 THEN q0 - 1 ELSE q0
        res == IF TruncRem(q, 2) = 0 THEN m ELSE u - m
    IN [ovf |-> \/ ~Fits(q0, bits, signed) \/ ~Fits(m0, bits, signed) \/ ~Fits(m, bits, signed)
                \/ ~Fits(q, bits, signed) \/ ~Fits(res, bits, signed),
        val |-> res]
=============================================================================
