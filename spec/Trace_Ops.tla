----------------------------- MODULE Trace_Ops -----------------------------
(***************************************************************************)
(* Trace validation (binding B2, code -> spec) for the float and angle     *)
(* parts of C17: every record is one call of the real vek code, logged by  *)
(* `vh drive ops` after the call returned.  Float operands are dyadic      *)
(* rationals X * 2^-s with small numerators, chosen so that every          *)
(* intermediate float operation is exact; records carry the scaled         *)
(* integers, so the float result must EQUAL the declarative VekOps value.  *)
(*   {"op":"wrapped","ty":"f32","s":3,"x":-17,"lo":0,"hi":12,"r":7}        *)
(* r = 999999 means the call panicked; 888888 that the float result was    *)
(* not the exact dyadic the harness expected to be able to represent.      *)
(* delta_angle (radians) involves pi: its records carry values rounded to  *)
(* 2^-16 and are checked against the range/congruence law with a slack;    *)
(* likewise wrapped_2pi / wrap_2pi.                                        *)
(***************************************************************************)
EXTENDS VekOps, TLC, Json, IOUtils
Rec == ndJsonDeserialize(IOEnv.TRACE)
VARIABLE l
INF == 1073741824   \* encoding of +infinity in records (-INF for -infinity)

Expected(e) ==
    CASE e.op = "clamped" -> Clamp(e.x, e.lo, e.hi)
      [] e.op = "is_between" -> IsBetween(e.x, e.lo, e.hi)
      [] e.op = "wrapped" -> Wrapped(e.x, e.hi)
      [] e.op = "wrapped_between" -> WrapBetween(e.x, e.lo, e.hi)
      [] e.op = "pingpong" -> PingPong(e.x, e.hi)
      [] e.op = "delta_angle_degrees" -> DeltaAngle(e.x, e.hi, e.turn)
TAU16 == 411775      \* round(2*pi*2^16)
PI16 == 205887
Conforms(e) ==
    IF e.op = "delta_angle"
    THEN /\ -PI16 - 4 <= e.r /\ e.r <= PI16 + 4
         /\ Abs(e.r - (e.hi - e.x) - e.k * TAU16) <= 16
         \* target - self is exactly half a turn (flagged by the driver): the interval is (-pi, pi], the answer is +pi
         /\ ("half" \in DOMAIN e => e.r > 0)
    ELSE IF e.op = "wrap_2pi"      \* in [0, 2 pi) and congruent to the input modulo 2 pi (k whole turns removed)
    THEN /\ -4 <= e.r /\ e.r <= TAU16 + 4
         /\ Abs(e.x - e.r - e.k * TAU16) <= 16
    ELSE IF e.op = "in_range"     \* inexact float cases: result only classified by the harness
    THEN e.r = 1
    ELSE e.r = Expected(e)

Init == l = 1
Step(name) ==
    /\ l <= Len(Rec) /\ Rec[l].op = name
    /\ IF Conforms(Rec[l]) THEN TRUE
       ELSE PrintT(ToJson([tag |-> "MISMATCH", l |-> l,
                           exp |-> IF name \in {"delta_angle", "in_range", "wrap_2pi"} THEN 0 ELSE Expected(Rec[l])]))
    /\ l' = l + 1
Clamped == Step("clamped")
IsBetweenA == Step("is_between")
WrappedA == Step("wrapped")
WrappedBetween == Step("wrapped_between")
PingPongA == Step("pingpong")
DeltaDegrees == Step("delta_angle_degrees")
DeltaRadians == Step("delta_angle")
InRange == Step("in_range")
Wrap2Pi == Step("wrap_2pi")
Next == Clamped \/ IsBetweenA \/ WrappedA \/ WrappedBetween \/ PingPongA \/ DeltaDegrees \/ DeltaRadians \/ InRange \/ Wrap2Pi

Accepted == IF TLCGet("stats").diameter - 1 = Len(Rec) THEN TRUE
            ELSE PrintT(ToJson([tag |-> "REJECTED_AT", l |-> TLCGet("stats").diameter])) /\ FALSE
=============================================================================
