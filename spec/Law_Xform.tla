----------------------------- MODULE Law_Xform -----------------------------
(***************************************************************************)
(* Laws of the rotation / quaternion / affine-builder part of the          *)
(* specification, checked by TLC ON THE SPECIFICATION for K random operand *)
(* tuples: over the prime field Z_46337 (P > 0: polynomial identities, a   *)
(* false law survives a random point with probability <= deg/P), and over  *)
(* exact rationals (P = -1) where order matters.  The operators that pass  *)
(* here are the oracle against which the real code is validated.           *)
(* C04: rotations compose additively about a common axis, are orthogonal   *)
(*      with determinant +1, fix their axis, turn counter-clockwise        *)
(*      (right-handed), Rodrigues restricted to the basis axes is RotX/Y/Z,*)
(*      quaternion route = direct route.                                   *)
(* C05: Hamilton algebra laws, q v q^-1 versus the matrix, composition.    *)
(* C07: each builder acts on points as defined; chains apply in call order;*)
(*      Transform.                                                         *)
(* C09: change-of-basis matrices; the look-at axioms are satisfied by the  *)
(*      textbook frame matrix (P = -1).                                    *)
(***************************************************************************)
EXTENDS VekXform, TLC
CONSTANTS K
VARIABLES k, r

RandEl == IF P > 0 THEN RandomElement(0 .. (P - 1)) ELSE FI(RandomElement(-3 .. 3))
\* over the rationals the quaternion components stay in -1..1 so that every frame entry has a
\* denominator <= 16 and TLC's 32-bit integers cannot overflow
Init == k \in 1 .. K /\ r = [i \in 1 .. 40 |-> IF P < 0 /\ i \in 3 .. 14 THEN FI(RandomElement(-1 .. 1)) ELSE RandEl]
Next == UNCHANGED <<k, r>>

\* (cos, sin) from the rational parametrisation of the circle
CS(t) == LET d == FAdd(F1, FSq(t)) IN IF d = F0 THEN <<F1, F0>> ELSE <<FDiv(FSub(F1, FSq(t)), d), FDiv(FAdd(t, t), d)>>
a1 == CS(r[1])
a2 == CS(r[2])
p1 == <<r[3], r[4], r[5], r[6]>>
p2 == <<r[7], r[8], r[9], r[10]>>
p3 == <<r[11], r[12], r[13], r[14]>>
v1 == <<r[15], r[16], r[17]>>
v2 == <<r[18], r[19], r[20]>>
pos == <<r[21], r[22], r[23]>>
scl == <<r[24], r[25], r[26]>>
w2 == <<r[27], r[28]>>
\* unit quaternion p*p / N(p) (N(p*p) = N(p)^2)
UnitQ(p) == IF QuatNorm2(p) = F0 THEN QuatId ELSE VScale(QuatMul(p, p), FInv(QuatNorm2(p)))
u1 == UnitQ(p1)
u2 == UnitQ(p2)
Frame == MatOfQuat3(u1)                  \* a rotation matrix: orthonormal columns
nx == Col(Frame, 1)                      \* a unit axis
I3 == Idn(3)
IsRot(R) == MatMul(R, Transp(R)) = Idn(Len(R)) /\ Det(R) = F1

RotAdditive == /\ MatMul(RotX3(a1[1], a1[2]), RotX3(a2[1], a2[2])) = RotX3(AngAdd(a1, a2)[1], AngAdd(a1, a2)[2])
               /\ MatMul(RotY3(a1[1], a1[2]), RotY3(a2[1], a2[2])) = RotY3(AngAdd(a1, a2)[1], AngAdd(a1, a2)[2])
               /\ MatMul(RotZ3(a1[1], a1[2]), RotZ3(a2[1], a2[2])) = RotZ3(AngAdd(a1, a2)[1], AngAdd(a1, a2)[2])
               /\ MatMul(RotZ2(a1[1], a1[2]), RotZ2(a2[1], a2[2])) = RotZ2(AngAdd(a1, a2)[1], AngAdd(a1, a2)[2])
               /\ MatMul(Rodrigues(a1[1], a1[2], nx), Rodrigues(a2[1], a2[2], nx)) = Rodrigues(AngAdd(a1, a2)[1], AngAdd(a1, a2)[2], nx)
RotProper == IsRot(RotX3(a1[1], a1[2])) /\ IsRot(RotY3(a1[1], a1[2])) /\ IsRot(RotZ3(a1[1], a1[2]))
             /\ IsRot(RotZ2(a1[1], a1[2])) /\ IsRot(Rodrigues(a1[1], a1[2], nx))
RotCCW == /\ MatVec(RotZ3(a1[1], a1[2]), Unit(3, 1)) = <<a1[1], a1[2], F0>>
          /\ MatVec(RotX3(a1[1], a1[2]), Unit(3, 2)) = <<F0, a1[1], a1[2]>>
          /\ MatVec(RotY3(a1[1], a1[2]), Unit(3, 3)) = <<a1[2], F0, a1[1]>>
          /\ MatVec(RotZ2(a1[1], a1[2]), Unit(2, 1)) = <<a1[1], a1[2]>>
RodriguesLaws == /\ MatVec(Rodrigues(a1[1], a1[2], nx), nx) = nx
                 /\ Rodrigues(a1[1], a1[2], Unit(3, 1)) = RotX3(a1[1], a1[2])
                 /\ Rodrigues(a1[1], a1[2], Unit(3, 2)) = RotY3(a1[1], a1[2])
                 /\ Rodrigues(a1[1], a1[2], Unit(3, 3)) = RotZ3(a1[1], a1[2])
                 \* vector form: R v = c v + s n x v + (1-c)(n.v) n  (right-handed sense of rotation)
                 /\ MatVec(Rodrigues(a1[1], a1[2], nx), v1) =
                      VAdd(VAdd(VScale(v1, a1[1]), VScale(Cross3(nx, v1), a1[2])), VScale(nx, FMul(FSub(F1, a1[1]), Dot(nx, v1))))
                 /\ Resize(Resize(Rodrigues(a1[1], a1[2], nx), 4), 3) = Rodrigues(a1[1], a1[2], nx)
QuatRoute == MatOfQuat3(QuatOfHalfAngleAxis(a1[1], a1[2], nx)) = Rodrigues(AngDouble(a1)[1], AngDouble(a1)[2], nx)
TokenLaw == \A b \in 1 .. 4 : /\ FAdd(FSq(TokenCS(b, 3)[1]), FSq(TokenCS(b, 3)[2])) = F1
                              /\ TokenCS(b, 5) = AngAdd(TokenCS(b, 2), TokenCS(b, 3))
                              /\ TokenCS(b, -2) = <<TokenCS(b, 2)[1], FNeg(TokenCS(b, 2)[2])>>

HamiltonLaws == /\ QuatMul(QuatMul(p1, p2), p3) = QuatMul(p1, QuatMul(p2, p3))
                /\ QuatMul(QuatId, p1) = p1 /\ QuatMul(p1, QuatId) = p1
                /\ QuatNorm2(QuatMul(p1, p2)) = FMul(QuatNorm2(p1), QuatNorm2(p2))
                /\ QuatConj(QuatMul(p1, p2)) = QuatMul(QuatConj(p2), QuatConj(p1))
                /\ (QuatNorm2(p1) # F0 => QuatMul(p1, QuatInv(p1)) = QuatId /\ QuatMul(QuatInv(p1), p1) = QuatId)
                \* i j = k, j k = i, k i = j
                /\ QuatMul(<<F1, F0, F0, F0>>, <<F0, F1, F0, F0>>) = <<F0, F0, F1, F0>>
                /\ QuatMul(<<F0, F1, F0, F0>>, <<F0, F0, F1, F0>>) = <<F1, F0, F0, F0>>
                /\ QuatMul(<<F0, F0, F1, F0>>, <<F1, F0, F0, F0>>) = <<F0, F1, F0, F0>>
QuatActs == /\ VSub(QuatRot(p1, v1), MatVec(MatOfQuat3(p1), v1)) = VScale(v1, FSub(QuatNorm2(p1), F1))
            /\ QuatRot(u1, v1) = MatVec(MatOfQuat3(u1), v1)
            /\ QuatRot(QuatMul(p1, p2), v1) = QuatRot(p1, QuatRot(p2, v1))
            /\ IsRot(MatOfQuat3(u1))
            /\ MatOfQuat3(QuatMul(u1, u2)) = MatMul(MatOfQuat3(u1), MatOfQuat3(u2))
            /\ QuatNorm2(u1) = F1

St(kind, vec, ang) == [k |-> kind, v |-> vec, c |-> ang[1], s |-> ang[2]]
Kinds4 == <<"translate_3d", "translate_2d", "scale_3d", "rotate_x", "rotate_y", "rotate_z", "rotate_3d">>
Kinds3 == <<"translate_2d", "scale_3d", "rotate_x", "rotate_y", "rotate_z", "rotate_3d">>
Kinds2 == <<"scale_2d", "shear_x", "shear_y", "rotate_z">>
VecFor(kind) == IF kind = "rotate_3d" THEN nx ELSE IF kind \in {"translate_2d", "scale_2d", "shear_x", "shear_y"} THEN w2 ELSE v2
\* dimension of the points a matrix of size n acts on for a step kind
BuilderActs ==
    /\ \A i \in 1 .. Len(Kinds4) : LET st == St(Kinds4[i], VecFor(Kinds4[i]), a1)
                                   IN MatVec(StepMat(4, st), Point4(v1)) = Point4(StepPoint(st, v1))
    /\ \A i \in 1 .. Len(Kinds3) : LET st == St(Kinds3[i], VecFor(Kinds3[i]), a1)
                                   IN IF Kinds3[i] = "translate_2d"
                                      THEN MatVec(StepMat(3, st), Point3(w2)) = Point3(StepPoint(st, w2))
                                      ELSE MatVec(StepMat(3, st), v1) = StepPoint(st, v1)
    /\ \A i \in 1 .. Len(Kinds2) : LET st == St(Kinds2[i], VecFor(Kinds2[i]), a1)
                                   IN MatVec(StepMat(2, st), XY(v1)) = StepPoint(st, XY(v1))
    \* a translation leaves directions alone
    /\ MatVec(Transl3(v2), Dir4(v1)) = Dir4(v1) /\ MatVec(Transl2in3(w2), Dir3(w2)) = Dir3(w2)
ChainOrder ==
    LET s4 == <<St(Kinds4[(k % 7) + 1], VecFor(Kinds4[(k % 7) + 1]), a1), St(Kinds4[((k \div 7) % 7) + 1], VecFor(Kinds4[((k \div 7) % 7) + 1]), a2),
                St("translate_3d", pos, a1)>>
        s2 == <<St(Kinds2[(k % 4) + 1], w2, a1), St(Kinds2[((k \div 4) % 4) + 1], XY(v2), a2), St("rotate_z", w2, a1)>>
    IN /\ MatVec(ChainMat(4, s4, 3), Point4(v1)) = Point4(ChainPoint(s4, 3, v1))
       /\ MatVec(ChainMat(2, s2, 3), XY(v1)) = ChainPoint(s2, 3, XY(v1))
TransformLaw == /\ MatVec(XformMat(pos, u1, scl), Point4(v1)) = Point4(XformApply(pos, u1, scl, v1))
                /\ XformMat(VZero(3), QuatId, <<F1, F1, F1>>) = Idn(4)
BasisLaws == LET i == Col(Frame, 1)  j == Col(Frame, 2)  kk == Col(Frame, 3)
                 L == LocalToBasis(pos, i, j, kk)
             IN /\ MulPoint(L, VZero(3)) = pos
                /\ MulPoint(L, Unit(3, 1)) = VAdd(pos, i) /\ MulPoint(L, Unit(3, 2)) = VAdd(pos, j)
                /\ MulPoint(L, Unit(3, 3)) = VAdd(pos, kk)
                /\ MatMul(BasisToLocal(pos, i, j, kk), L) = Idn(4)
                /\ MatMul(L, BasisToLocal(pos, i, j, kk)) = Idn(4)
\* C19: embedding a smaller matrix and a smaller vector (zeros appended, w = 1 for points, w = 0 for
\* directions) commutes with multiplication
EmbedLaw == LET A3 == [i \in 1 .. 3 |-> [j \in 1 .. 3 |-> r[3 * (i - 1) + j]]]
                A2 == [i \in 1 .. 2 |-> [j \in 1 .. 2 |-> r[10 + 2 * (i - 1) + j]]]
            IN /\ MatVec(Resize(A3, 4), Dir4(v1)) = Dir4(MatVec(A3, v1))
               /\ MatVec(Resize(A3, 4), Point4(v1)) = Point4(MatVec(A3, v1))
               /\ MatVec(Resize(A2, 3), Dir3(w2)) = Dir3(MatVec(A2, w2)) /\ MatVec(Resize(A2, 3), Point3(w2)) = Point3(MatVec(A2, w2))
               /\ MatVec(Resize(A2, 4), <<w2[1], w2[2], F0, F0>>) = <<MatVec(A2, w2)[1], MatVec(A2, w2)[2], F0, F0>>
               /\ Resize(MatMul(A3, Frame), 4) = MatMul(Resize(A3, 4), Resize(Frame, 4))
\* the textbook frame matrix satisfies the look-at axioms (ordered field only)
LookAtLaw == P < 0 =>
    LET s == Col(Frame, 1)  u == Col(Frame, 2)  f == Col(Frame, 3)
        eye == pos
        d == FAdd(FAbs(r[30]), F1)   aa == FAdd(FAbs(r[31]), F1)   bb == r[32]
        LH == << <<s[1], s[2], s[3], FNeg(Dot(s, eye))>>, <<u[1], u[2], u[3], FNeg(Dot(u, eye))>>,
                 <<f[1], f[2], f[3], FNeg(Dot(f, eye))>>, <<F0, F0, F0, F1>> >>
        \* right-handed: the camera looks down -z; frame (s, u, -f') with f' the view direction = -f
        RH == LH
    IN /\ IsLookAt(LH, eye, VAdd(eye, VScale(f, d)), VAdd(VScale(u, aa), VScale(f, bb)), 1)
       /\ IsLookAt(RH, eye, VSub(eye, VScale(f, d)), VAdd(VScale(u, aa), VScale(f, bb)), -1)
       \* the axioms do not depend on the length of `up` (the drivers run the code on up * 2^k and log the direction)
       /\ IsLookAt(LH, eye, VAdd(eye, VScale(f, d)), VScale(VAdd(VScale(u, aa), VScale(f, bb)), FDiv(F1, FI(4))), 1)
       /\ IsLookAt(RH, eye, VSub(eye, VScale(f, d)), VScale(VAdd(VScale(u, aa), VScale(f, bb)), FI(3)), -1)
=============================================================================
