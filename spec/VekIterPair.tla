---------------------------- MODULE VekIterPair ----------------------------
(***************************************************************************)
(* Two consuming iterators side by side (C18): comparing them.             *)
(* Anchor: src/vec.rs impl PartialEq for IntoIter<T>.                      *)
(*                                                                         *)
(* Iterator A and iterator B come from two vectors of dimension N; each is *)
(* in some cursor state <<start, end>> reached by front / back pulls (the  *)
(* one-iterator machine VekIter shows every 0 <= start <= end <= N is      *)
(* reachable and that the live slots are start+1 .. end).  Element i of    *)
(* either vector has the VALUE i % 2 - so windows of equal length at       *)
(* different cursors can be equal or unequal - and a distinct IDENTITY (i  *)
(* in A, 100 + i in B) under which the harness's element type reports the  *)
(* reads.  `a == b` must be the equality of the two remaining sequences,   *)
(* and may read live elements of A and B only, whatever the two cursor     *)
(* states are - in particular when the remaining counts agree but the      *)
(* cursors do not.                                                         *)
(* The state is the pair of cursor pairs; the expected result and the      *)
(* allowed reads are state functions (no history variables), printed once  *)
(* per distinct state for the replay (binding B1).  BAND bounds how far    *)
(* apart the cursors of A and B are explored for large N (state            *)
(* constraint); BAND >= N explores every pair of states.                   *)
(***************************************************************************)
EXTENDS Integers, Sequences, FiniteSets, TLC, Json
CONSTANTS N, BAND
VARIABLES a, b
vars == <<a, b>>
Val(i) == i % 2
Window(c) == [k \in 1 .. (c[2] - c[1]) |-> Val(c[1] + k)]
LiveSlots(c) == {i \in 1 .. N : c[1] < i /\ i <= c[2]}
IdsA == LiveSlots(a)
IdsB == {100 + i : i \in LiveSlots(b)}

Init == a = <<0, N>> /\ b = <<0, N>>
Front(c) == <<c[1] + 1, c[2]>>
Back(c) == <<c[1], c[2] - 1>>
NextA == a[1] < a[2] /\ a' = Front(a) /\ UNCHANGED b
BackA == a[1] < a[2] /\ a' = Back(a) /\ UNCHANGED b
NextB == b[1] < b[2] /\ b' = Front(b) /\ UNCHANGED a
BackB == b[1] < b[2] /\ b' = Back(b) /\ UNCHANGED a
Next == NextA \/ BackA \/ NextB \/ BackB
Spec == Init /\ [][Next]_vars

Abs(x) == IF x < 0 THEN -x ELSE x
Band == Abs(a[1] - b[1]) <= BAND /\ Abs(a[2] - b[2]) <= BAND

\* ---- what comparison must do ----------------------------------------------
EqExpected == Window(a) = Window(b)
MayRead == IdsA \cup IdsB
TypeOK == /\ a[1] \in 0 .. N /\ a[2] \in a[1] .. N /\ b[1] \in 0 .. N /\ b[2] \in b[1] .. N
\* sanity of the model itself: equal windows have equal length; a state with itself is equal
EqFacts == /\ (EqExpected => a[2] - a[1] = b[2] - b[1])
           /\ (a = b => EqExpected)
           /\ (a[2] - a[1] = 0 /\ b[2] - b[1] = 0 => EqExpected)
Emit == PrintT(ToJson([n |-> N, a |-> a, b |-> b, eq |-> IF EqExpected THEN 1 ELSE 0]))
=============================================================================
