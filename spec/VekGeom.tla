------------------------------- MODULE VekGeom -------------------------------
(***************************************************************************)
(* Axis-aligned boxes, rectangles, disks / spheres, line segments and rays *)
(* of the abstract machine.  A box is a record [min, max] of two points of *)
(* equal dimension (2 or 3); it DENOTES the set of points p with           *)
(* min[a] <= p[a] <= max[a] on every axis a.  The specification of union,  *)
(* intersection, containment, collision, expansion, splitting and          *)
(* projection is written in terms of that point set, evaluated over a      *)
(* finite grid that is fine enough to separate all boxes of the model      *)
(* (corners on even coordinates, points on all integers = a half grid).    *)
(* C13 | src/geom.rs Aabr, Aabb, Rect, Rect3                               *)
(* C16 | src/geom.rs Disk, Sphere, LineSegment2/3, Ray                     *)
(***************************************************************************)
EXTENDS VekQuat, FiniteSetsExt

Dims(b) == Len(b.min)
IsValidBox(b) == \A a \in 1 .. Dims(b) : FLe(b.min[a], b.max[a])
InBox(b, p) == \A a \in 1 .. Dims(b) : FLe(b.min[a], p[a]) /\ FLe(p[a], b.max[a])
InInterior(b, p) == \A a \in 1 .. Dims(b) : FLt(b.min[a], p[a]) /\ FLt(p[a], b.max[a])
\* all points of dimension d with integer coordinates lo..hi (integers lane)
Grid(d, lo, hi) == IF d = 2 THEN {<<x, y>> : x \in lo .. hi, y \in lo .. hi} ELSE {<<x, y, z>> : x \in lo .. hi, y \in lo .. hi, z \in lo .. hi}
Pts(b, G) == {p \in G : InBox(b, p)}
\* the least box containing a non-empty finite set of points
Hull(S, d) == [min |-> [a \in 1 .. d |-> Min({p[a] : p \in S})], max |-> [a \in 1 .. d |-> Max({p[a] : p \in S})]]
SameSet(b1, b2, G) == Pts(b1, G) = Pts(b2, G)
\* rectangle (position, extent) <-> box
BoxOfRect(pos, ext) == [min |-> pos, max |-> VAdd(pos, ext)]
Dist2(p, q) == Norm2(VSub(p, q))
\* the point of a valid box nearest to p is characterised over the grid
IsNearestIn(b, p, r, G) == InBox(b, r) /\ \A q \in Pts(b, G) : FLe(Dist2(r, p), Dist2(q, p))
MadeValid(b) == [min |-> [a \in 1 .. Dims(b) |-> FMin(b.min[a], b.max[a])], max |-> [a \in 1 .. Dims(b) |-> FMax(b.min[a], b.max[a])]]

---------------------------------------------------------------------------
(* C16 *)
\* closest point of the segment [s, e] to p: the parameter t in [0,1] minimising |s + t (e - s) - p|^2
SegPoint(s, e, t) == VAdd(s, VScale(VSub(e, s), t))
SegParam(s, e, p) == LET l2 == Dist2(s, e) IN IF l2 = F0 THEN F0
                     ELSE LET t == FDiv(Dot(VSub(p, s), VSub(e, s)), l2) IN FMax(F0, FMin(F1, t))
\* ray / triangle by Cramer's rule: origin + d dir = v0 + u (v1 - v0) + v (v2 - v0);
\* solution of the 3x3 system [-dir, e1, e2] (d, u, v)^T = origin - v0
Det3(c1, c2, c3) == Dot(c1, Cross3(c2, c3))
RayTri(o, dir, v0, v1, v2) ==
    LET e1 == VSub(v1, v0)  e2 == VSub(v2, v0)  rhs == VSub(o, v0)  nd == VNeg(dir)
        D == Det3(nd, e1, e2)
    IN IF D = F0 THEN [hit |-> FALSE, d |-> F0]
       ELSE LET d == FDiv(Det3(rhs, e1, e2), D)  u == FDiv(Det3(nd, rhs, e2), D)  v == FDiv(Det3(nd, e1, rhs), D)
            IN [hit |-> FLe(F0, u) /\ FLe(F0, v) /\ FLe(FAdd(u, v), F1), d |-> d]
=============================================================================
