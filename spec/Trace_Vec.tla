------------------------------ MODULE Trace_Vec ------------------------------
(***************************************************************************)
(* Trace validation (binding B2, code -> spec) for the vector types.       *)
(* P = 0: lane Term records (ew1/ew2/ew3 element-wise operators in every   *)
(* operand form, map/apply/zip/hadd/reduce, constructors) and integer lane *)
(* records (comparison masks, min/max, reductions, scalar-on-the-left);    *)
(* P = 46337: folds on exact rationals (sum, product, average, dot, Sum /  *)
(* Product of iterators); P = -1: per-element real functions on pairs.     *)
(***************************************************************************)
EXTENDS VekVec, VekQuat, TLC, Json, IOUtils
Rec == ndJsonDeserialize(IOEnv.TRACE)
VARIABLE l

MapExp(e) ==
    CASE e.how \in {"map", "apply"} -> Lift1(CF1, e.a)
      [] e.how \in {"map2", "apply2"} -> Lift2(CF2, e.a, e.b)
      [] e.how \in {"map3", "apply3"} -> Lift3(CF3, e.a, e.b, e.c)
      [] e.how = "zip" -> [i \in 1 .. Len(e.a) |-> <<e.a[i], e.b[i]>>]
      [] e.how = "hadd" -> HAdd(e.a, e.b)
      [] e.how = "reduce" -> Concat(e.a, 1)
      [] e.how = "reduce_f" -> <<FoldLeftT(CF2, e.a, Len(e.a))>>
CtorExp(e) ==
    CASE e.how \in {"broadcast", "from_scalar"} -> [i \in 1 .. e.n |-> e.input[1]]
      [] e.how = "zero" -> [i \in 1 .. e.n |-> TZero]
      [] e.how = "one" -> [i \in 1 .. e.n |-> TOne]
      [] e.how = "iota" -> [i \in 1 .. e.n |-> IotaT(i - 1)]
      [] e.how \in {"exact", "short", "long"} -> FromItems(e.n, e.input)
VSumList(vs, n, zero, Op(_, _)) == [i \in 1 .. n |-> FoldI(Op, [k \in 1 .. Len(vs) |-> vs[k][i]], 1, zero)]
DimOf(ty) == CASE ty \in {"Vec2", "Extent2", "Uv"} -> 2 [] ty \in {"Vec3", "Extent3", "Rgb", "Uvw"} -> 3 [] ty \in {"Vec4", "Rgba"} -> 4
               [] ty = "Vec8" -> 8 [] ty = "Vec16" -> 16 [] ty = "Vec32" -> 32 [] ty = "Vec64" -> 64
Real1(which, x) ==      \* x an exact pair <<n, d>>
    CASE which = "floor" -> Q(QFloor(x))
      [] which = "ceil" -> Q(-QFloor(QNeg(x)))
      [] which = "round" -> Q(QRoundHalfAway(x))
      [] which = "recip" -> QInv(x)
Expected(e) ==
    CASE e.op = "ew1" -> Lift1(e.code, e.a)
      [] e.op = "ew2" -> Lift2(e.code, e.a, e.b)
      [] e.op = "ew3" -> Lift3(e.code, e.a, e.b, e.c)
      [] e.op = "map" -> MapExp(e)
      [] e.op = "ctor_v" -> CtorExp(e)
      \* two vectors collected one after the other from one iterator of 2n+1 items: items 1..n, n+1..2n, one item left
      [] e.op = "ctor_chunks" -> << [i \in 1 .. e.n |-> e.input[i]], [i \in 1 .. e.n |-> e.input[e.n + i]], <<e.input[2 * e.n + 1]>> >>
      [] e.op = "conv" -> Conv(e.how, e.m, e.input, e.s)
      [] e.op = "mat_resize" -> ResizeT(e.a, e.m)
      [] e.op = "swz" -> Swizzle(e.how, e.input, e.s)
      [] e.op = "named" -> IF e.ty \in {"Rgb", "Rgba"} THEN NamedColor(e.how, IF e.ty = "Rgb" THEN 3 ELSE 4) ELSE NamedVec(e.how, DimOf(e.ty))
      [] e.op = "shuf" -> Shuffle(e.how, e.lo, e.hi, e.idx)
      [] e.op = "full" -> FullStr(e.bits, e.signed)
      \* inverted_rgb on values: r -> full - v, g = 0 -> full, b = full -> 0, alpha kept, and it is an involution
      [] e.op = "invert" -> [off |-> <<atoi(e.v), 0>>, b |-> "0", a |-> "5", back |-> 1]
      [] e.op = "pixel" -> PixelExp(e.how, e.a, e.b, e.full)
      [] e.op = "cmp" -> CmpMask(e.which, e.a, e.b)
      [] e.op = "minmax" -> MinMax(e.which, e.a, e.b)
      [] e.op = "reduce_i" -> ReduceI(e.which, e.a)
      [] e.op = "arith_i" -> ArithI(e.which, e.a, e.b)
      [] e.op = "fold" -> (CASE e.which = "sum" -> FSum(e.a) [] e.which = "product" -> FProd(e.a)
                             [] e.which = "average" -> FDiv(FSum(e.a), FI(Len(e.a))) [] e.which = "dot" -> Dot(e.a, e.b))
      [] e.op = "foldv" -> IF e.which = "sum" THEN VSumList(e.vs, DimOf(e.ty), F0, FAdd) ELSE VSumList(e.vs, DimOf(e.ty), F1, FMul)
      [] e.op = "real1" -> [i \in 1 .. Len(e.a) |-> IF e.which \in {"sqrt", "rsqrt"} THEN e.obs[i] ELSE Real1(e.which, e.a[i])]
\* square roots are validated by what they must satisfy
Extra(e) == e.op = "real1" /\ e.which \in {"sqrt", "rsqrt"} =>
                \A i \in 1 .. Len(e.a) : LET r == IF e.which = "sqrt" THEN e.obs[i] ELSE QInv(e.obs[i])
                                         IN QMul(r, r) = e.a[i] /\ r[1] > 0
\* named direction constants may be built as the negation of a unit vector: -0 and 0 denote the same element
NormNeg(v) == [i \in 1 .. Len(v) |-> IF v[i] = TOp1(CNEG, TZero) THEN TZero ELSE v[i]]
Conforms(e) == e.pan = 0 /\ (IF e.op = "named" THEN NormNeg(e.obs) ELSE e.obs) = Expected(e) /\ Extra(e)

Init == l = 1
Step(name) ==
    /\ l <= Len(Rec) /\ Rec[l].op = name
    /\ IF Conforms(Rec[l]) THEN TRUE
       ELSE PrintT(ToJson([tag |-> "MISMATCH", l |-> l, exp |-> Expected(Rec[l])]))
    /\ l' = l + 1
Ew1 == Step("ew1")
Ew2 == Step("ew2")
Ew3 == Step("ew3")
MapA == Step("map")
CtorV == Step("ctor_v")
CtorChunks == Step("ctor_chunks")
CmpA == Step("cmp")
MinMaxA == Step("minmax")
ReduceIA == Step("reduce_i")
ArithIA == Step("arith_i")
Fold == Step("fold")
FoldV == Step("foldv")
Real1A == Step("real1")
ConvA == Step("conv")
MatResize == Step("mat_resize")
Swz == Step("swz")
Named == Step("named")
Shuf == Step("shuf")
FullA == Step("full")
Invert == Step("invert")
PixelA == Step("pixel")
Next == CtorChunks \/ PixelA \/ ConvA \/ MatResize \/ Swz \/ Named \/ Shuf \/ FullA \/ Invert \/ Ew1 \/ Ew2 \/ Ew3 \/ MapA \/ CtorV \/ CmpA \/ MinMaxA \/ ReduceIA \/ ArithIA \/ Fold \/ FoldV \/ Real1A
Accepted == IF TLCGet("stats").diameter - 1 = Len(Rec) THEN TRUE
            ELSE PrintT(ToJson([tag |-> "REJECTED_AT", l |-> TLCGet("stats").diameter])) /\ FALSE
=============================================================================
