\* K random operand tuples over Z_46337
CONSTANTS P = 46337
  K = 200
INIT Init
NEXT Next
INVARIANTS RotAdditive RotProper RotCCW RodriguesLaws QuatRoute TokenLaw HamiltonLaws QuatActs BuilderActs ChainOrder TransformLaw BasisLaws LookAtLaw EmbedLaw
CHECK_DEADLOCK FALSE
