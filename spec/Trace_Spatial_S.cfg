\* symbolic lane: vector components are free symbols (VekPoly)
CONSTANT P <- PPoly
INIT Init
NEXT Next
POSTCONDITION Accepted
CHECK_DEADLOCK FALSE
