CONSTANT LEVEL = 1
INIT Init
NEXT Next
INVARIANT Emit
CHECK_DEADLOCK FALSE
