------------------------------ MODULE Trace_Geom ------------------------------
(***************************************************************************)
(* Trace validation (binding B2, code -> spec) for boxes and rectangles    *)
(* (C13) and disks, spheres, segments, rays (C16).                         *)
(* P = 0 (integers): box / rectangle records on the even grid 0..GMAX with *)
(* query points on all integers (half grid); every binary operation is     *)
(* validated POINTWISE against the point sets the operands denote; disk /  *)
(* sphere decisions on integer centres, radii and points.                  *)
(* P = -1 (exact pairs): segment projection, ray / triangle hits, tangency *)
(* vectors, distances.                                                     *)
(***************************************************************************)
EXTENDS VekGeom, TLC, Json, IOUtils
Rec == ndJsonDeserialize(IOEnv.TRACE)
VARIABLE l
GMAX == 8
G(d) == Grid(d, 0, GMAX)
Box(r) == [min |-> r.min, max |-> r.max]
B2I(b) == IF b THEN 1 ELSE 0
BoxJ(b) == [min |-> b.min, max |-> b.max]

\* each case returns TRUE iff the recorded observation is what the point-set semantics demands
Ok(e) ==
    LET d == IF "a" \in DOMAIN e THEN Dims(e.a) ELSE 2 IN
    CASE e.op = "contains_point" -> e.obs = B2I(InBox(e.a, e.p))
      [] e.op = "is_valid" -> e.obs = B2I(IsValidBox(e.a))
      [] e.op = "made_valid" -> IsValidBox(e.obs) /\ e.obs = MadeValid(e.a)
      \* union: the smallest box containing both (valid operands)
      [] e.op = "union" -> e.obs = Hull(Pts(e.a, G(d)) \cup Pts(e.b, G(d)), d)
      \* intersection: exactly the common points; invalid iff there are none
      [] e.op = "intersection" -> /\ Pts(e.obs, G(d)) = Pts(e.a, G(d)) \cap Pts(e.b, G(d))
                                  /\ (IsValidBox(e.obs) <=> Pts(e.a, G(d)) \cap Pts(e.b, G(d)) # {})
      [] e.op = "contains_box" -> e.obs = B2I(Pts(e.b, G(d)) \subseteq Pts(e.a, G(d)))
      \* two boxes of positive extent collide iff their interiors share a point
      [] e.op = "collides" -> e.obs = B2I(\E p \in G(d) : InInterior(e.a, p) /\ InInterior(e.b, p))
      [] e.op = "expanded" -> e.obs = Hull(Pts(e.a, G(d)) \cup {e.p}, d)
      \* inside-out receiver: the result contains the point; returning and in-place forms agree
      [] e.op = "expanded_any" -> InBox(e.obs[1], e.p) /\ e.obs[2] = e.obs[1]
      \* split at coordinate s on one axis: the halves cover the box and share exactly the slice at s
      [] e.op = "split" -> /\ Pts(e.obs[1], G(d)) \cup Pts(e.obs[2], G(d)) = Pts(e.a, G(d))
                           /\ Pts(e.obs[1], G(d)) \cap Pts(e.obs[2], G(d)) = {p \in Pts(e.a, G(d)) : p[e.axis] = e.s}
                           /\ \A p \in Pts(e.obs[1], G(d)) : p[e.axis] <= e.s
      [] e.op = "center_size" -> /\ \A a \in 1 .. d : 2 * e.obs.center[a] = e.a.min[a] + e.a.max[a]
                                 /\ e.obs.size = VSub(e.a.max, e.a.min) /\ \A a \in 1 .. d : 2 * e.obs.half[a] = e.obs.size[a]
      [] e.op = "projected" -> IsNearestIn(e.a, e.p, e.obs, G(d))
      \* moving the box by minus one component of the collision vector makes the boxes touch on that axis
      [] e.op = "collision_vector" -> \A a \in 1 .. d : e.a.max[a] - e.obs[a] = e.b.min[a] \/ e.a.min[a] - e.obs[a] = e.b.max[a]
      [] e.op = "map" -> e.obs = [min |-> [a \in 1 .. d |-> 3 * e.a.min[a] + 1], max |-> [a \in 1 .. d |-> 3 * e.a.max[a] + 1]]
      \* rectangle <-> box conversions and rectangle methods = box methods on the converted value
      [] e.op = "rect_to_box" -> e.obs = BoxOfRect(e.pos, e.ext)
      \* the 2D box of a 3D box: the first two coordinates of both corners
      [] e.op = "box_drop_z" -> e.obs = [min |-> <<e.a.min[1], e.a.min[2]>>, max |-> <<e.a.max[1], e.a.max[2]>>]
      \* a rectangle method and the box method on the converted rectangle (both observed): equal, and exact when the
      \* corner sum is even (Rust's integer division truncates otherwise)
      [] e.op = "rect_vs_box" -> /\ e.obs[1] = e.obs[2]
                                 /\ \A a \in 1 .. Len(e.pos) : (2 * e.pos[a] + e.ext[a]) % 2 = 0 => 2 * e.obs[2][a] = 2 * e.pos[a] + e.ext[a]
      [] e.op = "box_to_rect" -> e.obs.pos = e.a.min /\ e.obs.ext = VSub(e.a.max, e.a.min)
      [] e.op = "new_empty" -> e.obs = [min |-> e.p, max |-> e.p]
      \* disks / spheres on integers
      \* distance <= radius (resp. sum of radii): squared only when that bound is non-negative - a negative bound is
      \* never reached by a distance
      [] e.op = "disk_contains" -> e.obs = B2I(e.r >= 0 /\ Dist2(e.c, e.p) <= e.r * e.r)
      [] e.op = "disk_collides" -> e.obs = B2I(e.r + e.r2 >= 0 /\ Dist2(e.c, e.c2) <= (e.r + e.r2) * (e.r + e.r2))
      \* floats (scaled by 2^16, -1 = not finite): the distance function is the distance to the projected point; for a
      \* query point on the segment both are (nearly) zero
      [] e.op = "seg_distance_f" -> /\ e.obs[1] >= 0 /\ e.obs[2] >= 0 /\ Abs(e.obs[1] - e.obs[2]) <= 8
                                    /\ (e.on = 1 => e.obs[1] <= 8)
      \* floats (plain integers, distance / exact distance * 2^20): a point just outside the box is at its true distance, however
      \* small that is (a "negligible length" shortcut would return 0)
      [] e.op = "box_distance_f" -> e.obs - 1048576 \in -64 .. 64
      [] e.op = "disk_box" -> e.obs = [min |-> [a \in 1 .. Len(e.c) |-> e.c[a] - e.r], max |-> [a \in 1 .. Len(e.c) |-> e.c[a] + e.r]]
      [] e.op = "disk_diameter" -> e.obs = 2 * e.r
      \* circumference, area, surface, volume on floats, scaled by 1000: pi = 3.14159265...
      [] e.op = "disk_measure" -> Abs(e.obs - (e.coef * 314159 * e.rp) \div (e.den * 100)) <= 3
      \* --- exact pairs ---
      [] e.op = "seg_project" -> LET t == SegParam(e.s, e.e, e.p) IN
                                 /\ e.obs = SegPoint(e.s, e.e, t)
                                 \* no sampled point of the segment is nearer
                                 /\ \A k \in 0 .. 16 : FLe(Dist2(e.obs, e.p), Dist2(SegPoint(e.s, e.e, FDiv(FI(k), FI(16))), e.p))
      [] e.op = "seg_distance" -> FSq(e.obs) = Dist2(SegPoint(e.s, e.e, SegParam(e.s, e.e, e.p)), e.p) /\ FLe(F0, e.obs)
      [] e.op = "box_distance" -> /\ FLe(F0, e.obs)
                                  /\ FSq(e.obs) = Dist2([a \in 1 .. Len(e.p) |-> FMax(e.a.min[a], FMin(e.a.max[a], e.p[a]))], e.p)
      [] e.op = "ray_tri" -> LET r == RayTri(e.o, e.dir, e.tri[1], e.tri[2], e.tri[3]) IN
                             IF r.hit THEN e.obs = <<r.d>> /\ LET x == VAdd(e.o, VScale(e.dir, r.d)) IN TRUE
                             ELSE e.obs = <<>>
      \* moving the other shape by the collision vector leaves the two exactly tangent
      [] e.op = "disk_cvec" -> LET c2 == VAdd(e.c2, e.obs) IN Dist2(e.c, c2) = FSq(FAdd(e.r, e.r2))
                                                            /\ FLe(F0, Dot(VSub(c2, e.c), VSub(e.c2, e.c)))
Conforms(e) == e.pan = 0 /\ Ok(e)

Init == l = 1
Step ==
    /\ l <= Len(Rec)
    /\ IF Conforms(Rec[l]) THEN TRUE ELSE PrintT(ToJson([tag |-> "MISMATCH", l |-> l, exp |-> 0]))
    /\ l' = l + 1
Next == Step
Accepted == IF TLCGet("stats").diameter - 1 = Len(Rec) THEN TRUE
            ELSE PrintT(ToJson([tag |-> "REJECTED_AT", l |-> TLCGet("stats").diameter])) /\ FALSE
=============================================================================
