---------------------------- MODULE Law_XformS ----------------------------
(***************************************************************************)
(* The laws of the rotation / quaternion / builder part of the             *)
(* specification as POLYNOMIAL IDENTITIES on free symbols (VekField with   *)
(* P = PPoly, VekPoly): no sampling.  Angles are symbol pairs (c, s) and   *)
(* the laws that need a genuine angle hold modulo c^2 + s^2 = 1; the unit  *)
(* axis is a symbol triple (x, y, z) modulo x^2 + y^2 + z^2 = 1.  Both     *)
(* sides of such a law are reduced by rewriting s^2 -> 1 - c^2 and         *)
(* z^2 -> 1 - x^2 - y^2 (PReduce) and compared in canonical form, i.e. the *)
(* law is an identity of the ring Q[x,y,z,c,s,..]/(s^2+c^2-1, x^2+y^2+z^2  *)
(* -1) - the quantifier of C04 ("for all angles and all non-zero axes").   *)
(* Laws that are identities of the free ring itself (Hamilton algebra,     *)
(* q v conj(q) versus the matrix, builders, chains, embedding) are checked *)
(* without any relation - for every input in every commutative ring.       *)
(* One state; TLC evaluates the invariant once.                            *)
(***************************************************************************)
EXTENDS VekXform, TLC
VARIABLE k
Init == k = 0
Next == UNCHANGED k

X(i) == PVar(i)
c1 == X(1)   s1 == X(2)   c2 == X(3)   s2 == X(4)
n == <<X(5), X(6), X(7)>>
p1 == <<X(8), X(9), X(10), X(11)>>
p2 == <<X(12), X(13), X(14), X(15)>>
p3 == <<X(16), X(17), X(18), X(19)>>
v1 == <<X(20), X(21), X(22)>>
v2 == <<X(23), X(24), X(25)>>
pos == <<X(26), X(27), X(28)>>
w2 == <<X(29), X(30)>>
a1 == <<c1, s1>>
a2 == <<c2, s2>>
\* the relations
Red(p) == PReduce(PReduce(PReduce(p, Primes[2], FSub(F1, FSq(c1))), Primes[4], FSub(F1, FSq(c2))),
                  Primes[7], FSub(FSub(F1, FSq(n[1])), FSq(n[2])))
RedV(v) == [i \in 1 .. Len(v) |-> Red(v[i])]
RedM(A) == [i \in 1 .. Len(A) |-> RedV(A[i])]
IsRotS(R) == RedM(MatMul(R, Transp(R))) = Idn(Len(R)) /\ Red(Det(R)) = F1

\* C04
RotProper == IsRotS(RotX3(c1, s1)) /\ IsRotS(RotY3(c1, s1)) /\ IsRotS(RotZ3(c1, s1)) /\ IsRotS(RotZ2(c1, s1))
             /\ IsRotS(Rodrigues(c1, s1, n))
RotAdditive == LET s == AngAdd(a1, a2) IN
               /\ MatMul(RotX3(c1, s1), RotX3(c2, s2)) = RotX3(s[1], s[2])          \* identities of the free ring
               /\ MatMul(RotY3(c1, s1), RotY3(c2, s2)) = RotY3(s[1], s[2])
               /\ MatMul(RotZ3(c1, s1), RotZ3(c2, s2)) = RotZ3(s[1], s[2])
               /\ MatMul(RotZ2(c1, s1), RotZ2(c2, s2)) = RotZ2(s[1], s[2])
               /\ RedM(MatMul(Rodrigues(c1, s1, n), Rodrigues(c2, s2, n))) = RedM(Rodrigues(s[1], s[2], n))
RotCCW == /\ MatVec(RotZ3(c1, s1), Unit(3, 1)) = <<c1, s1, F0>>
          /\ MatVec(RotX3(c1, s1), Unit(3, 2)) = <<F0, c1, s1>>
          /\ MatVec(RotY3(c1, s1), Unit(3, 3)) = <<s1, F0, c1>>
          /\ MatVec(RotZ2(c1, s1), Unit(2, 1)) = <<c1, s1>>
RodriguesLaws == /\ RedV(MatVec(Rodrigues(c1, s1, n), n)) = n
                 /\ Rodrigues(c1, s1, Unit(3, 1)) = RotX3(c1, s1)
                 /\ Rodrigues(c1, s1, Unit(3, 2)) = RotY3(c1, s1)
                 /\ Rodrigues(c1, s1, Unit(3, 3)) = RotZ3(c1, s1)
                 /\ MatVec(Rodrigues(c1, s1, n), v1) =
                      VAdd(VAdd(VScale(v1, c1), VScale(Cross3(n, v1), s1)), VScale(n, FMul(FSub(F1, c1), Dot(n, v1))))
                 /\ Resize(Resize(Rodrigues(c1, s1, n), 4), 3) = Rodrigues(c1, s1, n)
\* the matrix of the half-angle quaternion is Rodrigues of the doubled angle
QuatRoute == LET d == AngDouble(a1) IN
             RedM(MatOfQuat3(QuatOfHalfAngleAxis(c1, s1, n))) = RedM(Rodrigues(d[1], d[2], n))
\* C05
HamiltonLaws == /\ QuatMul(QuatMul(p1, p2), p3) = QuatMul(p1, QuatMul(p2, p3))
                /\ QuatMul(QuatId, p1) = p1 /\ QuatMul(p1, QuatId) = p1
                /\ QuatNorm2(QuatMul(p1, p2)) = FMul(QuatNorm2(p1), QuatNorm2(p2))
                /\ QuatConj(QuatMul(p1, p2)) = QuatMul(QuatConj(p2), QuatConj(p1))
                /\ QuatMul(p1, QuatConj(p1)) = MkQuat(QuatNorm2(p1), <<F0, F0, F0>>)       \* inverse, fraction-free
                /\ QuatMul(p1, p2) # QuatMul(p2, p1)                                       \* sanity: visibly non-commutative
QuatActs == /\ VSub(QuatRot(p1, v1), MatVec(MatOfQuat3(p1), v1)) = VScale(v1, FSub(QuatNorm2(p1), F1))
            /\ QuatRot(QuatMul(p1, p2), v1) = QuatRot(p1, QuatRot(p2, v1))
\* C07
St(kind, vec, ang) == [k |-> kind, v |-> vec, c |-> ang[1], s |-> ang[2]]
Kinds4 == <<"translate_3d", "translate_2d", "scale_3d", "rotate_x", "rotate_y", "rotate_z", "rotate_3d">>
Kinds3 == <<"translate_2d", "scale_3d", "rotate_x", "rotate_y", "rotate_z", "rotate_3d">>
Kinds2 == <<"scale_2d", "shear_x", "shear_y", "rotate_z">>
VecFor(kind) == IF kind = "rotate_3d" THEN n ELSE IF kind \in {"translate_2d", "scale_2d", "shear_x", "shear_y"} THEN w2 ELSE v2
BuilderActs ==
    /\ \A i \in 1 .. Len(Kinds4) : LET st == St(Kinds4[i], VecFor(Kinds4[i]), a1)
                                   IN MatVec(StepMat(4, st), Point4(v1)) = Point4(StepPoint(st, v1))
    /\ \A i \in 1 .. Len(Kinds3) : LET st == St(Kinds3[i], VecFor(Kinds3[i]), a1)
                                   IN IF Kinds3[i] = "translate_2d"
                                      THEN MatVec(StepMat(3, st), Point3(w2)) = Point3(StepPoint(st, w2))
                                      ELSE MatVec(StepMat(3, st), v1) = StepPoint(st, v1)
    /\ \A i \in 1 .. Len(Kinds2) : LET st == St(Kinds2[i], VecFor(Kinds2[i]), a1)
                                   IN MatVec(StepMat(2, st), XY(v1)) = StepPoint(st, XY(v1))
    /\ MatVec(Transl3(v2), Dir4(v1)) = Dir4(v1) /\ MatVec(Transl2in3(w2), Dir3(w2)) = Dir3(w2)
\* every pair of builder kinds, then a translation: the accumulated matrix acts like the steps in call order
VecFor2(kind) == IF kind \in {"translate_2d", "scale_2d", "shear_x", "shear_y"} THEN <<X(31), X(32)>> ELSE <<X(31), X(32), X(33)>>
ChainOrder ==
    /\ \A i, j \in 1 .. 6 : LET ch4 == <<St(Kinds4[i], VecFor(Kinds4[i]), a1), St(Kinds4[j], VecFor2(Kinds4[j]), a2), St("translate_3d", pos, a1)>>
                            IN MatVec(ChainMat(4, ch4, 3), Point4(v1)) = Point4(ChainPoint(ch4, 3, v1))
    /\ \A i, j \in 1 .. 4 : LET ch2 == <<St(Kinds2[i], w2, a1), St(Kinds2[j], VecFor2(Kinds2[j]), a2), St("rotate_z", w2, a1)>>
                            IN MatVec(ChainMat(2, ch2, 3), XY(v1)) = ChainPoint(ch2, 3, XY(v1))
\* Transform: T * M(q) * S acts as p -> pos + M(q)(scale . p) for EVERY q (unit or not)
TransformLaw == /\ MatVec(XformMat(pos, p1, v2), Point4(v1)) = Point4(VAdd(pos, MatVec(MatOfQuat3(p1), VMulW(v2, v1))))
                /\ XformMat(VZero(3), QuatId, <<F1, F1, F1>>) = Idn(4)
\* C09 / C19
BasisLaws == LET i == <<X(31), X(32), X(33)>>  j == <<X(34), X(35), X(36)>>  kk == <<X(37), X(38), X(39)>>
                 L == LocalToBasis(pos, i, j, kk)
             IN /\ MulPoint(L, VZero(3)) = pos
                /\ MulPoint(L, Unit(3, 1)) = VAdd(pos, i) /\ MulPoint(L, Unit(3, 2)) = VAdd(pos, j)
                /\ MulPoint(L, Unit(3, 3)) = VAdd(pos, kk)
EmbedLaw == LET A3 == [i \in 1 .. 3 |-> [j \in 1 .. 3 |-> X(30 + 3 * (i - 1) + j)]]
                B3 == [i \in 1 .. 3 |-> [j \in 1 .. 3 |-> X(8 + 3 * (i - 1) + j)]]
                A2 == [i \in 1 .. 2 |-> [j \in 1 .. 2 |-> X(40 + 2 * (i - 1) + j)]]
            IN /\ MatVec(Resize(A3, 4), Dir4(v1)) = Dir4(MatVec(A3, v1))
               /\ MatVec(Resize(A3, 4), Point4(v1)) = Point4(MatVec(A3, v1))
               /\ MatVec(Resize(A2, 3), Dir3(w2)) = Dir3(MatVec(A2, w2)) /\ MatVec(Resize(A2, 3), Point3(w2)) = Point3(MatVec(A2, w2))
               /\ Resize(MatMul(A3, B3), 4) = MatMul(Resize(A3, 4), Resize(B3, 4))
\* sanity: without the relation c^2 + s^2 = 1 a "rotation" matrix on free symbols is NOT orthogonal, and with the wrong
\* sign of the sine the additivity law fails - the comparisons above are not vacuously true
Sanity == /\ MatMul(RotZ2(c1, s1), Transp(RotZ2(c1, s1))) # Idn(2)
          /\ MatMul(RotZ2(c1, s1), RotZ2(c2, FNeg(s2))) # RotZ2(AngAdd(a1, a2)[1], AngAdd(a1, a2)[2])
          /\ RedM(MatOfQuat3(QuatOfHalfAngleAxis(c1, s1, n))) # RedM(Rodrigues(c1, s1, n))
SymLaws == Sanity /\ RotProper /\ RotAdditive /\ RotCCW /\ RodriguesLaws /\ QuatRoute /\ HamiltonLaws /\ QuatActs
           /\ BuilderActs /\ ChainOrder /\ TransformLaw /\ BasisLaws /\ EmbedLaw
=============================================================================
