----------------------------- MODULE Trace_Own -----------------------------
(* Trace validation (B2) of vek's container conversions with an ownership-  *)
(* tracking element type against VekOwn.  One record per call.             *)
EXTENDS VekOwn, TLC, Json, IOUtils
Rec == ndJsonDeserialize(IOEnv.TRACE)
VARIABLE l
Ops == {"vec_from_array", "vec_into_array", "vec_from_tuple", "vec_into_tuple", "vec_as_slice",
        "vec_as_mut_slice", "vec_from_iter", "mat_into_row_array", "mat_into_row_arrays",
        "mat_into_col_array", "mat_into_col_arrays", "mat_from_row_array", "mat_from_row_arrays",
        "mat_from_col_array", "mat_from_col_arrays", "mat_transposed"}
Conforms(e) == /\ e.op \in Ops
               /\ e.out = ExpectedOut(e)
               /\ e.dropped = ExpectedDropped(e)
               /\ Ledger(e)
Init == l = 1
Convert == /\ l <= Len(Rec)
           /\ IF Conforms(Rec[l]) THEN TRUE
              ELSE PrintT(ToJson([tag |-> "MISMATCH", l |-> l, exp |-> ExpectedOut(Rec[l]),
                                  expdropped |-> ExpectedDropped(Rec[l])]))
           /\ l' = l + 1
Next == Convert
Accepted == IF TLCGet("stats").diameter - 1 = Len(Rec) THEN TRUE
            ELSE PrintT(ToJson([tag |-> "REJECTED_AT", l |-> TLCGet("stats").diameter])) /\ FALSE
=============================================================================
