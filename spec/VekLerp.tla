------------------------------- MODULE VekLerp -------------------------------
(***************************************************************************)
(* Interpolation (C12): linear interpolation of scalars and vectors in the *)
(* fast and the precise form, clamping of the factor, integer              *)
(* interpolation as the rounded real value (VekOps!LerpInt), normalised    *)
(* quaternion lerp, spherical interpolation of unit quaternions and        *)
(* vectors, Transform interpolation and Transition accessors.              *)
(* C12 | src/ops.rs Lerp, Slerp; src/vec.rs lerp.., slerp..;               *)
(*       src/quaternion.rs lerp.., slerp..; src/transform.rs Lerp;         *)
(*       src/transition.rs Transition::current.. / into_current..          *)
(***************************************************************************)
EXTENDS VekXform

LerpFast(a, b, t) == FAdd(FMul(t, FSub(b, a)), a)                       \* t*(b-a) + a
LerpPrecise(a, b, t) == FAdd(FMul(a, FSub(F1, t)), FMul(b, t))          \* a*(1-t) + b*t
Clamp01(t) == IF FLt(t, F0) THEN F0 ELSE IF FLt(F1, t) THEN F1 ELSE t   \* ordered rings only (P <= 0)
\* per-element interpolation of sequences, factor given per element
VLerpFast(a, b, t) == [i \in 1 .. Len(a) |-> LerpFast(a[i], b[i], t[i])]
VLerpPrecise(a, b, t) == [i \in 1 .. Len(a) |-> LerpPrecise(a[i], b[i], t[i])]
VClamp01(t) == [i \in 1 .. Len(t) |-> Clamp01(t[i])]
VLerp(variant, a, b, t) ==
    CASE variant = "unclamped" -> VLerpFast(a, b, t)
      [] variant = "unclamped_precise" -> VLerpPrecise(a, b, t)
      [] variant = "clamped" -> VLerpFast(a, b, VClamp01(t))
      [] variant = "clamped_precise" -> VLerpPrecise(a, b, VClamp01(t))
Broadcast(n, t) == [i \in 1 .. n |-> t]

---------------------------------------------------------------------------
(* Spherical interpolation of unit quaternions.  The second end is given   *)
(* constructively: to = from * (cos th, sin th * axis) with th = m*phi_b a *)
(* token angle and `axis` a unit vector, so th is the angle between the    *)
(* two quaternions on the unit 3-sphere.  The factor is the exact fraction *)
(* j/mm.  The interpolation runs along the SHORTER arc: when cos th < 0    *)
(* the far end is replaced by its negative (same rotation) and the angle   *)
(* by pi - th.  The sign of cos th is decided on exact pairs.              *)
RECURSIVE TokenCosQ(_, _, _)
\* (cos, sin) of k*phi_b as exact pairs <<n, d>>, whatever ring P selects
TokenCSQ(b, k) == LET c1 == QF(PythBase[b][1], PythBase[b][3])  s1 == QF(PythBase[b][2], PythBase[b][3])
                  IN TokenCosQ(<<c1, s1>>, k, <<Q(1), Q(0)>>)
TokenCosQ(base, k, acc) == IF k = 0 THEN acc
                           ELSE TokenCosQ(base, k - 1, <<QSub(QMul(acc[1], base[1]), QMul(acc[2], base[2])),
                                                          QAdd(QMul(acc[2], base[1]), QMul(acc[1], base[2]))>>)
Obtuse(b, m) == QLt(TokenCSQ(b, m)[1], Q(0))
SlerpEnd(from, axis, b, m) == LET cs == TokenCS(b, m) IN QuatMul(from, MkQuat(cs[1], VScale(axis, cs[2])))
QuarterCS(k) == LET q == k % 4 IN IF q = 0 THEN <<F1, F0>> ELSE IF q = 1 THEN <<F0, F1>> ELSE IF q = 2 THEN <<FNeg(F1), F0>> ELSE <<F0, FNeg(F1)>>
\* defined when the fraction of the (effective) angle is a token again
SlerpDefined(b, m, j, mm) == /\ mm > 0 /\ (m * j) % mm = 0
                             /\ (Obtuse(b, m) => (2 * j) % mm = 0)
Slerp(from, axis, b, m, j, mm) ==
    IF m = 0 THEN from
    ELSE IF ~Obtuse(b, m)
    THEN LET cs == TokenCS(b, (m * j) \div mm) IN QuatMul(from, MkQuat(cs[1], VScale(axis, cs[2])))
    ELSE LET cs == AngAdd(QuarterCS((2 * j) \div mm), TokenCS(b, -((m * j) \div mm)))
         IN QuatMul(from, MkQuat(cs[1], VScale(axis, FNeg(cs[2]))))
ClampFrac(j, mm) == IF j < 0 THEN 0 ELSE IF j > mm THEN mm ELSE j
=============================================================================
