\* ordered lane: exact rationals logged as pairs <<n, d>>
CONSTANT P <- PRational
INIT Init
NEXT Next
POSTCONDITION Accepted
CHECK_DEADLOCK FALSE
