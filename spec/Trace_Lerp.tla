----------------------------- MODULE Trace_Lerp -----------------------------
(***************************************************************************)
(* Trace validation (binding B2, code -> spec) for interpolation (C12).    *)
(* P = -1 (exact pairs): `lerp` (all Lerp forms of scalars and vectors,    *)
(* by value and by reference, scalar and per-element factor, clamped and   *)
(* range forms) and `transition` (the Transition accessors).               *)
(* P = 46337 (residues): `nlerp` (quaternion lerp = normalised lerp),      *)
(* `slerp` (quaternion spherical interpolation, constructive far end),     *)
(* `xform_lerp` (Transform interpolation).                                 *)
(***************************************************************************)
EXTENDS VekLerp, TLC, Json, IOUtils
Rec == DecodeTrace(ndJsonDeserialize(IOEnv.TRACE))
VARIABLE l

MapProgress(mapper, p) == CASE mapper = "id" -> p [] mapper = "sq" -> FMul(p, p) [] mapper = "one_minus" -> FSub(F1, p)
TransVariant(acc) == CASE acc \in {"into_current", "current"} -> "clamped"
                       [] acc \in {"into_current_unclamped", "current_unclamped"} -> "unclamped"
                       [] acc \in {"into_current_precise", "current_precise"} -> "clamped_precise"
                       [] acc \in {"into_current_unclamped_precise", "current_unclamped_precise"} -> "unclamped_precise"
SlerpExp(e) == LET j == IF e.clamped = 1 THEN ClampFrac(e.t[1], e.t[2]) ELSE e.t[1]
               IN Slerp(e.from, e.axis, e.b, e.m, j, e.t[2])
LerpVec(e) == IF e.variant \in {"unclamped", "clamped"} THEN VLerpFast(e.a, e.b, Broadcast(Len(e.a), e.t))
              ELSE VLerpPrecise(e.a, e.b, Broadcast(Len(e.a), e.t))
Expected(e) ==
    CASE e.op = "lerp" -> VLerp(e.variant, e.a, e.b, e.t)
      [] e.op = "transition" -> VLerp(TransVariant(e.acc), e.start, e.end, Broadcast(Len(e.start), MapProgress(e.mapper, e.progress)))
      [] e.op = "nlerp" -> VScale(LerpVec(e), FInv(e.len))
      [] e.op = "slerp" -> SlerpExp(e)
      [] e.op = "xform_lerp" -> [pos |-> IF e.variant = "unclamped" THEN VLerpFast(e.a.pos, e.bb.pos, Broadcast(3, FOfQ(e.tq)))
                                         ELSE VLerpPrecise(e.a.pos, e.bb.pos, Broadcast(3, FOfQ(e.tq))),
                                 scale |-> IF e.variant = "unclamped" THEN VLerpFast(e.a.scale, e.bb.scale, Broadcast(3, FOfQ(e.tq)))
                                           ELSE VLerpPrecise(e.a.scale, e.bb.scale, Broadcast(3, FOfQ(e.tq))),
                                 q |-> Slerp(e.from, e.axis, e.b, e.m, e.t[1], e.t[2])]
Extra(e) ==
    CASE e.op = "nlerp" -> FSq(e.len) = Norm2(LerpVec(e)) /\ e.lenq[1] > 0 /\ e.lenq[2] > 0 /\ FOfQ(e.lenq) = e.len
      [] e.op = "slerp" -> /\ SlerpDefined(e.b, e.m, IF e.clamped = 1 THEN ClampFrac(e.t[1], e.t[2]) ELSE e.t[1], e.t[2])
                           \* the far end is what the record says it is (either sign: both denote the same rotation)
                           /\ (e.to = SlerpEnd(e.from, e.axis, e.b, e.m) \/ e.to = VNeg(SlerpEnd(e.from, e.axis, e.b, e.m)))
                           /\ QuatNorm2(e.from) = F1 /\ Norm2(e.axis) = F1
                           /\ QuatNorm2(e.obs) = F1                                \* stays on the unit sphere
      [] e.op = "xform_lerp" -> /\ SlerpDefined(e.b, e.m, e.t[1], e.t[2]) /\ (e.bb.q = SlerpEnd(e.from, e.axis, e.b, e.m) \/ e.bb.q = VNeg(SlerpEnd(e.from, e.axis, e.b, e.m)))
                                /\ e.a.q = e.from /\ FOfQ(e.tq) = FDiv(FI(e.t[1]), FI(e.t[2]))
      [] OTHER -> TRUE
\* floats (plain integers: (|q|^2 - 1) * 2^44 for f64, * 2^20 for f32): slerp / nlerp of two unit quaternions is a unit quaternion to
\* rounding accuracy, for every angle between the operands (nearly parallel pairs included) and every factor
SlerpFOk(e) == IF e.ty = "f64" THEN e.obs \in -4096 .. 4096 ELSE e.obs \in -16 .. 16
Conforms(e) == e.pan = 0 /\ (IF e.op = "slerp_f" THEN SlerpFOk(e) ELSE e.obs = Expected(e) /\ Extra(e))

Init == l = 1
Step(name) ==
    /\ l <= Len(Rec) /\ Rec[l].op = name
    /\ IF Conforms(Rec[l]) THEN TRUE
       ELSE PrintT(ToJson([tag |-> "MISMATCH", l |-> l, exp |-> IF name = "slerp_f" THEN 0 ELSE Expected(Rec[l])]))
    /\ l' = l + 1
LerpA == Step("lerp")
Transition == Step("transition")
NLerp == Step("nlerp")
SlerpA == Step("slerp")
XformLerp == Step("xform_lerp")
SlerpF == Step("slerp_f")
Next == LerpA \/ Transition \/ NLerp \/ SlerpA \/ XformLerp \/ SlerpF
Accepted == IF TLCGet("stats").diameter - 1 = Len(Rec) THEN TRUE
            ELSE PrintT(ToJson([tag |-> "REJECTED_AT", l |-> TLCGet("stats").diameter])) /\ FALSE
=============================================================================
