CONSTANTS P = 46337
  K = 100
INIT Init
NEXT Next
INVARIANTS Forms DerivLaw SplitLaw ConvLaw
CHECK_DEADLOCK FALSE
