---------------------------- MODULE Trace_MatProg ----------------------------
(***************************************************************************)
(* Trace validation for C03 (binding B2): each `matprog` record is one     *)
(* program run on a row-major and a column-major value side by side; after *)
(* every call both values were projected through eight routes (indexing,   *)
(* row array, column array, flat slice view and raw pointer view read with *)
(* the OpenGL transpose flag, mint row and column matrices, Display).  All *)
(* sixteen projections must equal the abstract matrix of the machine after *)
(* that call (and is_packed holds).  Single-call records: map_rows /       *)
(* map_cols,                                                               *)
(* diagonal / trace / counts.                                              *)
(***************************************************************************)
EXTENDS VekMatProg, TLC, Json, IOUtils
Rec == ndJsonDeserialize(IOEnv.TRACE)
VARIABLE l
Routes == {"idx", "rows", "cols", "slice", "ptr", "mintr", "mintc", "disp"}
StepOk(o, A) == /\ \A rt \in Routes : o.r[rt] = A /\ o.c[rt] = A
                \* the flat view lists elements in the order its name says: rows for as_row_slice (flag TRUE = transpose
                \* for OpenGL), columns for as_col_slice (flag FALSE)
                /\ \A v \in {o.r, o.c} : v.flag = (IF v.lay = "r" THEN 1 ELSE 0) /\ v.named_order = 1 /\ v.packed = 1
                /\ o.r.lay # o.c.lay                                   \* the two registers always hold the two different layouts
\* by induction over the recorded matrices: the abstract matrix after call k is Apply(matrix after call k-1, call k),
\* the previous matrix being the (already validated) indexing view of the previous step; equal to
\* Run(Symbols(e.n0), e.calls, k)
ProgOk(e) == /\ Len(e.obs) = Len(e.calls) + 1
             /\ StepOk(e.obs[1], Symbols(e.n0))
             /\ \A k \in 1 .. Len(e.calls) : StepOk(e.obs[k + 1], Apply(e.obs[k].r.idx, e.calls[k]))
\* Display forwards the caller's format parameters to every element, whatever the layout: with "{:+8.1}" an element
\* a/8 (a odd, so no tie) prints as its value rounded to one decimal, with sign, in (at least) 8 characters -
\* the padded tokens are split on blanks, so the logged length is that of sign + digits
RoundTenths(a) == IF a >= 0 THEN (a * 10 + 4) \div 8 ELSE 0 - ((0 - a) * 10 + 4) \div 8
DigitsOf(t) == IF t < 100 THEN 4 ELSE IF t < 1000 THEN 5 ELSE 6      \* "+d.d", "+dd.d", "+ddd.d"
DisplayFmtOk(e) == /\ Len(e.obs) = e.n
                   /\ \A i \in 1 .. e.n : /\ Len(e.obs[i]) = e.n
                                          /\ \A j \in 1 .. e.n : /\ e.obs[i][j][1] = 100 * RoundTenths(e.a[i][j])
                                                                 /\ e.obs[i][j][2] = DigitsOf(Abs(RoundTenths(e.a[i][j])))
RevRows(A) == [i \in 1 .. Len(A) |-> [j \in 1 .. Len(A) |-> A[i][Len(A) + 1 - j]]]
RevCols(A) == [i \in 1 .. Len(A) |-> [j \in 1 .. Len(A) |-> A[Len(A) + 1 - i][j]]]
Ok(e) == CASE e.op = "matprog" -> ProgOk(e)
           [] e.op = "map_lines" -> e.obs = (IF e.how = "rows" THEN RevRows(e.a) ELSE RevCols(e.a))
           [] e.op = "display_fmt" -> DisplayFmtOk(e)
           [] e.op = "diag" -> e.obs = (CASE e.how = "diagonal" -> Diag(e.a) [] e.how = "trace" -> <<TraceM(e.a)>> [] e.how = "counts" -> <<e.n, e.n>>)
Init == l = 1
Step(name) ==
    /\ l <= Len(Rec) /\ Rec[l].op = name
    /\ IF Rec[l].pan = 0 /\ Ok(Rec[l]) THEN TRUE
       ELSE PrintT(ToJson([tag |-> "MISMATCH", l |-> l,
                           exp |-> IF name = "matprog" THEN [k \in 0 .. Len(Rec[l].calls) |-> Run(Symbols(Rec[l].n0), Rec[l].calls, k)] ELSE <<>>]))
    /\ l' = l + 1
MatProg == Step("matprog")
MapLines == Step("map_lines")
DiagA == Step("diag")
DisplayFmt == Step("display_fmt")
Next == MatProg \/ MapLines \/ DiagA \/ DisplayFmt
Accepted == IF TLCGet("stats").diameter - 1 = Len(Rec) THEN TRUE
            ELSE PrintT(ToJson([tag |-> "REJECTED_AT", l |-> TLCGet("stats").diameter])) /\ FALSE
=============================================================================
