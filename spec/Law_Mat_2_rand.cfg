\* K random operand tuples over Z_46337
CONSTANTS P = 46337
  N = 2
  MODE = "random"
  K = 400
INIT Init
NEXT Next
INVARIANT Laws
CHECK_DEADLOCK FALSE
