----------------------------- MODULE VekOpsCore -----------------------------
(***************************************************************************)
(* Declarative meaning of vek's scalar range operations (C17) over the     *)
(* mathematical integers: clamp, range test, wrap, wrap between, ping-pong,*)
(* shortest signed angle difference.  Kept free of recursive definitions   *)
(* so that the same text is read by TLC (through VekOps), and by the proof *)
(* system (Proof_Ops: the scaling laws that lift the exhaustive 8-bit      *)
(* tables of MC_Ops to the wide integer types, proved for ALL integers).   *)
(* Anchors: src/ops.rs Clamp, IsBetween, Wrap (wrapped, wrapped_between,   *)
(* pingpong, delta_angle).                                                 *)
(*                                                                         *)
(* PANIC is the outcome "the call panics"; documented panics are part of   *)
(* the specification, undocumented ones (arithmetic overflow) are not, so  *)
(* an implementation that overflows simply disagrees with these operators. *)
(***************************************************************************)
EXTENDS Integers

PANIC == 999999

\* C17 | src/ops.rs:119-173 clamped / is_between: panic iff lower > upper
Clamp(x, lo, hi) == IF lo > hi THEN PANIC
                    ELSE IF x < lo THEN lo ELSE IF x > hi THEN hi ELSE x
IsBetween(x, lo, hi) == IF lo > hi THEN PANIC
                        ELSE IF lo <= x /\ x <= hi THEN 1 ELSE 0

\* C17 | src/ops.rs:432-545.  "the unique r in [lo,hi) congruent to x"
WrapBetweenDecl(x, lo, hi) == CHOOSE r \in lo .. (hi - 1) : (r - x) % (hi - lo) = 0
WrapBetweenOk(lo, hi) == lo < hi /\ lo >= 0 /\ hi > 0        \* documented preconditions
WrapBetween(x, lo, hi) == IF ~WrapBetweenOk(lo, hi) THEN PANIC
                          ELSE lo + ((x - lo) % (hi - lo))   \* closed form; = Decl by MC_Ops
Wrapped(x, u) == IF u <= 0 THEN PANIC ELSE x % u
\* triangle wave of period 2u with values in 0..u
PingPong(x, u) == IF u <= 0 THEN PANIC
                  ELSE LET r == x % (2 * u) IN IF r <= u THEN r ELSE 2 * u - r
\* shortest signed difference, in units where a full turn is `turn` (even):
\* result in (-turn/2, turn/2], congruent to target - self
DeltaAngle(self, target, turn) == LET n == (target - self) % turn
                                  IN IF 2 * n > turn THEN n - turn ELSE n
=============================================================================
