------------------------------ MODULE Gen_Ops ------------------------------
(***************************************************************************)
(* Table emitter (binding B3, spec -> code) for C17.                       *)
(* For one 8-bit signedness, prints the declarative result of every range  *)
(* operation for EVERY value x of the type, one JSON row per bound pair:   *)
(*   {"f":"wrapped_between","lo":..,"hi":..,"v":[F(ZMin,lo,hi) .. F(ZMax,lo,hi)]}*)
(* The Rust replayer (vh replay ops) runs the real vek code on every entry *)
(* and on scaled copies for the wider integer types.                       *)
(* Environment: SIGNED=0|1, FN=<function>, LOS="a,b,c" list of lo values   *)
(* (binary functions ignore lo and use LOS="0"), HIS likewise or "all".    *)
(***************************************************************************)
EXTENDS VekOps, TLC, Json, IOUtils
VARIABLES lo, hi

SIGNED == IOEnv.SIGNED = "1"
FN == IOEnv.FN
T == ZRange(8, SIGNED)
RECURSIVE SplitInts(_, _, _)
\* parse "a,b,-c" into a set of integers
SplitInts(s, i, acc) ==
    IF i > Len(s) THEN acc
    ELSE LET j == CHOOSE k \in i .. (Len(s) + 1) :
                     (k = Len(s) + 1 \/ SubSeq(s, k, k) = ",") /\
                     \A m \in i .. (k - 1) : SubSeq(s, m, m) # ","
         IN SplitInts(s, j + 1, acc \cup {atoi(SubSeq(s, i, j - 1))})
Sel(name) == IF IOEnv[name] = "all" THEN T ELSE SplitInts(IOEnv[name], 1, {})

F(x, l, h) == CASE FN = "clamped" -> Clamp(x, l, h)
                [] FN = "is_between" -> IsBetween(x, l, h)
                [] FN = "wrapped_between" -> WrapBetween(x, l, h)
                [] FN = "wrapped" -> Wrapped(x, h)
                [] FN = "pingpong" -> PingPong(x, h)
Row == [f |-> FN, lo |-> lo, hi |-> hi,
        v |-> [i \in 1 .. 256 |-> F(ZMin(8, SIGNED) + i - 1, lo, hi)]]
Init == lo \in Sel("LOS") /\ hi \in Sel("HIS")
Next == UNCHANGED <<lo, hi>>
Emit == PrintT(ToJson(Row))
=============================================================================
