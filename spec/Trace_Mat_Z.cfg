\* integer lane: i32/i64/f32/f64 monomorphisations on small integers
CONSTANT P = 0
INIT Init
NEXT Next
POSTCONDITION Accepted
CHECK_DEADLOCK FALSE
