------------------------------- MODULE VekProj -------------------------------
(***************************************************************************)
(* Projection matrices (C08) and viewport projection / unprojection /      *)
(* picking (C10) of the abstract machine.                                  *)
(* Two layers.  AXIOMS say what a projection must do (the corners of the   *)
(* view volume go to the corners of the clip volume after the homogeneous  *)
(* divide, w = +-z); FORMULAS give the 20 matrices entry by entry.  The    *)
(* formulas are derived here independently of the code and Law_Proj checks *)
(* (TLC, random view volumes over Z_46337, off-centre included) that every *)
(* formula satisfies its axioms before it is used as an oracle.            *)
(* A view volume is a record [l, r, b, t, n, f]; hand is "lh" | "rh";      *)
(* depth is "zo" (near -> 0) | "no" (near -> -1).                          *)
(* C08 | src/mat.rs orthographic_.., frustum_.., perspective_..,           *)
(*       perspective_fov_.., (tweaked_)infinite_perspective_..             *)
(* C10 | src/mat.rs world_to_viewport_.., viewport_to_world_.., picking_region*)
(***************************************************************************)
EXTENDS VekXform

Two == FI(2)
ZSign(hand) == IF hand = "lh" THEN F1 ELSE FNeg(F1)      \* the viewer looks down +z (lh) or -z (rh)
NearDepth(depth) == IF depth = "zo" THEN F0 ELSE FNeg(F1)
ZMirror == WithDiag(<<F1, F1, FNeg(F1), F1>>)

---------------------------------------------------------------------------
(* Formulas                                                                *)
OrthoXY(o) == << <<FDiv(Two, FSub(o.r, o.l)), F0, F0, FNeg(FDiv(FAdd(o.r, o.l), FSub(o.r, o.l)))>>,
                 <<F0, FDiv(Two, FSub(o.t, o.b)), F0, FNeg(FDiv(FAdd(o.t, o.b), FSub(o.t, o.b)))>>,
                 <<F0, F0, F1, F0>>, <<F0, F0, F0, F1>> >>
WithZ(M, m22, m23) == [M EXCEPT ![3] = <<F0, F0, m22, m23>>]
OrthoLH(o, depth) == IF depth = "zo"
                     THEN WithZ(OrthoXY(o), FDiv(F1, FSub(o.f, o.n)), FNeg(FDiv(o.n, FSub(o.f, o.n))))
                     ELSE WithZ(OrthoXY(o), FDiv(Two, FSub(o.f, o.n)), FNeg(FDiv(FAdd(o.f, o.n), FSub(o.f, o.n))))
Ortho(o, hand, depth) == IF hand = "lh" THEN OrthoLH(o, depth) ELSE MatMul(OrthoLH(o, depth), ZMirror)
FrustumLH(o, depth) ==
    LET dn == FSub(o.f, o.n)
        m22 == IF depth = "zo" THEN FDiv(o.f, dn) ELSE FDiv(FAdd(o.f, o.n), dn)
        m23 == IF depth = "zo" THEN FNeg(FDiv(FMul(o.f, o.n), dn)) ELSE FNeg(FDiv(FMul(Two, FMul(o.f, o.n)), dn))
    IN << <<FDiv(FMul(Two, o.n), FSub(o.r, o.l)), F0, FNeg(FDiv(FAdd(o.r, o.l), FSub(o.r, o.l))), F0>>,
          <<F0, FDiv(FMul(Two, o.n), FSub(o.t, o.b)), FNeg(FDiv(FAdd(o.t, o.b), FSub(o.t, o.b))), F0>>,
          <<F0, F0, m22, m23>>,
          <<F0, F0, F1, F0>> >>
Frustum(o, hand, depth) == IF hand = "lh" THEN FrustumLH(o, depth) ELSE MatMul(FrustumLH(o, depth), ZMirror)
\* the symmetric view volume implied by tan(fov_y / 2), aspect = width / height, near, far
SymPlanes(tanh, aspect, n, f) == LET t == FMul(n, tanh) r == FMul(t, aspect)
                                 IN [l |-> FNeg(r), r |-> r, b |-> FNeg(t), t |-> t, n |-> n, f |-> f]
Perspective(tanh, aspect, n, f, hand, depth) == Frustum(SymPlanes(tanh, aspect, n, f), hand, depth)
PerspectiveFov(tanh, width, height, n, f, hand, depth) == Perspective(tanh, FDiv(width, height), n, f, hand, depth)
\* far plane at infinity (depth -1 .. 1-eps)                               | GLM tweakedInfinitePerspective
InfinitePerspectiveRH(tanh, aspect, n, eps) ==
    << <<FDiv(F1, FMul(aspect, tanh)), F0, F0, F0>>, <<F0, FDiv(F1, tanh), F0, F0>>,
       <<F0, F0, FSub(eps, F1), FMul(FSub(eps, Two), n)>>, <<F0, F0, FNeg(F1), F0>> >>
InfinitePerspective(tanh, aspect, n, eps, hand) ==
    IF hand = "rh" THEN InfinitePerspectiveRH(tanh, aspect, n, eps) ELSE MatMul(InfinitePerspectiveRH(tanh, aspect, n, eps), ZMirror)

---------------------------------------------------------------------------
(* Axioms                                                                  *)
Clip(M, p) == MatVec(M, Point4(p))
\* after the homogeneous divide: clip.xyz = ndc * clip.w (stated without division)
MapsTo(M, p, ndc) == LET c == Clip(M, p) IN <<c[1], c[2], c[3]>> = VScale(ndc, c[4])
Sg(k) == IF k = 1 THEN FNeg(F1) ELSE F1                \* k = 1 -> -1 (left/bottom), 2 -> +1
\* an orthographic matrix: the 8 corners of the box go to the clip corners, w stays 1
OrthoAxioms(M, o, hand, depth) ==
    \A ix, iy \in {1, 2} :
        LET x == IF ix = 1 THEN o.l ELSE o.r
            y == IF iy = 1 THEN o.b ELSE o.t
        IN /\ MapsTo(M, <<x, y, FMul(ZSign(hand), o.n)>>, <<Sg(ix), Sg(iy), NearDepth(depth)>>)
           /\ MapsTo(M, <<x, y, FMul(ZSign(hand), o.f)>>, <<Sg(ix), Sg(iy), F1>>)
           /\ Clip(M, <<x, y, FMul(ZSign(hand), o.n)>>)[4] = F1
\* a perspective matrix: near-plane corners and the far-plane corners on the same rays;
\* w equals the distance in front of the viewer (so it is positive there)
FrustumAxioms(M, o, hand, depth) ==
    \A ix, iy \in {1, 2} :
        LET x == IF ix = 1 THEN o.l ELSE o.r
            y == IF iy = 1 THEN o.b ELSE o.t
            k == FDiv(o.f, o.n)
        IN /\ MapsTo(M, <<x, y, FMul(ZSign(hand), o.n)>>, <<Sg(ix), Sg(iy), NearDepth(depth)>>)
           /\ MapsTo(M, <<FMul(x, k), FMul(y, k), FMul(ZSign(hand), o.f)>>, <<Sg(ix), Sg(iy), F1>>)
           /\ Clip(M, <<x, y, FMul(ZSign(hand), o.n)>>)[4] = o.n
           /\ Clip(M, <<FMul(x, k), FMul(y, k), FMul(ZSign(hand), o.f)>>)[4] = o.f
\* infinite far plane: near corners as above (depth -1), depth tends to 1 - eps: for a point at
\* distance d the clip depth is (1-eps) d + (eps-2) n, i.e. M[3][3]*zsign = 1-eps and M[3][4] = (eps-2) n
InfiniteAxioms(M, o, eps, hand) ==
    /\ \A ix, iy \in {1, 2} :
          LET x == IF ix = 1 THEN o.l ELSE o.r
              y == IF iy = 1 THEN o.b ELSE o.t
          IN /\ MapsTo(M, <<x, y, FMul(ZSign(hand), o.n)>>, <<Sg(ix), Sg(iy), FNeg(F1)>>)
             /\ Clip(M, <<x, y, FMul(ZSign(hand), o.n)>>)[4] = o.n
    /\ FMul(M[3][3], ZSign(hand)) = FSub(F1, eps)
    /\ M[4] = <<F0, F0, ZSign(hand), F0>>

---------------------------------------------------------------------------
(* C10.  vp is a record [x, y, w, h].                                      *)
Project(obj, mv, proj, vp, depth) ==
    LET c == MatVec(proj, MatVec(mv, Point4(obj)))
        nx == FDiv(c[1], c[4])  ny == FDiv(c[2], c[4])  nz == FDiv(c[3], c[4])
        half(a) == FAdd(FDiv(a, Two), FHalf)
    IN << FAdd(FMul(half(nx), vp.w), vp.x), FAdd(FMul(half(ny), vp.h), vp.y), IF depth = "no" THEN half(nz) ELSE nz >>
Unproject(win, mv, proj, vp, depth) ==
    LET unhalf(a) == FSub(FMul(a, Two), F1)
        nx == unhalf(FDiv(FSub(win[1], vp.x), vp.w))
        ny == unhalf(FDiv(FSub(win[2], vp.y), vp.h))
        nz == IF depth = "no" THEN unhalf(win[3]) ELSE win[3]
        o == MatVec(Inv(MatMul(proj, mv)), <<nx, ny, nz, F1>>)
    IN << FDiv(o[1], o[4]), FDiv(o[2], o[4]), FDiv(o[3], o[4]) >>
\* window coordinates -> clip (NDC) coordinates of the viewport
WinToClip(x, y, vp) == << FSub(FDiv(FMul(Two, FSub(x, vp.x)), vp.w), F1), FSub(FDiv(FMul(Two, FSub(y, vp.y)), vp.h), F1) >>
\* GLM pickMatrix: translate, then scale (in that order of composition)
PickMatrix(c, d, vp) == MatMul(Transl3(<<FDiv(FSub(vp.w, FMul(Two, FSub(c[1], vp.x))), d[1]),
                                          FDiv(FSub(vp.h, FMul(Two, FSub(c[2], vp.y))), d[2]), F0>>),
                               Scale3in4(<<FDiv(vp.w, d[1]), FDiv(vp.h, d[2]), F1>>))
\* the picked window rectangle, expressed in clip coordinates, is mapped onto the whole clip square
PickAxioms(M, c, d, vp) ==
    \A ix, iy \in {1, 2} :
        LET wx == FAdd(c[1], FMul(Sg(ix), FDiv(d[1], Two)))
            wy == FAdd(c[2], FMul(Sg(iy), FDiv(d[2], Two)))
            q == WinToClip(wx, wy, vp)
        IN MatVec(M, <<q[1], q[2], F0, F1>>) = <<Sg(ix), Sg(iy), F0, F1>>
=============================================================================
