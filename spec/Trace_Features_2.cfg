CONSTANT LEVEL = 2
INIT InitT
NEXT StepT
POSTCONDITION Accepted
CHECK_DEADLOCK FALSE
