------------------------------ MODULE Law_Proj ------------------------------
(***************************************************************************)
(* Laws of the projection / viewport part of the specification, checked by *)
(* TLC on K random operand tuples over Z_46337: every formula of VekProj   *)
(* satisfies its axioms (off-centre volumes included), perspective =       *)
(* frustum of the symmetric planes, left-handed = right-handed composed    *)
(* with a z mirror, fov variant = aspect variant, unproject inverts        *)
(* project, the pick matrix satisfies its axiom.                           *)
(***************************************************************************)
EXTENDS VekProj, TLC
CONSTANTS K
VARIABLES k, r
Init == k \in 1 .. K /\ r = [i \in 1 .. 60 |-> RandomElement(0 .. (P - 1))]
Next == UNCHANGED <<k, r>>

Nz(a, alt) == IF a = F0 THEN alt ELSE a
\* a random view volume with l # r, b # t, n # f, n # 0
O == LET l == r[1]  b == r[3]  n == Nz(r[5], F1)
     IN [l |-> l, r |-> IF r[2] = l THEN FAdd(l, F1) ELSE r[2], b |-> b, t |-> IF r[4] = b THEN FAdd(b, F1) ELSE r[4],
         n |-> n, f |-> IF r[6] = n THEN FAdd(n, F1) ELSE r[6]]
tanh == Nz(r[7], F1)
aspect == Nz(r[8], F1)
eps == r[9]
Hands == {"lh", "rh"}
Depths == {"zo", "no"}
OrthoLaw == \A h \in Hands, d \in Depths : OrthoAxioms(Ortho(O, h, d), O, h, d)
FrustumLaw == \A h \in Hands, d \in Depths : FrustumAxioms(Frustum(O, h, d), O, h, d)
PerspectiveLaw == \A h \in Hands, d \in Depths :
    LET S == SymPlanes(tanh, aspect, O.n, O.f)
    IN /\ FrustumAxioms(Perspective(tanh, aspect, O.n, O.f, h, d), S, h, d)
       /\ Perspective(tanh, aspect, O.n, O.f, h, d) = Frustum(S, h, d)
       /\ PerspectiveFov(tanh, FMul(aspect, Nz(r[10], F1)), Nz(r[10], F1), O.n, O.f, h, d) = Perspective(tanh, aspect, O.n, O.f, h, d)
       \* the textbook closed form of the symmetric case
       /\ Perspective(tanh, aspect, O.n, O.f, "rh", "zo") =
            << <<FDiv(F1, FMul(aspect, tanh)), F0, F0, F0>>, <<F0, FDiv(F1, tanh), F0, F0>>,
               <<F0, F0, FDiv(O.f, FSub(O.n, O.f)), FNeg(FDiv(FMul(O.f, O.n), FSub(O.f, O.n)))>>, <<F0, F0, FNeg(F1), F0>> >>
MirrorLaw == \A d \in Depths : /\ Frustum(O, "lh", d) = MatMul(Frustum(O, "rh", d), ZMirror)
                               /\ Ortho(O, "lh", d) = MatMul(Ortho(O, "rh", d), ZMirror)
InfiniteLaw == \A h \in Hands : InfiniteAxioms(InfinitePerspective(tanh, aspect, O.n, eps, h), SymPlanes(tanh, aspect, O.n, O.n), eps, h)

mv == [i \in 1 .. 4 |-> [j \in 1 .. 4 |-> r[10 + 4 * (i - 1) + j]]]
pj == [i \in 1 .. 4 |-> [j \in 1 .. 4 |-> r[26 + 4 * (i - 1) + j]]]
vp == [x |-> r[43], y |-> r[44], w |-> Nz(r[45], F1), h |-> Nz(r[46], F1)]
obj == <<r[47], r[48], r[49]>>
RoundTrip == \A d \in Depths :
    (Det(MatMul(pj, mv)) # F0 /\ MatVec(pj, MatVec(mv, Point4(obj)))[4] # F0)
       => LET w == Project(obj, mv, pj, vp, d)
              back == MatVec(Inv(MatMul(pj, mv)), <<F1, F1, F1, F1>>)
          IN Unproject(w, mv, pj, vp, d) = obj
\* projection: the clip position divided by w, x,y in [-1,1] covering the viewport
ProjectLaw == (MatVec(pj, Point4(obj))[4] # F0) =>
    LET c == MatVec(pj, Point4(obj))
        w == Project(obj, Idn(4), pj, vp, "zo")
    IN /\ WinToClip(w[1], w[2], vp) = <<FDiv(c[1], c[4]), FDiv(c[2], c[4])>>
       /\ w[3] = FDiv(c[3], c[4])
       /\ Project(obj, Idn(4), pj, vp, "no")[3] = FDiv(FAdd(FDiv(c[3], c[4]), F1), Two)
PickLaw == LET c == <<r[50], r[51]>>  d == <<Nz(r[52], F1), Nz(r[53], F1)>>
           IN PickAxioms(PickMatrix(c, d, vp), c, d, vp)
=============================================================================
