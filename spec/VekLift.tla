------------------------------- MODULE VekLift -------------------------------
(***************************************************************************)
(* Scalar semantics of the numeric operations that vek lifts to vectors,   *)
(* matrices and shapes (C20), over fixed-width two's complement integers   *)
(* (VekNum!ZWrap / ZSat / InZ), and the lifting rule itself: an operation  *)
(* lifted to a vector acts per element; a checked form yields NONE exactly *)
(* when some element does; an overflow flag is the OR of the elements'.    *)
(* C20 | src/vec.rs CheckedAdd..CheckedNeg, WrappingAdd.., SaturatingAdd..,*)
(*       OverflowingAdd.., Inv, Euclid, CheckedEuclid, Zero, One, as_,     *)
(*       numcast, az casts; approx traits for Vec / Mat / Quaternion       *)
(***************************************************************************)
EXTENDS VekNum

NONE == 999999
\* mathematical result of a binary operation (division: Rust's truncating / and %, Euclid)
Math(op, x, y) == CASE op = "add" -> x + y [] op = "sub" -> x - y [] op = "mul" -> x * y
                    [] op = "div" -> TruncDiv(x, y) [] op = "rem" -> TruncRem(x, y)
                    [] op = "div_euclid" -> EuclidDiv(x, y) [] op = "rem_euclid" -> EuclidRem(x, y) [] op = "neg" -> -x
IsDivLike(op) == op \in {"div", "rem", "div_euclid", "rem_euclid"}
\* checked_*: NONE on division by zero and whenever the exact result does not fit (for the remainders,
\* whenever the corresponding quotient MIN / -1 overflows, as Rust specifies)
Checked(op, x, y, bits, signed) ==
    IF IsDivLike(op) /\ y = 0 THEN NONE
    ELSE IF IsDivLike(op) /\ signed /\ x = ZMin(bits, signed) /\ y = -1 THEN NONE
    ELSE IF InZ(Math(op, x, y), bits, signed) THEN Math(op, x, y) ELSE NONE
Wrapping(op, x, y, bits, signed) == ZWrap(Math(op, x, y), bits, signed)
Saturating(op, x, y, bits, signed) == ZSat(Math(op, x, y), bits, signed)
OverflowFlag(op, x, y, bits, signed) == IF InZ(Math(op, x, y), bits, signed) THEN 0 ELSE 1
\* casts between integer types
CastWrap(x, bits, signed) == ZWrap(x, bits, signed)
CastSat(x, bits, signed) == ZSat(x, bits, signed)
CastChecked(x, bits, signed) == IF InZ(x, bits, signed) THEN x ELSE NONE
\* the lifting rule
LiftChecked(results) == IF \E i \in 1 .. Len(results) : results[i] = NONE THEN <<>> ELSE results
AnyFlag(flags) == IF \E i \in 1 .. Len(flags) : flags[i] = 1 THEN 1 ELSE 0
AllOf(flags) == IF \A i \in 1 .. Len(flags) : flags[i] = 1 THEN 1 ELSE 0
=============================================================================
