----------------------------- MODULE MC_Features -----------------------------
(***************************************************************************)
(* Enumerates the feature configurations of VekFeatures: one state per     *)
(* configuration, printed for the build driver (binding B1).               *)
(* LEVEL = 1: none, singles, full set (32 configurations); LEVEL = 2: also *)
(* every pair (214).                                                       *)
(***************************************************************************)
EXTENDS VekFeatures
VARIABLE cfg
Init == cfg \in Configs
Next == UNCHANGED cfg
Emit == PrintT(ToJson([base |-> cfg.base, feats |-> SetToSeq(cfg.feats)]))
=============================================================================
