\* C17: every (x, lo, hi) of a 5-bit unsigned type. States = 2^(2*5) bound pairs.
CONSTANTS BITS = 5 SIGNED = FALSE
INIT Init
NEXT Next
INVARIANTS SpecLawsClamp SpecLawsWrap SpecLawsPingPong SpecLawsDelta AlgoWrapBetween AlgoPingPong OldAlgoCorrect
CHECK_DEADLOCK FALSE
