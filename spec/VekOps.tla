------------------------------- MODULE VekOps -------------------------------
(***************************************************************************)
(* Declarative meaning of vek's scalar range operations (C17) and integer  *)
(* interpolation (C12), over mathematical integers / exact rationals.      *)
(* Anchors: src/ops.rs Clamp, IsBetween, Wrap (wrapped, wrapped_between,   *)
(* pingpong, delta_angle), Lerp for integers, vector lifts in src/vec.rs.   *)
(*                                                                         *)
(* The C17 operators (PANIC, Clamp, IsBetween, WrapBetween, Wrapped,       *)
(* PingPong, DeltaAngle) live in VekOpsCore, which this module extends.    *)
(***************************************************************************)
EXTENDS VekNum, VekOpsCore

\* C12 | src/ops.rs:355-396 integer Lerp: the real-valued interpolation rounded to
\* nearest, ties away from zero; factor t is an exact rational.
LerpReal(a, b, t) == QAdd(Q(a), QMul(t, Q(b - a)))
LerpInt(a, b, t) == QRoundHalfAway(LerpReal(a, b, t))
Clamp01Q(t) == IF QLt(t, Q(0)) THEN Q(0) ELSE IF QLt(Q(1), t) THEN Q(1) ELSE t
=============================================================================
