CONSTANTS P = 46337
  K = 200
INIT Init
NEXT Next
INVARIANTS OrthoLaw FrustumLaw PerspectiveLaw MirrorLaw InfiniteLaw RoundTrip ProjectLaw PickLaw
CHECK_DEADLOCK FALSE
