------------------------------ MODULE Trace_Num ------------------------------
(***************************************************************************)
(* Trace validation (binding B2, code -> spec) for the cast, Zero/One/Inv  *)
(* and approx-equality lifts of C20 (P is unused; integers).               *)
(*  cast:   every element converted by the scalar rule (two's complement   *)
(*          wrap for `as` between integers, saturation, checked), the      *)
(*          fallible forms fail AS A WHOLE exactly when one element fails, *)
(*          the overflow flag is the OR of the elements' flags.            *)
(*  approx: the lifted predicate is the conjunction of the scalar          *)
(*          predicate (logged per element by the harness from the approx   *)
(*          crate's own scalar impl) over corresponding elements.          *)
(***************************************************************************)
EXTENDS VekLift, TLC, Json, IOUtils
Rec == ndJsonDeserialize(IOEnv.TRACE)
VARIABLE l
Sg(e) == e.signed = 1
Fits(e) == \A i \in 1 .. Len(e.a) : InZ(e.a[i], e.bits, Sg(e))
CastOk(e) ==
    LET wrapped == [i \in 1 .. Len(e.a) |-> CastWrap(e.a[i], e.bits, Sg(e))]
    IN CASE e.how \in {"as", "az_wrapping"} -> e.obs = wrapped
         [] e.how = "az_saturating" -> e.obs = [i \in 1 .. Len(e.a) |-> CastSat(e.a[i], e.bits, Sg(e))]
         [] e.how \in {"numcast", "az_checked", "az_unwrapped"} -> e.obs = LiftChecked([i \in 1 .. Len(e.a) |-> CastChecked(e.a[i], e.bits, Sg(e))])
         [] e.how = "az_overflowing" -> e.obs.v = wrapped /\ e.obs.f = AnyFlag([i \in 1 .. Len(e.a) |-> IF InZ(e.a[i], e.bits, Sg(e)) THEN 0 ELSE 1])
ZeroOneOk(e) ==
    CASE e.how = "is_zero" -> e.obs = <<AllOf([i \in 1 .. Len(e.a) |-> IF e.a[i] = 0 THEN 1 ELSE 0])>>
      \* also the bytemuck forms: Zeroable::zeroed, and the value read back from its plain bytes (how = "zero", a = the elements)
      [] e.how \in {"zero", "one"} -> e.obs = e.a
      \* reciprocal of x/64 is 64/x: obs/64 * a/64 = 1
      [] e.how = "inv" -> \A i \in 1 .. Len(e.a) : e.obs[i] * e.a[i] = 4096
Ok(e) == CASE e.op = "cast" -> CastOk(e)
           [] e.op = "zero_one" -> ZeroOneOk(e)
           [] e.op = "approx" -> e.obs = AllOf(e.elems)
Init == l = 1
Step(name) ==
    /\ l <= Len(Rec) /\ Rec[l].op = name
    /\ IF Rec[l].pan = 0 /\ Ok(Rec[l]) THEN TRUE ELSE PrintT(ToJson([tag |-> "MISMATCH", l |-> l, exp |-> 0]))
    /\ l' = l + 1
Cast == Step("cast")
ZeroOne == Step("zero_one")
Approx == Step("approx")
Next == Cast \/ ZeroOne \/ Approx
Accepted == IF TLCGet("stats").diameter - 1 = Len(Rec) THEN TRUE
            ELSE PrintT(ToJson([tag |-> "REJECTED_AT", l |-> TLCGet("stats").diameter])) /\ FALSE
=============================================================================
