------------------------------- MODULE VekNum -------------------------------
(***************************************************************************)
(* Number domains of the vek abstract machine.                             *)
(*                                                                         *)
(*  - mathematical integers with Rust's truncating / and %, Euclid, floor  *)
(*  - Zw(bits, signed): fixed-width two's complement integers              *)
(*  - Rat: exact rationals as normalised pairs <<n, d>>, d > 0             *)
(*                                                                         *)
(* TLC integers are 32-bit and TLC raises an error on overflow, so nothing *)
(* here is ever silently wrong; drivers keep magnitudes small.             *)
(* Serves: C12 C13 C15 C16 C17 C19 C20 (integers), C04 C05 C06 C09 C10     *)
(* C11 C12 C15 C16 (rationals).                                            *)
(***************************************************************************)
EXTENDS Integers, Sequences, FiniteSets

Abs(x) == IF x < 0 THEN -x ELSE x
Sgn(x) == IF x < 0 THEN -1 ELSE IF x > 0 THEN 1 ELSE 0
Min2(a, b) == IF a <= b THEN a ELSE b
Max2(a, b) == IF a >= b THEN a ELSE b

\* TLA+'s \div and % are floor-division / non-negative remainder for b > 0.
FloorDiv(a, b) == IF b > 0 THEN a \div b ELSE (-a) \div (-b)
FloorMod(a, b) == a - b * FloorDiv(a, b)
\* Rust's `/` and `%` on integers truncate toward zero; the remainder has the
\* sign of the dividend.                                   | src/ops.rs:602-665
TruncDiv(a, b) == Sgn(a) * Sgn(b) * (Abs(a) \div Abs(b))
TruncRem(a, b) == a - b * TruncDiv(a, b)
\* Rust's div_euclid / rem_euclid: remainder always in 0..|b|-1.
EuclidRem(a, b) == a % Abs(b)
EuclidDiv(a, b) == (a - EuclidRem(a, b)) \div b   \* exact division
RECURSIVE Gcd(_, _)
Gcd(a, b) == IF b = 0 THEN Abs(a) ELSE Gcd(b, Abs(a) % Abs(b))
Pow2(n) == 2 ^ n

---------------------------------------------------------------------------
(* Fixed-width integers.  A width is a record [bits, signed].              *)
ZMin(bits, signed) == IF signed THEN -Pow2(bits - 1) ELSE 0
ZMax(bits, signed) == IF signed THEN Pow2(bits - 1) - 1 ELSE Pow2(bits) - 1
ZRange(bits, signed) == ZMin(bits, signed) .. ZMax(bits, signed)
InZ(x, bits, signed) == ZMin(bits, signed) <= x /\ x <= ZMax(bits, signed)
\* two's complement wrap of a mathematical integer into the type
ZWrap(x, bits, signed) ==
    LET m == Pow2(bits)
        r == x % m
    IN IF signed /\ r >= Pow2(bits - 1) THEN r - m ELSE r
ZSat(x, bits, signed) == Min2(Max2(x, ZMin(bits, signed)), ZMax(bits, signed))

---------------------------------------------------------------------------
(* Exact rationals <<n, d>> with d > 0 and gcd(n, d) = 1.                  *)
QNorm(n, d) == LET g == Gcd(n, d)
                   s == IF d < 0 THEN -1 ELSE 1
               IN IF g = 0 THEN <<0, 1>> ELSE <<s * (n \div g), s * (d \div g)>>
Q(n) == <<n, 1>>
QF(n, d) == QNorm(n, d)
QNum(q) == q[1]
QDen(q) == q[2]
QIsInt(q) == q[2] = 1
\* lcm-based addition keeps intermediate numbers small
QAdd(a, b) == LET g == Gcd(a[2], b[2])
                  da == a[2] \div g
                  db == b[2] \div g
              IN QNorm(a[1] * db + b[1] * da, a[2] * db)
QNeg(a) == <<-a[1], a[2]>>
QSub(a, b) == QAdd(a, QNeg(b))
\* cross-cancel before multiplying
QMul(a, b) == LET g1 == Gcd(a[1], b[2])
                  g2 == Gcd(b[1], a[2])
              IN IF a[1] = 0 \/ b[1] = 0 THEN <<0, 1>>
                 ELSE QNorm((a[1] \div g1) * (b[1] \div g2), (a[2] \div g2) * (b[2] \div g1))
QInv(a) == IF a[1] < 0 THEN <<-a[2], -a[1]>> ELSE <<a[2], a[1]>>   \* a # 0
QDiv(a, b) == QMul(a, QInv(b))
QLt(a, b) == a[1] * b[2] < b[1] * a[2]
QLe(a, b) == a[1] * b[2] <= b[1] * a[2]
QEq(a, b) == a = b
QSgn(a) == Sgn(a[1])
QAbs(a) == <<Abs(a[1]), a[2]>>
QMin(a, b) == IF QLe(a, b) THEN a ELSE b
QMax(a, b) == IF QLe(b, a) THEN a ELSE b
QFloor(a) == a[1] \div a[2]
\* round half away from zero (Rust's f32::round / f64::round)
QRoundHalfAway(a) == LET n == Abs(a[1])
                         f == (2 * n + a[2]) \div (2 * a[2])
                     IN Sgn(a[1]) * f
QIsSquare(a) == \E r \in 0..46340 : r * r = Abs(a[1])  \* not used on hot paths
=============================================================================
