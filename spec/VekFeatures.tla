----------------------------- MODULE VekFeatures -----------------------------
(***************************************************************************)
(* The cargo feature lattice of vek (C20) and the configuration set that   *)
(* must build on the stable toolchain: {std, libm} x (every single         *)
(* feature, every pair (LEVEL = 2), the full set) of the 14 type and       *)
(* interoperability features.  platform_intrinsics is nightly-only and     *)
(* excluded.  MC_Features enumerates the set (one state per configuration, *)
(* printed for the build driver); Trace_Features validates the recorded    *)
(* build results: every configuration of the set was built, built          *)
(* successfully, and the fixed probe program printed the same digest under *)
(* every one (a feature only adds items, it does not change the others).   *)
(***************************************************************************)
EXTENDS Naturals, Sequences, FiniteSets, TLC, Json, IOUtils, SequencesExt
CONSTANT LEVEL
Features == {"vec8", "vec16", "vec32", "vec64", "rgb", "rgba", "uv", "uvw", "serde", "mint", "bytemuck", "az", "image", "repr_simd"}
Bases == {"std", "libm"}
FeatureSets == {{f} : f \in Features} \cup (IF LEVEL >= 2 THEN {{f, g} : f \in Features, g \in Features} ELSE {}) \cup {Features} \cup {{}}
Configs == {[base |-> b, feats |-> fs] : b \in Bases, fs \in FeatureSets}
=============================================================================
