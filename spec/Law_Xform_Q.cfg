\* K random operand tuples over exact rationals (small integers), for the laws that need order
CONSTANTS P <- PRational
  K = 60
INIT Init
NEXT Next
INVARIANTS RotCCW BasisLaws LookAtLaw BuilderActs
CHECK_DEADLOCK FALSE
