\* D7 witness: the algorithm as found at the pinned commit overflows its type. EXPECTED TO FAIL.
CONSTANTS BITS = 5 SIGNED = TRUE
INIT Init
NEXT Next
INVARIANTS OldAlgoNoOverflow
CHECK_DEADLOCK FALSE
