CONSTANT LEVEL = 1
INIT InitT
NEXT StepT
POSTCONDITION Accepted
CHECK_DEADLOCK FALSE
