CONSTANTS P = 0
  N0 = 4
  MAXLEN = 2
INIT Init
NEXT Next
INVARIANTS LayoutUnobservable IsRun Facts Emit
CHECK_DEADLOCK FALSE
