------------------------------- MODULE VekQuat -------------------------------
(***************************************************************************)
(* Vectors of the abstract machine (sequences of ring elements) and the    *)
(* quaternion algebra.  A quaternion is the sequence <<x, y, z, w>> (the   *)
(* field order of vek's struct, w the scalar part).                        *)
(* C05 | src/quaternion.rs Mul, conjugate, inverse, Mul<Vec3>, Mul<Vec4>,  *)
(*       rotation_3d, rotation_from_to_3d, into_angle_axis                 *)
(* C04 | src/mat.rs From<Quaternion> for Mat3/Mat4                         *)
(* C11 | src/vec.rs cross, dot, reflected, ...                             *)
(***************************************************************************)
EXTENDS VekMat

VAdd(u, v) == [i \in 1 .. Len(u) |-> FAdd(u[i], v[i])]
VSub(u, v) == [i \in 1 .. Len(u) |-> FSub(u[i], v[i])]
VNeg(u) == [i \in 1 .. Len(u) |-> FNeg(u[i])]
VScale(u, c) == [i \in 1 .. Len(u) |-> FMul(u[i], c)]
VMulW(u, v) == [i \in 1 .. Len(u) |-> FMul(u[i], v[i])]       \* element-wise product
Norm2(u) == Dot(u, u)
VZero(n) == [i \in 1 .. n |-> F0]
Unit(n, k) == [i \in 1 .. n |-> IF i = k THEN F1 ELSE F0]
Cross3(a, b) == << FSub(FMul(a[2], b[3]), FMul(a[3], b[2])),
                   FSub(FMul(a[3], b[1]), FMul(a[1], b[3])),
                   FSub(FMul(a[1], b[2]), FMul(a[2], b[1])) >>
\* points get w = 1, directions w = 0                                     | Vec4::from_point / from_direction
Point4(v) == <<v[1], v[2], v[3], F1>>
Dir4(v) == <<v[1], v[2], v[3], F0>>
Point3(v) == <<v[1], v[2], F1>>
Dir3(v) == <<v[1], v[2], F0>>
XYZ(v) == <<v[1], v[2], v[3]>>
XY(v) == <<v[1], v[2]>>

\* C11 | src/vec.rs reflected, refracted, face_forward, determine_side, signed_triangle_area, homogenized
\* mirror image of v for a (unit) surface normal n
Reflect(v, n) == VSub(v, VScale(n, FMul(F2, Dot(v, n))))
\* GLSL refract for unit incident i, unit normal n, ratio of indices eta; `rootk` is the (non-negative)
\* square root of k = 1 - eta^2 (1 - (n.i)^2), supplied and checked by the caller
RefractK(i, n, eta) == FSub(F1, FMul(FSq(eta), FSub(F1, FSq(Dot(n, i)))))
Refract(i, n, eta, rootk) == VSub(VScale(i, eta), VScale(n, FAdd(FMul(eta, Dot(n, i)), rootk)))
\* twice the signed area of the triangle (a, b, c): the 2D cross product (b-a) x (c-a)
Cross2(u, v) == FSub(FMul(u[1], v[2]), FMul(u[2], v[1]))
DetermineSide(c, a, b) == Cross2(VSub(b, a), VSub(c, a))
Homogenized(v) == VScale(v, FInv(v[4]))

---------------------------------------------------------------------------
QV(q) == <<q[1], q[2], q[3]>>
QS(q) == q[4]
MkQuat(s, v) == <<v[1], v[2], v[3], s>>
QuatId == <<F0, F0, F0, F1>>
\* Hamilton product                                                        | Mul for Quaternion
QuatMul(p, q) == MkQuat(FSub(FMul(QS(p), QS(q)), Dot(QV(p), QV(q))),
                        VAdd(VAdd(VScale(QV(q), QS(p)), VScale(QV(p), QS(q))), Cross3(QV(p), QV(q))))
QuatConj(q) == MkQuat(QS(q), VNeg(QV(q)))
QuatNorm2(q) == Dot(q, q)
QuatInv(q) == VScale(QuatConj(q), FInv(QuatNorm2(q)))
\* q v q^-1 written with the conjugate, as the code does (exact for unit q) | Mul<Vec3> for Quaternion
QuatRot(q, v) == QV(QuatMul(QuatMul(q, MkQuat(F0, v)), QuatConj(q)))
\* the rotation matrix of a unit quaternion (active, right-handed)         | From<Quaternion> for Mat3
MatOfQuat3(q) ==
    LET x == q[1]  y == q[2]  z == q[3]  w == q[4]
        two(a) == FAdd(a, a)
    IN << << FSub(F1, two(FAdd(FSq(y), FSq(z)))), two(FSub(FMul(x, y), FMul(z, w))), two(FAdd(FMul(x, z), FMul(y, w))) >>,
          << two(FAdd(FMul(x, y), FMul(z, w))), FSub(F1, two(FAdd(FSq(x), FSq(z)))), two(FSub(FMul(y, z), FMul(x, w))) >>,
          << two(FSub(FMul(x, z), FMul(y, w))), two(FAdd(FMul(y, z), FMul(x, w))), FSub(F1, two(FAdd(FSq(x), FSq(y)))) >> >>
MatOfQuat4(q) == Resize(MatOfQuat3(q), 4)
\* quaternion of (angle, unit axis n), given cos and sin of the HALF angle  | Quaternion::rotation_3d
QuatOfHalfAngleAxis(ch, sh, n) == MkQuat(ch, VScale(n, sh))
=============================================================================
