\* C18: every pair of cursor states of two iterators of dimension 2
CONSTANTS N = 2 BAND = 2
SPECIFICATION Spec
INVARIANTS TypeOK EqFacts Emit
CHECK_DEADLOCK FALSE
