----------------------------- MODULE Law_Spatial -----------------------------
(***************************************************************************)
(* Laws of the spatial vector operators of the specification (C11),        *)
(* checked by TLC on K random tuples over Z_46337: the cross product is    *)
(* bilinear, anticommutative, orthogonal to both operands and satisfies    *)
(* Lagrange's identity; reflection about a unit normal is an involution    *)
(* that preserves lengths and flips the normal component; refraction       *)
(* satisfies Snell's law (sin t = eta sin i) and returns a unit vector in  *)
(* the plane of incidence; determine_side is the 2D cross product, is      *)
(* antisymmetric under exchange of a, b and invariant under translation.   *)
(***************************************************************************)
EXTENDS VekXform, TLC
CONSTANTS K
VARIABLES k, r
Init == k \in 1 .. K /\ r = [i \in 1 .. 30 |-> RandomElement(0 .. (P - 1))]
Next == UNCHANGED <<k, r>>
a == <<r[1], r[2], r[3]>>
b == <<r[4], r[5], r[6]>>
c == <<r[7], r[8], r[9]>>
s == r[10]
UnitQ(p) == IF QuatNorm2(p) = F0 THEN QuatId ELSE VScale(QuatMul(p, p), FInv(QuatNorm2(p)))
Frame == MatOfQuat3(UnitQ(<<r[11], r[12], r[13], r[14]>>))
n == Col(Frame, 1)        \* unit normal
t == Col(Frame, 2)        \* unit tangent
CS(x) == LET d == FAdd(F1, FSq(x)) IN IF d = F0 THEN <<F1, F0>> ELSE <<FDiv(FSub(F1, FSq(x)), d), FDiv(FAdd(x, x), d)>>
CrossLaws == /\ Cross3(a, b) = VNeg(Cross3(b, a))
             /\ Cross3(VAdd(a, VScale(c, s)), b) = VAdd(Cross3(a, b), VScale(Cross3(c, b), s))
             /\ Dot(Cross3(a, b), a) = F0 /\ Dot(Cross3(a, b), b) = F0
             /\ Norm2(Cross3(a, b)) = FSub(FMul(Norm2(a), Norm2(b)), FSq(Dot(a, b)))
             /\ Cross3(Unit(3, 1), Unit(3, 2)) = Unit(3, 3)
ReflectLaws == /\ Reflect(Reflect(a, n), n) = a /\ Norm2(Reflect(a, n)) = Norm2(a)
               /\ Dot(Reflect(a, n), n) = FNeg(Dot(a, n)) /\ Dot(Reflect(a, n), t) = Dot(a, t)
\* incident direction with angle of incidence (c1, s1) against the normal, transmitted angle (c2, s2), eta = s2 / s1
SnellLaw == LET i1 == CS(r[15])  i2 == CS(r[16])
                inc == VAdd(VScale(n, FNeg(i1[1])), VScale(t, i1[2]))
                eta == FDiv(i2[2], i1[2])
            IN i1[2] # F0 => /\ RefractK(inc, n, eta) = FSq(i2[1])
                             /\ Refract(inc, n, eta, i2[1]) = VAdd(VScale(t, i2[2]), VScale(n, FNeg(i2[1])))
                             /\ Norm2(Refract(inc, n, eta, i2[1])) = F1
PLerpx(p, q, x) == VAdd(p, VScale(VSub(q, p), x))
SideLaws == LET p == <<r[17], r[18]>>  q == <<r[19], r[20]>>  w == <<r[21], r[22]>>  d == <<r[23], r[24]>>
            IN /\ DetermineSide(w, p, q) = FNeg(DetermineSide(w, q, p))
               /\ DetermineSide(VAdd(w, d), VAdd(p, d), VAdd(q, d)) = DetermineSide(w, p, q)
               /\ DetermineSide(PLerpx(p, q, s), p, q) = F0
               /\ DetermineSide(<<F0, F1>>, <<F0, F0>>, <<F1, F0>>) = F1          \* counter-clockwise is positive
=============================================================================
