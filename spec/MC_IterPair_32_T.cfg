\* C18 (thorough): pairs of cursor states of two iterators of dimension 32 whose cursors differ by at most BAND
CONSTANTS N = 32 BAND = 3
SPECIFICATION Spec
CONSTRAINT Band
INVARIANTS TypeOK EqFacts Emit
CHECK_DEADLOCK FALSE
