\* symbolic lane: control points and the parameter are free symbols (VekPoly)
CONSTANT P <- PPoly
INIT Init
NEXT Next
POSTCONDITION Accepted
CHECK_DEADLOCK FALSE
