\* K random operand tuples over Z_46337
CONSTANTS P = 46337
  N = 4
  MODE = "random"
  K = 3000
INIT Init
NEXT Next
INVARIANT Laws
CHECK_DEADLOCK FALSE
