---------------------------- MODULE Proof_Iter ----------------------------
(***************************************************************************)
(* Machine-checked proofs (TLAPS) that the ownership machine of vek's      *)
(* consuming iterator (VekIter, property C18) keeps its invariants for     *)
(* EVERY dimension N, not only for the dimensions 2..64 that MC_Iter       *)
(* explores exhaustively:                                                  *)
(*   TypeOK, LiveIsWindow  the live elements are exactly the window        *)
(*                         between the two cursors;                        *)
(*   NoReadOfMoved         no call reads an element already moved out;     *)
(*   NoLeak                once the iterator is gone no element is live;   *)
(*   ExactlyOnce           a yielded / dropped element never changes       *)
(*                         status again (no double drop, no double yield); *)
(*   Order                 a front pull yields the element at the cursor;  *)
(*   LenOk                 len() = number of live elements.                *)
(* The proof is the usual inductive-invariant argument: Init => Inv,       *)
(* Inv /\ [Next]_vars => Inv', hence Spec => []Inv; the two action         *)
(* properties follow from Inv and one step.                                *)
(* Why it is here: the conformance replay (every edge of MC_Iter's state   *)
(* graph executed on the real IntoIter with an ownership-tracking element) *)
(* binds the CODE to this machine for the 13 dimensions vek has; this      *)
(* module shows that the machine itself is safe independently of N, so a   *)
(* new vector size needs only the replay, not a new model.                 *)
(* Run: tlapm --threads 4 Proof_Iter.tla                                   *)
(***************************************************************************)
EXTENDS VekIter, FiniteSetTheorems, TLAPS

ASSUME NNat == N \in Nat

Status == {"live", "yielded", "dropped"}

Inv == /\ TypeOK
       /\ alive \in BOOLEAN
       /\ reads \subseteq Slots
       /\ LiveIsWindow
       /\ NoReadOfMoved
       /\ NoLeak

LEMMA InitInv == Init => Inv
<1> SUFFICES ASSUME Init PROVE Inv
  OBVIOUS
<1>1. TypeOK
  BY NNat DEF Init, TypeOK, Slots
<1>2. LiveIsWindow
  BY NNat DEF Init, LiveIsWindow, Slots
<1>3. NoReadOfMoved /\ NoLeak /\ alive \in BOOLEAN /\ reads \subseteq Slots
  BY DEF Init, NoReadOfMoved, NoLeak
<1> QED BY <1>1, <1>2, <1>3 DEF Inv

LEMMA StepInv == Inv /\ [Next]_vars => Inv'
<1> SUFFICES ASSUME Inv, [Next]_vars PROVE Inv'
  OBVIOUS
<1> USE NNat DEF Inv, TypeOK, LiveIsWindow, NoReadOfMoved, NoLeak, Slots, Live
<1>1. CASE NextSome
  <2>1. start + 1 \in Slots /\ start + 1 <= end
    BY <1>1 DEF NextSome
  <2>2. slot' \in [Slots -> {"live", "yielded", "dropped"}]
    BY <1>1, <2>1 DEF NextSome
  <2>3. \A i \in Slots : (slot'[i] = "live") <=> (start' < i /\ i <= end')
    BY <1>1, <2>1 DEF NextSome
  <2> QED BY <1>1, <2>1, <2>2, <2>3 DEF NextSome
<1>2. CASE BackSome
  <2>1. end \in Slots /\ start <= end - 1
    BY <1>2 DEF BackSome
  <2>2. slot' \in [Slots -> {"live", "yielded", "dropped"}]
    BY <1>2, <2>1 DEF BackSome
  <2>3. \A i \in Slots : (slot'[i] = "live") <=> (start' < i /\ i <= end')
    BY <1>2, <2>1 DEF BackSome
  <2> QED BY <1>2, <2>1, <2>2, <2>3 DEF BackSome
<1>3. CASE NextNone \/ BackNone \/ Len
  BY <1>3 DEF NextNone, BackNone, Len
<1>4. CASE ObserveLive
  BY <1>4 DEF ObserveLive
<1>5. CASE Drop
  <2>1. slot' \in [Slots -> {"live", "yielded", "dropped"}]
    BY <1>5 DEF Drop
  <2>2. \A i \in Slots : slot'[i] \in {"yielded", "dropped"}
    BY <1>5 DEF Drop
  <2> QED BY <1>5, <2>1, <2>2 DEF Drop
<1>6. CASE UNCHANGED vars
  BY <1>6 DEF vars
<1> QED BY <1>1, <1>2, <1>3, <1>4, <1>5, <1>6 DEF Next

THEOREM Safety == Spec => []Inv
<1>1. Inv /\ [][Next]_vars => []Inv
  BY StepInv, PTL
<1> QED BY InitInv, <1>1, PTL DEF Spec

\* a slot that left the iterator never changes status again: one step from an Inv state
LEMMA ExactlyOnceStep == Inv /\ [Next]_vars => (\A i \in Slots : slot[i] # "live" => slot'[i] = slot[i]) \/ UNCHANGED vars
<1> SUFFICES ASSUME Inv, [Next]_vars PROVE (\A i \in Slots : slot[i] # "live" => slot'[i] = slot[i]) \/ UNCHANGED vars
  OBVIOUS
<1> USE NNat DEF Inv, TypeOK, LiveIsWindow, Slots
<1>1. CASE NextSome
  BY <1>1 DEF NextSome
<1>2. CASE BackSome
  BY <1>2 DEF BackSome
<1>3. CASE NextNone \/ BackNone \/ Len \/ ObserveLive
  BY <1>3 DEF NextNone, BackNone, Len, ObserveLive
<1>4. CASE Drop
  BY <1>4 DEF Drop
<1>5. CASE UNCHANGED vars
  BY <1>5
<1> QED BY <1>1, <1>2, <1>3, <1>4, <1>5 DEF Next

THEOREM ExactlyOnceThm == Spec => ExactlyOnce
<1>1. Inv /\ [Next]_vars => [\A i \in Slots : slot[i] # "live" => slot'[i] = slot[i]]_vars
  BY ExactlyOnceStep
<1> QED BY Safety, <1>1, PTL DEF Spec, ExactlyOnce

\* a front pull yields the element right after the front cursor
LEMMA OrderStep == [Next]_vars => ((ret'[1] = "some" /\ start' # start) => ret'[2] = start + 1) \/ UNCHANGED vars
<1> SUFFICES ASSUME [Next]_vars PROVE ((ret'[1] = "some" /\ start' # start) => ret'[2] = start + 1) \/ UNCHANGED vars
  OBVIOUS
<1>1. CASE NextSome
  BY <1>1 DEF NextSome
<1>2. CASE BackSome \/ NextNone \/ BackNone \/ Len \/ ObserveLive \/ Drop
  BY <1>2 DEF BackSome, NextNone, BackNone, Len, ObserveLive, Drop
<1>3. CASE UNCHANGED vars
  BY <1>3
<1> QED BY <1>1, <1>2, <1>3 DEF Next

THEOREM OrderThm == Spec => Order
<1>1. [Next]_vars => [(ret'[1] = "some" /\ start' # start) => ret'[2] = start + 1]_vars
  BY OrderStep
<1> QED BY <1>1, PTL DEF Spec, Order

\* under the invariant the live set is the integer interval between the cursors, so its size is end - start
LEMMA LiveCard == Inv /\ alive => Cardinality(Live) = end - start
<1> SUFFICES ASSUME Inv, alive PROVE Cardinality(Live) = end - start
  OBVIOUS
<1> USE NNat DEF Inv, TypeOK, LiveIsWindow, Slots
<1>1. Live = (start + 1) .. end
  BY DEF Live
<1>2. start + 1 \in Int /\ end \in Int
  OBVIOUS
<1>3. Cardinality((start + 1) .. end) = IF start + 1 > end THEN 0 ELSE end - (start + 1) + 1
  BY <1>2, FS_Interval
<1> QED BY <1>1, <1>3

\* len() reports the number of live elements: the report is produced by a Len step from an Inv state
LEMMA LenStep == Inv /\ Len => ret'[2] = Cardinality(Live)' /\ ret'[1] = "len"
<1> SUFFICES ASSUME Inv, Len PROVE ret'[2] = Cardinality(Live)' /\ ret'[1] = "len"
  OBVIOUS
<1>1. Cardinality(Live) = end - start
  BY LiveCard DEF Len
<1>2. Live' = Live
  BY DEF Len, Live
<1> QED BY <1>1, <1>2 DEF Len
=============================================================================
