---------------------------- MODULE Proof_Ops ----------------------------
(***************************************************************************)
(* Machine-checked proofs (TLAPS: tlapm with the SMT, Zenon and Isabelle   *)
(* back ends) of the SCALING LAWS of the C17 operators of VekOpsCore, for  *)
(* ALL integers:  for k > 0,                                               *)
(*     (k x) % (k u) = k (x % u)                      (ModScale)           *)
(*     Clamp / IsBetween / Wrapped / WrapBetween / PingPong of operands    *)
(*     scaled by k = k times the unscaled result (same documented panics). *)
(* Why: MC_Ops decides the operators exhaustively on 5- and 8-bit domains  *)
(* and Gen_Ops emits 8-bit tables; the harness replays each table row on   *)
(* the wide integer types with every operand multiplied by k = 2^(BITS-8), *)
(* expecting k times the table entry.  That step is sound exactly by these *)
(* laws, which TLC can only sample (MC_Ops checks them for k = 3 on the    *)
(* bounded domain); here they are proved without any bound.                *)
(* Technique notes: products of two variables defeat the SMT back end's    *)
(* linear arithmetic, so every product is first named by a PICKed constant *)
(* (X = (k-1)(u-r-1), ...), polynomial identities are proved separately,   *)
(* and the remaining steps are linear; a*b >= 0 on naturals is proved by   *)
(* induction (MulNonneg).  Run: tlapm --threads 4 Proof_Ops.tla (4 s).     *)
(***************************************************************************)
EXTENDS VekOpsCore, NaturalsInduction, TLAPS

LEMMA MulNonneg == \A a \in Nat : \A b \in Nat : a * b >= 0
<1> DEFINE P(a) == \A b \in Nat : a * b >= 0
<1>1. P(0)
  BY Z3
<1>2. \A a \in Nat : P(a) => P(a + 1)
  <2> SUFFICES ASSUME NEW a \in Nat, P(a), NEW b \in Nat PROVE (a + 1) * b >= 0
    BY Zenon
  <2>1. (a + 1) * b = a * b + b
    BY Z3
  <2>2. a * b >= 0
    OBVIOUS
  <2> QED BY <2>1, <2>2, Z3
<1>3. \A a \in Nat : P(a)
  BY <1>1, <1>2, NatInduction, Isa
<1> QED BY <1>3

\* k r < k u for k > 0, 0 <= r < u: the products are abstracted (X) before the linear step
LEMMA MulMono == \A k, r, u \in Int : (k > 0 /\ 0 <= r /\ r < u) => (0 <= k * r /\ k * r < k * u)
<1> SUFFICES ASSUME NEW k \in Int, NEW r \in Int, NEW u \in Int, k > 0, 0 <= r, r < u
             PROVE 0 <= k * r /\ k * r < k * u
  OBVIOUS
<1>h. k > 0 /\ 0 <= r /\ r < u
  OBVIOUS
<1>1. k * r >= 0
  BY MulNonneg, k \in Nat, r \in Nat
<1>2. (k - 1) * (u - r - 1) >= 0
  BY MulNonneg, (k - 1) \in Nat, (u - r - 1) \in Nat
<1>3. k * u - k * r = (k - 1) * (u - r - 1) + (u - r - 1) + k
  BY Z3
<1>4. PICK X \in Int : X = (k - 1) * (u - r - 1)
  BY Z3
<1>4a. PICK A \in Int : A = k * u
  BY Z3
<1>4b. PICK B \in Int : B = k * r
  BY Z3
<1>5. X >= 0 /\ B >= 0
  BY <1>1, <1>2, <1>4, <1>4b, Zenon
<1>6. A - B = X + (u - r - 1) + k
  BY <1>3, <1>4, <1>4a, <1>4b, Zenon
<1>7. 0 <= B /\ B < A
  <2>1. u - r - 1 >= 0
    BY <1>h, Z3
  <2>2. X + (u - r - 1) + k >= 1
    BY <2>1, <1>5, <1>h, Z3
  <2>3. A - B >= 1
    BY <2>2, <1>6, Z3
  <2>4. B < A
    BY <2>3, Z3
  <2> QED BY <2>4, <1>5
<1> QED BY <1>7, <1>4a, <1>4b, Zenon

\* the remainder is the unique r in [0, b) with a = q b + r
LEMMA ModUnique == \A a, b, qq, rr \in Int : (b > 0 /\ a = qq * b + rr /\ 0 <= rr /\ rr < b) => a % b = rr
<1> SUFFICES ASSUME NEW a \in Int, NEW b \in Int, NEW qq \in Int, NEW rr \in Int, b > 0, a = qq * b + rr, 0 <= rr, rr < b
             PROVE a % b = rr
  OBVIOUS
<1>h. b > 0 /\ a = qq * b + rr /\ 0 <= rr /\ rr < b
  OBVIOUS
<1>n. b \in Nat \ {0}
  BY Z3
<1>0. PICK q0 \in Int : q0 = a \div b
  BY <1>n, Z3
<1>00. PICK r0 \in Int : r0 = a % b
  BY <1>n, Z3
<1>1. a = q0 * b + r0 /\ 0 <= r0 /\ r0 < b
  BY <1>n, <1>0, <1>00, Z3
<1>lin. 0 <= r0 /\ r0 < b /\ 0 <= rr /\ rr < b /\ b > 0
  BY <1>1, <1>h, Zenon
<1>2. PICK d \in Int : d = qq - q0
  OBVIOUS
<1>p1. PICK M \in Int : M = qq * b
  BY Z3
<1>p2. PICK N \in Int : N = q0 * b
  BY Z3
<1>p3. PICK D \in Int : D = d * b
  BY Z3
<1>3. D = r0 - rr
  <2>1. M + rr = N + r0
    BY <1>h, <1>1, <1>p1, <1>p2, Zenon
  <2>2. d * b = qq * b - q0 * b
    BY <1>2, Z3
  <2>3. D = M - N
    BY <2>2, <1>p1, <1>p2, <1>p3, Zenon
  <2> QED BY <2>1, <2>3, Z3
<1>4. d = 0
  <2>1. CASE d >= 1
    <3>1. (d - 1) * b >= 0
      BY <2>1, MulNonneg, (d - 1) \in Nat, b \in Nat
    <3>2. d * b = (d - 1) * b + b
      BY Z3
    <3>3. PICK Y \in Int : Y = (d - 1) * b
      BY Z3
    <3>4. Y >= 0 /\ D = Y + b
      BY <3>1, <3>2, <3>3, <1>p3, Zenon
    <3>5. D >= b
      BY <3>4, Z3
    <3>6. r0 - rr < b
      BY <1>lin, Z3
    <3>7. FALSE
      BY <3>5, <3>6, <1>3, Z3
    <3> QED BY <3>7
  <2>2. CASE d <= -1
    <3>1. (-d - 1) * b >= 0
      BY <2>2, MulNonneg, (-d - 1) \in Nat, b \in Nat
    <3>2. d * b = -((-d - 1) * b) - b
      BY Z3
    <3>3. PICK Y \in Int : Y = (-d - 1) * b
      BY Z3
    <3>4. Y >= 0 /\ D = -Y - b
      BY <3>1, <3>2, <3>3, <1>p3, Zenon
    <3>5. D <= -b
      BY <3>4, Z3
    <3>6. r0 - rr > -b
      BY <1>lin, Z3
    <3>7. FALSE
      BY <3>5, <3>6, <1>3, Z3
    <3> QED BY <3>7
  <2> QED BY <2>1, <2>2, Z3
<1>5. r0 = rr
  <2>1. d * b = 0
    BY <1>4, Z3
  <2>2. D = 0
    BY <2>1, <1>p3, Zenon
  <2> QED BY <2>2, <1>3, <1>lin, Z3
<1> QED BY <1>5, <1>00, Zenon

\* homogeneity of the remainder: used to lift the 8-bit tables of MC_Ops to the wide integer types
THEOREM ModScale == \A x, u, k \in Int : (u > 0 /\ k > 0) => (k * x) % (k * u) = k * (x % u)
<1> SUFFICES ASSUME NEW x \in Int, NEW u \in Int, NEW k \in Int, u > 0, k > 0
             PROVE (k * x) % (k * u) = k * (x % u)
  OBVIOUS
<1>0. PICK q \in Int : q = x \div u
  BY Z3
<1>00. PICK r \in Int : r = x % u
  BY Z3
<1>1. x = q * u + r /\ 0 <= r /\ r < u
  BY <1>0, <1>00, Z3
<1>2. k * x = q * (k * u) + k * r
  BY <1>1, Z3
<1>3. 0 <= k * r /\ k * r < k * u
  BY <1>1, MulMono
<1>4. k * u \in Int /\ k * x \in Int /\ k * r \in Int
  BY Z3
<1>5. k * u > 0
  BY <1>3, <1>4, Z3
<1>6. (k * x) % (k * u) = k * r
  BY <1>2, <1>3, <1>4, <1>5, ModUnique
<1> QED BY <1>6, <1>00
\* scaling by k > 0 preserves order (all integers)
LEMMA ScaleLt == \A k, a, b \in Int : (k > 0 /\ a < b) => k * a < k * b
<1> SUFFICES ASSUME NEW k \in Int, NEW a \in Int, NEW b \in Int, k > 0, a < b
             PROVE k * a < k * b
  OBVIOUS
<1>h. k > 0 /\ a < b
  OBVIOUS
<1>1. (k - 1) * (b - a - 1) >= 0
  BY MulNonneg, (k - 1) \in Nat, (b - a - 1) \in Nat
<1>2. k * b - k * a = (k - 1) * (b - a - 1) + (b - a - 1) + k
  BY Z3
<1>3. PICK X \in Int : X = (k - 1) * (b - a - 1)
  BY Z3
<1>4. PICK A \in Int : A = k * a
  BY Z3
<1>5. PICK B \in Int : B = k * b
  BY Z3
<1>6. X >= 0 /\ B - A = X + (b - a - 1) + k
  BY <1>1, <1>2, <1>3, <1>4, <1>5, Zenon
<1>7. A < B
  <2>1. b - a - 1 >= 0
    BY <1>h, Z3
  <2>2. X + (b - a - 1) + k >= 1
    BY <2>1, <1>6, <1>h, Z3
  <2>3. B - A >= 1
    BY <2>2, <1>6, Z3
  <2> QED BY <2>3, Z3
<1> QED BY <1>7, <1>4, <1>5, Zenon

LEMMA ScaleIff == \A k, a, b \in Int : k > 0 =>
                     /\ (a < b <=> k * a < k * b)
                     /\ (a <= b <=> k * a <= k * b)
                     /\ (a > b <=> k * a > k * b)
                     /\ (a = b <=> k * a = k * b)
<1> SUFFICES ASSUME NEW k \in Int, NEW a \in Int, NEW b \in Int, k > 0
             PROVE /\ (a < b <=> k * a < k * b) /\ (a <= b <=> k * a <= k * b)
                   /\ (a > b <=> k * a > k * b) /\ (a = b <=> k * a = k * b)
  OBVIOUS
<1>h. k > 0
  OBVIOUS
<1>4. PICK A \in Int : A = k * a
  BY Z3
<1>5. PICK B \in Int : B = k * b
  BY Z3
<1>6. /\ (a < b <=> A < B) /\ (a <= b <=> A <= B) /\ (a > b <=> A > B) /\ (a = b <=> A = B)
  <2>1. CASE a < b
    <3>1. k * a < k * b
      BY <2>1, <1>h, ScaleLt
    <3>2. A < B
      BY <3>1, <1>4, <1>5, Zenon
    <3> QED BY <3>2, <2>1, Z3
  <2>2. CASE a = b
    <3>1. A = B
      BY <2>2, <1>4, <1>5, Zenon
    <3> QED BY <3>1, <2>2, Z3
  <2>3. CASE a > b
    <3>1. k * b < k * a
      BY <2>3, <1>h, ScaleLt
    <3>2. B < A
      BY <3>1, <1>4, <1>5, Zenon
    <3> QED BY <3>2, <2>3, Z3
  <2> QED BY <2>1, <2>2, <2>3, Z3
<1> QED BY <1>6, <1>4, <1>5, Zenon

\* ---- the operators of VekOps (C17) ------------------------------------------------------------
\* wrapped: scaling operand and bound by k > 0 scales the result (and keeps the documented panic)
THEOREM WrappedScale == \A x, u, k \in Int : k > 0 => Wrapped(k * x, k * u) = IF u <= 0 THEN PANIC ELSE k * Wrapped(x, u)
<1> SUFFICES ASSUME NEW x \in Int, NEW u \in Int, NEW k \in Int, k > 0
             PROVE Wrapped(k * x, k * u) = IF u <= 0 THEN PANIC ELSE k * Wrapped(x, u)
  OBVIOUS
<1>h. k > 0
  OBVIOUS
<1>1. CASE u > 0
  <2>1. (k * x) % (k * u) = k * (x % u)
    BY <1>1, <1>h, ModScale
  <2>2. 0 <= k * 0 /\ k * 0 < k * u
    BY <1>1, <1>h, MulMono
  <2>3. ~(k * u <= 0)
    <3>1. PICK A \in Int : A = k * u
      BY Z3
    <3>2. PICK Z \in Int : Z = k * 0
      BY Z3
    <3>3. 0 <= Z /\ Z < A
      BY <2>2, <3>1, <3>2, Zenon
    <3>4. ~(A <= 0)
      BY <3>3, Z3
    <3> QED BY <3>4, <3>1, Zenon
  <2> QED BY <1>1, <2>1, <2>3 DEF Wrapped
<1>2. CASE u <= 0
  <2>1. k * u <= 0
    <3>1. k * (-u) >= 0
      BY <1>2, <1>h, MulNonneg, k \in Nat, (-u) \in Nat
    <3>2. k * u = -(k * (-u))
      BY Z3
    <3>3. PICK W \in Int : W = k * (-u)
      BY Z3
    <3>4. PICK A \in Int : A = k * u
      BY Z3
    <3>5. W >= 0 /\ A = -W
      BY <3>1, <3>2, <3>3, <3>4, Zenon
    <3>6. A <= 0
      BY <3>5, Z3
    <3> QED BY <3>6, <3>4, Zenon
  <2> QED BY <1>2, <2>1 DEF Wrapped
<1> QED BY <1>1, <1>2, Z3

\* clamp and the range test
THEOREM ClampScale == \A x, lo, hi, k \in Int : k > 0 =>
                         Clamp(k * x, k * lo, k * hi) = IF lo > hi THEN PANIC ELSE k * Clamp(x, lo, hi)
<1> SUFFICES ASSUME NEW x \in Int, NEW lo \in Int, NEW hi \in Int, NEW k \in Int, k > 0
             PROVE Clamp(k * x, k * lo, k * hi) = IF lo > hi THEN PANIC ELSE k * Clamp(x, lo, hi)
  OBVIOUS
<1>1. (lo > hi <=> k * lo > k * hi) /\ (x < lo <=> k * x < k * lo) /\ (x > hi <=> k * x > k * hi)
  BY ScaleIff
<1> QED BY <1>1 DEF Clamp

THEOREM IsBetweenScale == \A x, lo, hi, k \in Int : k > 0 => IsBetween(k * x, k * lo, k * hi) = IsBetween(x, lo, hi)
<1> SUFFICES ASSUME NEW x \in Int, NEW lo \in Int, NEW hi \in Int, NEW k \in Int, k > 0
             PROVE IsBetween(k * x, k * lo, k * hi) = IsBetween(x, lo, hi)
  OBVIOUS
<1>1. (lo > hi <=> k * lo > k * hi) /\ (lo <= x <=> k * lo <= k * x) /\ (x <= hi <=> k * x <= k * hi)
  BY ScaleIff
<1> QED BY <1>1 DEF IsBetween

\* wrapped_between: the window [lo, hi) and the operand scale together
THEOREM WrapBetweenScale == \A x, lo, hi, k \in Int : k > 0 =>
            WrapBetween(k * x, k * lo, k * hi) = IF ~WrapBetweenOk(lo, hi) THEN PANIC ELSE k * WrapBetween(x, lo, hi)
<1> SUFFICES ASSUME NEW x \in Int, NEW lo \in Int, NEW hi \in Int, NEW k \in Int, k > 0
             PROVE WrapBetween(k * x, k * lo, k * hi) = IF ~WrapBetweenOk(lo, hi) THEN PANIC ELSE k * WrapBetween(x, lo, hi)
  OBVIOUS
<1>h. k > 0
  OBVIOUS
<1>z. k * 0 = 0
  BY Z3
<1>1. (lo < hi <=> k * lo < k * hi) /\ (lo >= 0 <=> k * lo >= 0) /\ (hi > 0 <=> k * hi > 0)
  <2>1. (lo < hi <=> k * lo < k * hi) /\ (0 <= lo <=> k * 0 <= k * lo) /\ (hi > 0 <=> k * hi > k * 0)
    BY <1>h, ScaleIff
  <2>2. PICK L \in Int : L = k * lo
    BY Z3
  <2>3. PICK H \in Int : H = k * hi
    BY Z3
  <2>4. (lo < hi <=> L < H) /\ (0 <= lo <=> 0 <= L) /\ (hi > 0 <=> H > 0)
    BY <2>1, <2>2, <2>3, <1>z, Zenon
  <2>5. (lo < hi <=> L < H) /\ (lo >= 0 <=> L >= 0) /\ (hi > 0 <=> H > 0)
    BY <2>4, Z3
  <2> QED BY <2>5, <2>2, <2>3, Zenon
<1>2. WrapBetweenOk(k * lo, k * hi) <=> WrapBetweenOk(lo, hi)
  BY <1>1 DEF WrapBetweenOk
<1>3. CASE ~WrapBetweenOk(lo, hi)
  BY <1>3, <1>2 DEF WrapBetween
<1>4. CASE WrapBetweenOk(lo, hi)
  <2>0. hi - lo > 0 /\ (hi - lo) \in Int /\ (x - lo) \in Int
    BY <1>4 DEF WrapBetweenOk
  <2>1. k * x - k * lo = k * (x - lo) /\ k * hi - k * lo = k * (hi - lo)
    BY Z3
  <2>2. (k * (x - lo)) % (k * (hi - lo)) = k * ((x - lo) % (hi - lo))
    BY <2>0, <1>h, ModScale
  <2>3. PICK m \in Int : m = (x - lo) % (hi - lo)
    BY <2>0, (hi - lo) \in Nat \ {0}, Z3
  <2>4. k * lo + k * m = k * (lo + m)
    BY Z3
  <2>5. (k * x - k * lo) % (k * hi - k * lo) = k * m
    BY <2>1, <2>2, <2>3, Zenon
  <2>6. k * lo + ((k * x - k * lo) % (k * hi - k * lo)) = k * (lo + ((x - lo) % (hi - lo)))
    BY <2>5, <2>4, <2>3, Zenon
  <2> QED BY <2>6, <1>4, <1>2 DEF WrapBetween
<1> QED BY <1>3, <1>4

\* ping-pong: the triangle wave of period 2 u
THEOREM PingPongScale == \A x, u, k \in Int : k > 0 => PingPong(k * x, k * u) = IF u <= 0 THEN PANIC ELSE k * PingPong(x, u)
<1> SUFFICES ASSUME NEW x \in Int, NEW u \in Int, NEW k \in Int, k > 0
             PROVE PingPong(k * x, k * u) = IF u <= 0 THEN PANIC ELSE k * PingPong(x, u)
  OBVIOUS
<1>h. k > 0
  OBVIOUS
<1>z. k * 0 = 0
  BY Z3
<1>1. u <= 0 <=> k * u <= 0
  <2>1. u <= 0 <=> k * u <= k * 0
    BY <1>h, ScaleIff
  <2> QED BY <2>1, <1>z, Zenon
<1>2. CASE u <= 0
  BY <1>2, <1>1 DEF PingPong
<1>3. CASE u > 0
  <2>0. 2 * u > 0 /\ 2 * u \in Int
    BY <1>3, Z3
  <2>1. 2 * (k * u) = k * (2 * u)
    BY Z3
  <2>2. (k * x) % (k * (2 * u)) = k * (x % (2 * u))
    BY <2>0, <1>h, ModScale
  <2>3. PICK r \in Int : r = x % (2 * u)
    BY <2>0, (2 * u) \in Nat \ {0}, Z3
  <2>4. (k * x) % (2 * (k * u)) = k * r
    BY <2>1, <2>2, <2>3, Zenon
  <2>5. r <= u <=> k * r <= k * u
    BY <1>h, ScaleIff
  <2>6. 2 * (k * u) - k * r = k * (2 * u - r)
    BY Z3
  <2>7. ~(k * u <= 0)
    BY <1>3, <1>1, Z3
  <2>8. PingPong(k * x, k * u) = IF k * r <= k * u THEN k * r ELSE 2 * (k * u) - k * r
    BY <2>7, <2>4 DEF PingPong
  <2>9. PingPong(x, u) = IF r <= u THEN r ELSE 2 * u - r
    BY <1>3, <2>3 DEF PingPong
  <2>10. k * PingPong(x, u) = IF r <= u THEN k * r ELSE k * (2 * u - r)
    BY <2>9, Zenon
  <2>11. ~(u <= 0)
    BY <1>3, Z3
  <2>12. PingPong(k * x, k * u) = k * PingPong(x, u)
    <3>1. CASE r <= u
      BY <3>1, <2>8, <2>10, <2>5, Zenon
    <3>2. CASE ~(r <= u)
      BY <3>2, <2>8, <2>10, <2>5, <2>6, Zenon
    <3> QED BY <3>1, <3>2
  <2> QED BY <2>11, <2>12, Zenon
<1> QED BY <1>2, <1>3, Z3
=============================================================================
