------------------------------- MODULE VekOwn -------------------------------
(***************************************************************************)
(* Ownership ledger for vek's container conversions (C18).                 *)
(* Anchors: src/vec.rs From<[T;N]>, From<tuple>, into_array, into_tuple,   *)
(* FromIterator, as_slice, as_mut_slice; src/mat.rs into/from_row_array(s),*)
(* into/from_col_array(s), transposed.                                     *)
(*                                                                         *)
(* A conversion consumes a sequence of element identities `inp` and yields *)
(* a sequence `out`; `dropped` are the identities destroyed during the     *)
(* call and `reads` those it formatted / compared / hashed.  "Each element *)
(* is transferred exactly once and keeps the documented order" is:         *)
(* out = the order function of the conversion applied to inp, nothing of   *)
(* inp is dropped or read, nothing appears twice.                          *)
(* A matrix is abstract here: M[i][j], no layout; its projection in a      *)
(* record is the row-major list read through m[(i,j)].                     *)
(***************************************************************************)
EXTENDS Integers, Sequences, FiniteSets

Range(s) == {s[i] : i \in DOMAIN s}
NoDup(s) == \A i, j \in DOMAIN s : s[i] = s[j] => i = j

\* abstract n x n matrix <-> flat lists
MatOfRowFlat(n, a) == [i \in 1 .. n |-> [j \in 1 .. n |-> a[(i - 1) * n + j]]]
MatOfColFlat(n, a) == [i \in 1 .. n |-> [j \in 1 .. n |-> a[(j - 1) * n + i]]]
RowFlat(n, M) == [k \in 1 .. n * n |-> M[((k - 1) \div n) + 1][((k - 1) % n) + 1]]
ColFlat(n, M) == [k \in 1 .. n * n |-> M[((k - 1) % n) + 1][((k - 1) \div n) + 1]]
Transp(n, M) == [i \in 1 .. n |-> [j \in 1 .. n |-> M[j][i]]]

\* FromIterator<T> for a vector of dimension n fed k items: the first min(k,n) slots
\* receive the items in order, the others keep Default (identity 0); the replaced
\* defaults and the items beyond n are destroyed, nothing else.
FromIterOut(n, inp) == [i \in 1 .. n |-> IF i <= Len(inp) THEN inp[i] ELSE 0]
FromIterDropped(n, inp) ==      \* as a sorted sequence: zeros first, then the surplus items
    LET z == IF Len(inp) < n THEN Len(inp) ELSE n
        surplus == IF Len(inp) > n THEN SubSeq(inp, n + 1, Len(inp)) ELSE <<>>
    IN [i \in 1 .. z |-> 0] \o surplus

\* expected observation of one conversion record e
ExpectedOut(e) ==
    CASE e.op \in {"vec_from_array", "vec_into_array", "vec_from_tuple", "vec_into_tuple",
                   "vec_as_slice", "vec_as_mut_slice"} -> e.inp
      [] e.op = "vec_from_iter" -> FromIterOut(e.n, e.inp)
      \* inp is the row-major projection of the abstract matrix
      [] e.op \in {"mat_into_row_array", "mat_into_row_arrays"} -> RowFlat(e.n, MatOfRowFlat(e.n, e.inp))
      [] e.op \in {"mat_into_col_array", "mat_into_col_arrays"} -> ColFlat(e.n, MatOfRowFlat(e.n, e.inp))
      \* out is the row-major projection of the resulting abstract matrix
      [] e.op \in {"mat_from_row_array", "mat_from_row_arrays"} -> RowFlat(e.n, MatOfRowFlat(e.n, e.inp))
      [] e.op \in {"mat_from_col_array", "mat_from_col_arrays"} -> RowFlat(e.n, MatOfColFlat(e.n, e.inp))
      [] e.op = "mat_transposed" -> RowFlat(e.n, Transp(e.n, MatOfRowFlat(e.n, e.inp)))
ExpectedDropped(e) == IF e.op = "vec_from_iter" THEN FromIterDropped(e.n, e.inp) ELSE <<>>

\* the ledger law every conversion must satisfy
Ledger(e) == /\ NoDup(e.inp)
             /\ e.reads = <<>>
             /\ e.ok = 1
             /\ \A x \in Range(e.inp) :        \* moved exactly once: in out XOR dropped, never both, never twice
                   Cardinality({i \in DOMAIN e.out : e.out[i] = x}) +
                   Cardinality({i \in DOMAIN e.dropped : e.dropped[i] = x}) = 1
=============================================================================
