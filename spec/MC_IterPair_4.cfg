\* C18: every pair of cursor states of two iterators of dimension 4
CONSTANTS N = 4 BAND = 4
SPECIFICATION Spec
INVARIANTS TypeOK EqFacts Emit
CHECK_DEADLOCK FALSE
