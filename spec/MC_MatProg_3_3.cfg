CONSTANTS P = 0
  N0 = 3
  MAXLEN = 3
INIT Init
NEXT Next
INVARIANTS LayoutUnobservable IsRun Facts Emit
CHECK_DEADLOCK FALSE
