------------------------------- MODULE Gen_Num -------------------------------
(***************************************************************************)
(* Table emitter (binding B3, spec -> code) for the scalar numeric         *)
(* operations lifted by vek (C20): for one 8-bit signedness and one        *)
(* operation family, one JSON row per left operand x with the result for   *)
(* EVERY right operand y of the type:                                      *)
(*   {"fam":"checked","op":"add","x":..,"v":[r(x,ZMin) .. r(x,ZMax)]}      *)
(* fam: checked (999999 = None), wrapping, saturating, overflowing (v =    *)
(* wrapped value, f = flag).  The Rust replayer (vh replay num) puts x and *)
(* y in one lane position of a vector of every type, fixed values in the   *)
(* other lanes, and compares the lifted operation with the table.          *)
(* Environment: SIGNED=0|1, FAM, OPS="add,sub,...", XS="a,b,c"|"all".      *)
(***************************************************************************)
EXTENDS VekLift, TLC, Json, IOUtils, Sequences
VARIABLES op, x
SIGNED == IOEnv.SIGNED = "1"
FAM == IOEnv.FAM
T == ZRange(8, SIGNED)
RECURSIVE SplitStrs(_, _, _)
SplitStrs(s, i, acc) ==
    IF i > Len(s) THEN acc
    ELSE LET j == CHOOSE k \in i .. (Len(s) + 1) : (k = Len(s) + 1 \/ SubSeq(s, k, k) = ",") /\ \A m \in i .. (k - 1) : SubSeq(s, m, m) # ","
         IN SplitStrs(s, j + 1, acc \cup {SubSeq(s, i, j - 1)})
Ops == SplitStrs(IOEnv.OPS, 1, {})
Xs == IF IOEnv.XS = "all" THEN T ELSE {atoi(t) : t \in SplitStrs(IOEnv.XS, 1, {})}
R(y) == CASE FAM = "checked" -> Checked(op, x, y, 8, SIGNED)
          [] FAM = "wrapping" -> Wrapping(op, x, y, 8, SIGNED)
          [] FAM = "saturating" -> Saturating(op, x, y, 8, SIGNED)
          [] FAM = "overflowing" -> Wrapping(op, x, y, 8, SIGNED)
          \* unchecked Euclidean division (panics on a zero divisor / overflow: those entries are NONE)
          [] FAM = "plain" -> Checked(op, x, y, 8, SIGNED)
Row == [fam |-> FAM, op |-> op, x |-> x,
        v |-> [i \in 1 .. 256 |-> R(ZMin(8, SIGNED) + i - 1)],
        f |-> [i \in 1 .. 256 |-> IF FAM = "overflowing" THEN OverflowFlag(op, x, ZMin(8, SIGNED) + i - 1, 8, SIGNED) ELSE 0]]
Init == op \in Ops /\ x \in Xs
Next == UNCHANGED <<op, x>>
Emit == PrintT(ToJson(Row))
=============================================================================
