\* the rotation / quaternion / builder laws as polynomial identities (one state)
CONSTANT P <- PPoly
INIT Init
NEXT Next
INVARIANT SymLaws
CHECK_DEADLOCK FALSE
