------------------------------- MODULE VekPoly -------------------------------
(***************************************************************************)
(* The free commutative ring Z[x1, x2, ...] - the fourth ring of the vek   *)
(* abstract machine (VekField, P = PPoly).                                 *)
(*                                                                         *)
(* vek is generic in its element type, so running it on FREE SYMBOLS and   *)
(* comparing the polynomial it returns with the polynomial the             *)
(* specification computes decides a property "as a polynomial identity in  *)
(* all entries, hence for every input in any commutative ring" - the       *)
(* quantifier of C01, C04-C07, C11, C12, C14 - exactly, not by sampling.   *)
(*                                                                         *)
(* A polynomial is a finite set of pairs <<monomial, coefficient>> with    *)
(* pairwise distinct monomials and non-zero integer coefficients, which is *)
(* a CANONICAL form: two polynomials are equal iff the sets are equal, so  *)
(* the laws and trace specifications keep comparing ring elements with =.  *)
(* A monomial is a positive integer: variable k is the k-th prime and a    *)
(* product of variables is the product of their primes (unique             *)
(* factorisation makes this injective; 1 is the empty monomial).  TLC's    *)
(* integers are 32-bit and overflow is an ERROR, so a monomial or          *)
(* coefficient that does not fit stops the run instead of giving a wrong   *)
(* answer; the drivers keep degree and variable count small enough.        *)
(* Sets are evaluated eagerly by TLC (no lazy re-evaluation).              *)
(***************************************************************************)
EXTENDS Integers, Sequences, FiniteSets

Primes == <<2, 3, 5, 7, 11, 13, 17, 19, 23, 29, 31, 37, 41, 43, 47, 53, 59, 61, 67, 71,
            73, 79, 83, 89, 97, 101, 103, 107, 109, 113, 127, 131, 137, 139, 149, 151, 157, 163, 167, 173,
            179, 181, 191, 193, 197, 199, 211, 223, 227, 229, 233, 239, 241, 251, 257, 263, 269, 271, 277, 281>>
PZero == {}
PConst(c) == IF c = 0 THEN {} ELSE {<<1, c>>}
PVar(k) == {<<Primes[k], 1>>}                       \* the k-th variable
PMonos(a) == {t[1] : t \in a}
PCoef(a, m) == LET S == {t \in a : t[1] = m} IN IF S = {} THEN 0 ELSE (CHOOSE t \in S : TRUE)[2]
RECURSIVE PSumTagged(_)                             \* sum of the second components of a set of distinct pairs
PSumTagged(S) == IF S = {} THEN 0 ELSE LET t == CHOOSE u \in S : TRUE IN t[2] + PSumTagged(S \ {t})
PAdd(a, b) == IF a = {} THEN b ELSE IF b = {} THEN a
              ELSE {t \in {<<m, PCoef(a, m) + PCoef(b, m)>> : m \in PMonos(a) \cup PMonos(b)} : t[2] # 0}
PNeg(a) == {<<t[1], 0 - t[2]>> : t \in a}
PSub(a, b) == PAdd(a, PNeg(b))
\* one term times a polynomial: multiplication of monomials is injective on the monomials of b
PTermMul(x, b) == {<<x[1] * y[1], x[2] * y[2]>> : y \in b}
PMul(a, b) ==
    IF a = {} \/ b = {} THEN {}
    ELSE IF Cardinality(a) = 1 THEN PTermMul(CHOOSE x \in a : TRUE, b)
    ELSE IF Cardinality(b) = 1 THEN PTermMul(CHOOSE y \in b : TRUE, a)
    ELSE LET M == {x[1] * y[1] : x \in a, y \in b}
             C(m) == PSumTagged({<<x[1], x[2] * PCoef(b, m \div x[1])>> : x \in {z \in a : m % z[1] = 0}})
         IN {t \in {<<m, C(m)>> : m \in M} : t[2] # 0}
PIsConst(a) == a = {} \/ (Cardinality(a) = 1 /\ \A t \in a : t[1] = 1)
PConstOf(a) == PCoef(a, 1)
\* exact division by a non-zero integer constant (the only division the ring has)
PDivConst(a, c) == {<<t[1], t[2] \div c>> : t \in a}
PDivisible(a, c) == c # 0 /\ \A t \in a : t[2] % (IF c < 0 THEN 0 - c ELSE c) = 0
\* Rewriting modulo a relation v^2 = rhs (pv the prime of variable v, rhs a polynomial free of v): every v^2 is
\* replaced until v occurs at most linearly.  Two polynomials with equal reductions are equal in the quotient ring
\* Z[..]/(v^2 - rhs) - used for c^2 + s^2 = 1 (all angles) and x^2 + y^2 + z^2 = 1 (all unit axes).
RECURSIVE PReduce(_, _, _)
PReduce(a, pv, rhs) ==
    LET hi == {t \in a : t[1] % (pv * pv) = 0}
    IN IF hi = {} THEN a
       ELSE LET t == CHOOSE u \in hi : TRUE
            IN PReduce(PAdd(a \ {t}, PMul({<<t[1] \div (pv * pv), t[2]>>}, rhs)), pv, rhs)
=============================================================================
