\* C18: every pair of cursor states of two iterators of dimension 8
CONSTANTS N = 8 BAND = 8
SPECIFICATION Spec
INVARIANTS TypeOK EqFacts Emit
CHECK_DEADLOCK FALSE
