------------------------------ MODULE VekField ------------------------------
(***************************************************************************)
(* The commutative ring the vek abstract machine computes in.              *)
(*                                                                         *)
(* vek is generic in its element type, and every property that speaks of   *)
(* "exact arithmetic" is an identity in a commutative ring (a field where  *)
(* division occurs).  The specification is written once over the ring      *)
(* operations below and the ring is chosen by the model constant P:        *)
(*   P = 0      the integers (Rust's truncating / and % for division)      *)
(*   P = -1     the ordered field of exact rationals, a value being a      *)
(*              normalised pair <<n, d>> (VekNum); used where a property   *)
(*              needs ORDER as well as algebra (boxes, extrema, hit tests, *)
(*              half-planes): FLt / FLe are only defined for P <= 0.       *)
(*   P prime    the prime field Z_P.  P = 2, 3, 5 make the Law_* models    *)
(*              exhaustive; P = 46337 (largest prime with P*P < 2^31, so   *)
(*              TLC's 32-bit integers never overflow) is the field in which*)
(*              traces recorded from the real code are validated: the      *)
(*              harness runs vek on exact rationals and logs each value as *)
(*              its residue n * d^-1 mod P.                                *)
(* Serves every algebraic property (C01-C12, C14, C19).                    *)
(***************************************************************************)
EXTENDS VekNum
CONSTANT P
PRational == 0 - 1     \* cfg files cannot write a negative literal: CONSTANT P <- PRational

FI(x) == IF P = 0 THEN x ELSE IF P < 0 THEN <<x, 1>> ELSE x % P              \* integer -> ring element
FAdd(a, b) == IF P = 0 THEN a + b ELSE IF P < 0 THEN QAdd(a, b) ELSE (a + b) % P
FSub(a, b) == IF P = 0 THEN a - b ELSE IF P < 0 THEN QSub(a, b) ELSE (a - b) % P
FNeg(a) == IF P = 0 THEN -a ELSE IF P < 0 THEN QNeg(a) ELSE (P - a) % P
FMul(a, b) == IF P = 0 THEN a * b ELSE IF P < 0 THEN QMul(a, b) ELSE (a * b) % P
FSq(a) == FMul(a, a)
RECURSIVE FPow(_, _)
FPow(a, e) == IF e = 0 THEN FI(1)
              ELSE LET h == FPow(a, e \div 2)
                   IN IF e % 2 = 0 THEN FMul(h, h) ELSE FMul(FMul(h, h), a)
AbsI(x) == IF x < 0 THEN -x ELSE x
SgnI(x) == IF x < 0 THEN -1 ELSE IF x > 0 THEN 1 ELSE 0
TruncDivI(a, b) == SgnI(a) * SgnI(b) * (AbsI(a) \div AbsI(b))
\* multiplicative inverse (Fermat) / Rust integer division
FInv(a) == IF P = 0 THEN TruncDivI(1, a) ELSE IF P < 0 THEN QInv(a) ELSE FPow(a, P - 2)
FDiv(a, b) == IF P = 0 THEN TruncDivI(a, b) ELSE IF P < 0 THEN QDiv(a, b) ELSE FMul(a, FInv(b))
FRem(a, b) == a - b * TruncDivI(a, b)            \* only meaningful for P = 0
F0 == FI(0)
F1 == FI(1)
F2 == FI(2)
FHalf == FInv(F2)
RECURSIVE FSumFrom(_, _)
FSumFrom(s, i) == IF i > Len(s) THEN F0 ELSE FAdd(s[i], FSumFrom(s, i + 1))
FSum(s) == FSumFrom(s, 1)
RECURSIVE FProdFrom(_, _)
FProdFrom(s, i) == IF i > Len(s) THEN F1 ELSE FMul(s[i], FProdFrom(s, i + 1))
FProd(s) == FProdFrom(s, 1)
\* order (integers and exact rationals only)
FLt(a, b) == IF P = 0 THEN a < b ELSE QLt(a, b)
FLe(a, b) == IF P = 0 THEN a <= b ELSE QLe(a, b)
FSgn(a) == IF P = 0 THEN Sgn(a) ELSE QSgn(a)
FAbs(a) == IF FLt(a, F0) THEN FNeg(a) ELSE a
FMin(a, b) == IF FLe(a, b) THEN a ELSE b
FMax(a, b) == IF FLe(b, a) THEN a ELSE b
\* an exact rational <<n, d>> read in the current ring (binds pair-coded fields of a record
\* to residue-coded ones)
FOfQ(q) == FDiv(FI(q[1]), FI(q[2]))
\* the elements of the ring when it is finite
FSet == 0 .. (P - 1)
=============================================================================
