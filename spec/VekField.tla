------------------------------ MODULE VekField ------------------------------
(***************************************************************************)
(* The commutative ring the vek abstract machine computes in.              *)
(*                                                                         *)
(* vek is generic in its element type, and every property that speaks of   *)
(* "exact arithmetic" is an identity in a commutative ring (a field where  *)
(* division occurs).  The specification is written once over the ring      *)
(* operations below and the ring is chosen by the model constant P:        *)
(*   P = 0      the integers (Rust's truncating / and % for division)      *)
(*   P = -1     the ordered field of exact rationals, a value being a      *)
(*              normalised pair <<n, d>> (VekNum); used where a property   *)
(*              needs ORDER as well as algebra (boxes, extrema, hit tests, *)
(*              half-planes): FLt / FLe are only defined for P <= 0.       *)
(*   P prime    the prime field Z_P.  P = 2, 3, 5 make the Law_* models    *)
(*              exhaustive; P = 46337 (largest prime with P*P < 2^31, so   *)
(*              TLC's 32-bit integers never overflow) is the field in which*)
(*              traces recorded from the real code are validated: the      *)
(*              harness runs vek on exact rationals and logs each value as *)
(*              its residue n * d^-1 mod P.                                *)
(*   P = -2     (written P <- PPoly) the free commutative ring Z[x1,x2,..] *)
(*              of VekPoly: ring elements are polynomials in canonical     *)
(*              form; the Law_*_S models check the laws as polynomial      *)
(*              identities on free symbols and the symbolic lane of the    *)
(*              harness (element type Sym) is validated in it - no         *)
(*              sampling.  Division exists only by integer constants that  *)
(*              divide every coefficient; anything else stops TLC with an  *)
(*              error (never a wrong verdict).  No order.                  *)
(* Serves every algebraic property (C01-C12, C14, C19).                    *)
(***************************************************************************)
EXTENDS VekNum, VekPoly, TLC
CONSTANT P
PRational == 0 - 1     \* cfg files cannot write a negative literal: CONSTANT P <- PRational
PPoly == 0 - 2         \* CONSTANT P <- PPoly
OrderedRing == P = 0 \/ P = PRational

FI(x) == IF P = 0 THEN x ELSE IF P = PRational THEN <<x, 1>> ELSE IF P = PPoly THEN PConst(x) ELSE x % P              \* integer -> ring element
FAdd(a, b) == IF P = 0 THEN a + b ELSE IF P = PRational THEN QAdd(a, b) ELSE IF P = PPoly THEN PAdd(a, b) ELSE (a + b) % P
FSub(a, b) == IF P = 0 THEN a - b ELSE IF P = PRational THEN QSub(a, b) ELSE IF P = PPoly THEN PSub(a, b) ELSE (a - b) % P
FNeg(a) == IF P = 0 THEN -a ELSE IF P = PRational THEN QNeg(a) ELSE IF P = PPoly THEN PNeg(a) ELSE (P - a) % P
FMul(a, b) == IF P = 0 THEN a * b ELSE IF P = PRational THEN QMul(a, b) ELSE IF P = PPoly THEN PMul(a, b) ELSE (a * b) % P
FSq(a) == FMul(a, a)
RECURSIVE FPow(_, _)
FPow(a, e) == IF e = 0 THEN FI(1)
              ELSE LET h == FPow(a, e \div 2)
                   IN IF e % 2 = 0 THEN FMul(h, h) ELSE FMul(FMul(h, h), a)
AbsI(x) == IF x < 0 THEN -x ELSE x
SgnI(x) == IF x < 0 THEN -1 ELSE IF x > 0 THEN 1 ELSE 0
TruncDivI(a, b) == SgnI(a) * SgnI(b) * (AbsI(a) \div AbsI(b))
\* multiplicative inverse (Fermat) / Rust integer division
\* polynomial ring: only exact division by an integer constant
PolyDiv(a, b) == IF PIsConst(b) /\ PDivisible(a, PConstOf(b)) THEN PDivConst(a, PConstOf(b))
                 ELSE Assert(FALSE, <<"division in the polynomial ring", a, b>>)
FInv(a) == IF P = 0 THEN TruncDivI(1, a) ELSE IF P = PRational THEN QInv(a) ELSE IF P = PPoly THEN PolyDiv(PConst(1), a) ELSE FPow(a, P - 2)
FDiv(a, b) == IF P = 0 THEN TruncDivI(a, b) ELSE IF P = PRational THEN QDiv(a, b) ELSE IF P = PPoly THEN PolyDiv(a, b) ELSE FMul(a, FInv(b))
FRem(a, b) == a - b * TruncDivI(a, b)            \* only meaningful for P = 0
F0 == FI(0)
F1 == FI(1)
F2 == FI(2)
FHalf == FInv(F2)
RECURSIVE FSumFrom(_, _)
FSumFrom(s, i) == IF i > Len(s) THEN F0 ELSE FAdd(s[i], FSumFrom(s, i + 1))
FSum(s) == FSumFrom(s, 1)
RECURSIVE FProdFrom(_, _)
FProdFrom(s, i) == IF i > Len(s) THEN F1 ELSE FMul(s[i], FProdFrom(s, i + 1))
FProd(s) == FProdFrom(s, 1)
\* order (integers and exact rationals only)
FLt(a, b) == IF P = 0 THEN a < b ELSE QLt(a, b)
FLe(a, b) == IF P = 0 THEN a <= b ELSE QLe(a, b)
FSgn(a) == IF P = 0 THEN Sgn(a) ELSE QSgn(a)
FAbs(a) == IF FLt(a, F0) THEN FNeg(a) ELSE a
FMin(a, b) == IF FLe(a, b) THEN a ELSE b
FMax(a, b) == IF FLe(b, a) THEN a ELSE b
\* an exact rational <<n, d>> read in the current ring (binds pair-coded fields of a record
\* to residue-coded ones)
FOfQ(q) == FDiv(FI(q[1]), FI(q[2]))
\* Records of the symbolic lane (harness element type Sym): a ring element is logged as {"ply": [[coefficient,
\* monomial], ...]} and the record's field `shp` describes where they are: [t |-> "P"] a polynomial,
\* [t |-> "L", e |-> <<..>>] a list with one descriptor per element, [t |-> "R", f |-> [field |-> ..]] a record
\* (fields that hold no polynomial are not listed), [t |-> "K"] anything else.  DecodeTrace turns them into
\* VekPoly values before the ordinary actions of a trace specification are evaluated, so the same actions
\* validate sampled and symbolic records.
PolyOfJson(x) == {<<x.ply[i][2], x.ply[i][1]>> : i \in DOMAIN x.ply}
RECURSIVE DecodeBy(_, _)
DecodeBy(D, x) == CASE D.t = "P" -> PolyOfJson(x)
                    [] D.t = "K" -> x
                    [] D.t = "L" -> [i \in DOMAIN x |-> DecodeBy(D.e[i], x[i])]
                    [] D.t = "R" -> [f \in DOMAIN x |-> IF f \in DOMAIN D.f THEN DecodeBy(D.f[f], x[f]) ELSE x[f]]
DecodeRec(e) == IF "shp" \in DOMAIN e THEN DecodeBy(e.shp, e) ELSE e
DecodeTrace(recs) == IF P = PPoly THEN [i \in DOMAIN recs |-> DecodeRec(recs[i])] ELSE recs
\* the elements of the ring when it is finite
FSet == 0 .. (P - 1)
=============================================================================
