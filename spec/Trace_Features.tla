---------------------------- MODULE Trace_Features ----------------------------
(***************************************************************************)
(* Validates the build records of the feature matrix against VekFeatures:  *)
(* each record is one configuration built (cargo, offline, stable) with    *)
(* the probe program run: {"base":..,"feats":[..],"ok":1,"digest":".."}.   *)
(***************************************************************************)
EXTENDS VekFeatures
Rec == ndJsonDeserialize(IOEnv.TRACE)
VARIABLE l

InitT == l = 1
Ok(e) == /\ [base |-> e.base, feats |-> ToSet(e.feats)] \in Configs
         /\ e.ok = 1
         /\ e.digest = Rec[1].digest                         \* the same behaviour under every feature set
StepT == /\ l <= Len(Rec)
         /\ IF Ok(Rec[l]) THEN TRUE ELSE PrintT(ToJson([tag |-> "MISMATCH", l |-> l, exp |-> Rec[1].digest]))
         /\ l' = l + 1
\* every configuration of the set was built
AllBuilt == {[base |-> Rec[i].base, feats |-> ToSet(Rec[i].feats)] : i \in 1 .. Len(Rec)} = Configs
Accepted == IF TLCGet("stats").diameter - 1 = Len(Rec) /\ AllBuilt THEN TRUE
            ELSE PrintT(ToJson([tag |-> "REJECTED_AT", l |-> TLCGet("stats").diameter])) /\ FALSE
=============================================================================
