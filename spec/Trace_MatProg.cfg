CONSTANT P = 0
INIT Init
NEXT Next
POSTCONDITION Accepted
CHECK_DEADLOCK FALSE
