------------------------------ MODULE MC_Chain ------------------------------
(***************************************************************************)
(* The builder-chain machine of C07: a matrix register that starts as the  *)
(* identity and is updated by one chained builder call per step            *)
(* (m' = Step * m).  TLC explores EVERY chain up to MAXLEN calls for the   *)
(* matrix size N and checks on the specification that the accumulated      *)
(* matrix sends a point to what applying the steps to the point, one after *)
(* the other IN CALL ORDER, gives.  Every reachable chain is also printed  *)
(* (binding B1): the harness replays each of them on the real row-major    *)
(* and column-major types, returning and in-place forms, and the recorded  *)
(* matrices after every call are validated by Trace_Xform.                 *)
(* Constants: N in {2,3,4}, MAXLEN (3 quick, 4 thorough), P = 46337.       *)
(* States: N=4: 400 (MAXLEN 3) / 2801 (4); N=3: 259 / 1555; N=2: 85 / 341. *)
(***************************************************************************)
EXTENDS VekXform, TLC, Json
CONSTANTS N, MAXLEN
VARIABLES kinds, steps, M

Kinds == IF N = 4 THEN {"translate_3d", "translate_2d", "scale_3d", "rotate_x", "rotate_y", "rotate_z", "rotate_3d"}
         ELSE IF N = 3 THEN {"translate_2d", "scale_3d", "rotate_x", "rotate_y", "rotate_z", "rotate_3d"}
         ELSE {"scale_2d", "shear_x", "shear_y", "rotate_z"}
\* fixed, position-dependent parameters (the harness draws its own when it replays a chain)
Axis == <<FDiv(FI(2), FI(3)), FDiv(FI(-1), FI(3)), FDiv(FI(2), FI(3))>>      \* a unit vector
ParamStep(kind, i) ==
    LET cs == TokenCS(1 + (i % 2), i)
        v == IF kind = "rotate_3d" THEN Axis ELSE <<FI(i + 1), FI(2 * i + 1), FI(3 * i + 2)>>
    IN [k |-> kind, v |-> v, c |-> cs[1], s |-> cs[2]]
P0 == IF N = 2 THEN <<FI(1), FI(2)>> ELSE <<FI(1), FI(2), FI(3)>>
Pt2 == <<FI(1), FI(2)>>

Init == kinds = <<>> /\ steps = <<>> /\ M = Idn(N)
Call(kind) == /\ Len(kinds) < MAXLEN
              /\ LET st == ParamStep(kind, Len(kinds) + 1)
                 IN /\ kinds' = Append(kinds, kind)
                    /\ steps' = Append(steps, st)
                    /\ M' = MatMul(StepMat(N, st), M)
Next == \E kind \in Kinds : Call(kind)

\* the chain applies its steps to a point in the order they were called
Only2D == \A i \in 1 .. Len(kinds) : kinds[i] = "translate_2d"
AppliesInCallOrder ==
    /\ M = ChainMat(N, steps, Len(steps))
    /\ IF N = 4 THEN MatVec(M, Point4(P0)) = Point4(ChainPoint(steps, Len(steps), P0))
       ELSE IF N = 2 THEN MatVec(M, P0) = ChainPoint(steps, Len(steps), P0)
       ELSE \* a 3x3 matrix acts on 3D vectors, or on 2D points when only 2D translations were chained
            IF Only2D THEN MatVec(M, Point3(Pt2)) = Point3(ChainPoint(steps, Len(steps), Pt2))
            ELSE \A i \in 1 .. Len(kinds) : kinds[i] # "translate_2d" => TRUE
    /\ (N = 3 /\ \A i \in 1 .. Len(kinds) : kinds[i] # "translate_2d")
          => MatVec(M, P0) = ChainPoint(steps, Len(steps), P0)
Emit == PrintT(ToJson([n |-> N, kinds |-> kinds]))
=============================================================================
