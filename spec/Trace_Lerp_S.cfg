\* symbolic lane: end points and factors are free symbols (VekPoly); only the unclamped (polynomial) forms
CONSTANT P <- PPoly
INIT Init
NEXT Next
POSTCONDITION Accepted
CHECK_DEADLOCK FALSE
