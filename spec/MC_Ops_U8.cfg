\* C17: every (x, lo, hi) of a 8-bit unsigned type. States = 2^(2*8) bound pairs.
CONSTANTS BITS = 8 SIGNED = FALSE
INIT Init
NEXT Next
INVARIANTS SpecLawsClamp SpecLawsWrap SpecLawsPingPong SpecLawsDelta AlgoWrapBetween AlgoPingPong OldAlgoCorrect
CHECK_DEADLOCK FALSE
