CONSTANTS P = 0
  K = 1
INIT Init
NEXT Next
INVARIANTS IntLaw
CHECK_DEADLOCK FALSE
