CONSTANTS P = 46337
  N = 3
  MAXLEN = 4
INIT Init
NEXT Next
INVARIANTS AppliesInCallOrder Emit
CHECK_DEADLOCK FALSE
