------------------------------ MODULE Law_Lerp ------------------------------
(***************************************************************************)
(* Laws of the interpolation part of the specification (C12), checked by   *)
(* TLC: on K random tuples over Z_46337 for the ring identities, over      *)
(* exact rationals for clamping, and exhaustively over a small integer box *)
(* for the integer interpolation LerpInt (rounded real value).             *)
(***************************************************************************)
EXTENDS VekLerp, VekOps, TLC
CONSTANTS K
VARIABLES k, r
RandEl == IF P > 0 THEN RandomElement(0 .. (P - 1)) ELSE FI(RandomElement(-4 .. 4))
Init == k \in 1 .. K /\ r = [i \in 1 .. 24 |-> IF P < 0 /\ i \in 5 .. 12 THEN FI(RandomElement(-1 .. 1)) ELSE RandEl]
Next == UNCHANGED <<k, r>>

a == r[1]
b == r[2]
t == r[3]
s == r[4]
FastIsPrecise == LerpFast(a, b, t) = LerpPrecise(a, b, t)
Endpoints == LerpFast(a, b, F0) = a /\ LerpFast(a, b, F1) = b /\ LerpPrecise(a, b, F0) = a /\ LerpPrecise(a, b, F1) = b
\* affine in the factor: the interpolation at an affine combination of factors is the same combination of values
Affine == LerpFast(a, b, LerpFast(t, s, r[13])) = LerpFast(LerpFast(a, b, t), LerpFast(a, b, s), r[13])
Extrapolates == LerpFast(a, b, F2) = FSub(FAdd(b, b), a) /\ LerpFast(a, b, FNeg(F1)) = FSub(FAdd(a, a), b)
ClampLaw == P <= 0 => /\ Clamp01(Clamp01(t)) = Clamp01(t) /\ FLe(F0, Clamp01(t)) /\ FLe(Clamp01(t), F1)
                      /\ (FLe(F0, t) /\ FLe(t, F1) => Clamp01(t) = t)
                      /\ VLerp("clamped", <<a>>, <<b>>, <<t>>) = VLerp("unclamped", <<a>>, <<b>>, <<Clamp01(t)>>)
\* spherical interpolation (field only): unit, ends, constant angular speed
p1 == <<r[5], r[6], r[7], r[8]>>
UnitQ(p) == IF QuatNorm2(p) = F0 THEN QuatId ELSE VScale(QuatMul(p, p), FInv(QuatNorm2(p)))
from == UnitQ(p1)
axis == Col(MatOfQuat3(UnitQ(<<r[9], r[10], r[11], r[12]>>)), 1)
SlerpLaw == P > 0 => \A bb \in 1 .. 2, m \in 1 .. 4 :
    LET to == SlerpEnd(from, axis, bb, m)
        far == IF Obtuse(bb, m) THEN VNeg(to) ELSE to
    IN /\ QuatNorm2(to) = F1
       /\ Slerp(from, axis, bb, m, 0, 1) = from
       /\ Slerp(from, axis, bb, m, 1, 1) = far                      \* far end up to the sign denoting the same rotation
       /\ (~Obtuse(bb, m) => \A j \in 0 .. m :
              /\ QuatNorm2(Slerp(from, axis, bb, m, j, m)) = F1
              \* constant angular speed: equal steps compose
              /\ (j < m => QuatMul(QuatConj(Slerp(from, axis, bb, m, j, m)), Slerp(from, axis, bb, m, j + 1, m))
                             = QuatMul(QuatConj(from), Slerp(from, axis, bb, m, 1, m))))
       /\ (Obtuse(bb, m) /\ m % 2 = 0 => LET mid == Slerp(from, axis, bb, m, 1, 2)
                                         IN /\ QuatNorm2(mid) = F1
                                            /\ QuatMul(QuatConj(from), mid) = QuatMul(QuatConj(mid), far))
\* integer interpolation = rounded real value: exact ends, symmetric, monotone in t between the ends
IntLaw == P = 0 => \A x, y \in -4 .. 4 : \A tn \in -8 .. 16 :
    /\ LerpInt(x, y, QF(0, 8)) = x /\ LerpInt(x, y, QF(8, 8)) = y
    /\ LerpInt(x, y, QF(tn, 8)) = -LerpInt(-x, -y, QF(tn, 8))           \* ties away from zero: odd symmetry
    /\ LerpInt(x, y, QF(tn, 8)) = LerpInt(y, x, QF(8 - tn, 8))
    /\ 2 * Abs(8 * LerpInt(x, y, QF(tn, 8)) - (8 * x + tn * (y - x))) <= 8  \* within 1/2 of the real value
    \* homogeneity used by the replayer for the wider integer types: endpoints scaled by a multiple
    \* of 8 interpolate to the exact real value, no rounding involved
    /\ \A kk \in {8, 16, 64} : LerpInt(kk * x, kk * y, QF(tn, 8)) = (kk \div 8) * (8 * x + tn * (y - x))
=============================================================================
