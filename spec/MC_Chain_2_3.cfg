CONSTANTS P = 46337
  N = 2
  MAXLEN = 3
INIT Init
NEXT Next
INVARIANTS AppliesInCallOrder Emit
CHECK_DEADLOCK FALSE
