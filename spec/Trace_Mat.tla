----------------------------- MODULE Trace_Mat -----------------------------
(***************************************************************************)
(* Trace validation (binding B2, code -> spec) for the matrix algebra of   *)
(* C01 (products) and C06 (determinants, inverses).  Every record is one   *)
(* call of the real vek code, logged by `vh drive products|detinv` after   *)
(* the call returned, with operands and result as ABSTRACT matrices        *)
(* (projected through m[(i,j)]); the layouts of the operands are carried   *)
(* in `lay` but do not occur in the specification: the same abstract       *)
(* result is required whatever the layout (LayoutUnobservable).            *)
(* The ring is Z_P (exact rationals logged as residues) or, with P = 0,    *)
(* the integers (i32/i64/f32/f64 monomorphisations on small integers), or, *)
(* with P = PPoly, the free commutative ring: the code was run on free      *)
(* symbols and each recorded result is the polynomial it computes for      *)
(* every input, compared with the specification's polynomial.              *)
(***************************************************************************)
EXTENDS VekXform, TLC, Json, IOUtils
Rec == DecodeTrace(ndJsonDeserialize(IOEnv.TRACE))
VARIABLE l

Mat2H(h, a, b) ==
    CASE h = "rows_mul"     -> V4Rows(MatMul(M2Rows(a), M2Rows(b)))
      [] h = "rows_adj_mul" -> V4Rows(MatMul(Adj2(M2Rows(a)), M2Rows(b)))
      [] h = "rows_mul_adj" -> V4Rows(MatMul(M2Rows(a), Adj2(M2Rows(b))))
      [] h = "cols_mul"     -> V4Cols(MatMul(M2Cols(a), M2Cols(b)))
      [] h = "cols_adj_mul" -> V4Cols(MatMul(Adj2(M2Cols(a)), M2Cols(b)))
      [] h = "cols_mul_adj" -> V4Cols(MatMul(M2Cols(a), Adj2(M2Cols(b))))

Expected(e) ==
    CASE e.op = "mul_mm" -> MatMul(e.a, e.b)
      [] e.op = "mul_mv" -> MatVec(e.a, e.v)
      [] e.op = "mul_vm" -> VecMat(e.v, e.a)
      [] e.op = "mul_ms" -> MatScale(e.a, e.s)
      [] e.op = "add_ms" -> MapM(e.a, LAMBDA x : FAdd(x, e.s))
      [] e.op = "sub_ms" -> MapM(e.a, LAMBDA x : FSub(x, e.s))
      [] e.op = "div_ms" -> MapM(e.a, LAMBDA x : FDiv(x, e.s))
      [] e.op = "rem_ms" -> MapM(e.a, LAMBDA x : FRem(x, e.s))
      [] e.op = "add_mm" -> MatAdd(e.a, e.b)
      [] e.op = "sub_mm" -> MatSub(e.a, e.b)
      [] e.op = "mulw_mm" -> Map2M(e.a, e.b, FMul)
      [] e.op = "div_mm" -> Map2M(e.a, e.b, FDiv)
      [] e.op = "rem_mm" -> Map2M(e.a, e.b, FRem)
      [] e.op = "neg_m" -> MatNeg(e.a)
      [] e.op = "identity" -> Idn(e.n)
      [] e.op = "zero" -> ZeroM(e.n)
      [] e.op = "is_zero" -> IF IsZeroM(e.a) THEN 1 ELSE 0
      [] e.op = "mat2h" -> Mat2H(e.h, e.a, e.b)
      [] e.op = "det" -> Det(e.a)
      [] e.op = "inv" -> Inv(e.a)
      [] e.op = "inv_rigid" -> RigidInv(e.a)
      [] e.op = "inv_rigid_sym" -> RigidInv(e.a)
      [] e.op = "inv_affine" -> Inv(e.a)
      [] e.op = "transposed" -> Transp(e.a)

\* C06: the recorded inverse must be a two-sided inverse, checked directly as well
TwoSided(e) == e.op \in {"inv", "inv_affine", "inv_rigid"} =>
                  /\ MatMul(e.a, e.obs) = Idn(4)
                  /\ MatMul(e.obs, e.a) = Idn(4)
\* C06, symbolic lane: the code's inverse of a matrix of free symbols, given as numerators over one common denominator,
\* satisfies A * N = N * A = D * I with D # 0 - the rational-function identity inv(A) = N / D, fraction-free
InvSymOk(e) == /\ e.obs.den # F0
               /\ MatMul(e.a, e.obs.num) = MatScale(Idn(4), e.obs.den)
               /\ MatMul(e.obs.num, e.a) = MatScale(Idn(4), e.obs.den)
Conforms(e) == e.pan = 0 /\ (IF e.op = "inv_sym" THEN InvSymOk(e) ELSE e.obs = Expected(e) /\ TwoSided(e))

Init == l = 1
Step(name) ==
    /\ l <= Len(Rec) /\ Rec[l].op = name
    /\ IF Conforms(Rec[l]) THEN TRUE
       ELSE PrintT(ToJson([tag |-> "MISMATCH", l |-> l, exp |-> IF name = "inv_sym" THEN 0 ELSE Expected(Rec[l])]))
    /\ l' = l + 1
MulMM == Step("mul_mm")
MulMV == Step("mul_mv")
MulVM == Step("mul_vm")
MulMS == Step("mul_ms")
AddMS == Step("add_ms")
SubMS == Step("sub_ms")
DivMS == Step("div_ms")
RemMS == Step("rem_ms")
AddMM == Step("add_mm")
SubMM == Step("sub_mm")
MulwMM == Step("mulw_mm")
DivMM == Step("div_mm")
RemMM == Step("rem_mm")
NegM == Step("neg_m")
Identity == Step("identity")
ZeroA == Step("zero")
IsZero == Step("is_zero")
Mat2Helper == Step("mat2h")
DetA == Step("det")
InvA == Step("inv")
InvRigid == Step("inv_rigid")
InvAffine == Step("inv_affine")
TransposedA == Step("transposed")
InvSym == Step("inv_sym")
InvRigidSym == Step("inv_rigid_sym")
Next == InvSym \/ InvRigidSym \/ MulMM \/ MulMV \/ MulVM \/ MulMS \/ AddMS \/ SubMS \/ DivMS \/ RemMS \/ AddMM \/ SubMM
        \/ MulwMM \/ DivMM \/ RemMM \/ NegM \/ Identity \/ ZeroA \/ IsZero \/ Mat2Helper
        \/ DetA \/ InvA \/ InvRigid \/ InvAffine \/ TransposedA

Accepted == IF TLCGet("stats").diameter - 1 = Len(Rec) THEN TRUE
            ELSE PrintT(ToJson([tag |-> "REJECTED_AT", l |-> TLCGet("stats").diameter])) /\ FALSE
=============================================================================
