\* every (A,B,v,s) over Z_2 with C = A^T: 2048 states
CONSTANTS P = 2
  N = 2
  MODE = "pairs"
  K = 0
INIT Init
NEXT Next
INVARIANT Laws
CHECK_DEADLOCK FALSE
