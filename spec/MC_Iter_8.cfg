\* C18: every history over {next, next_back, len, observe, drop} for dimension 8 (complete state graph)
CONSTANT N = 8
SPECIFICATION Spec
INVARIANTS TypeOK LiveIsWindow NoReadOfMoved LenOk NoLeak
PROPERTIES ExactlyOnce Order
CHECK_DEADLOCK FALSE
