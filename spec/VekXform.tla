------------------------------ MODULE VekXform ------------------------------
(***************************************************************************)
(* Rotation, translation, scaling and shear builders, builder chains,      *)
(* Transform, look-at and change-of-basis matrices of the abstract machine.*)
(* An angle never occurs as a number: a rotation is given by (c, s), the   *)
(* cosine and sine of its angle, with c*c + s*s = 1 (exact rationals /     *)
(* residues), so everything below is ring arithmetic.                      *)
(* C04 | src/mat.rs rotation_x/y/z/3d (+ rotated_.., rotate_..), Vec2::rotated_z *)
(*       Quaternion::rotation_3d                                           *)
(* C07 | src/mat.rs translation_*/scaling_*/shearing_* (+_ed, in place),   *)
(*       mul_point/mul_direction(_2d), From<Transform> for Mat4            *)
(* C09 | src/mat.rs look_at_*, model_look_at_*, basis_to_local, local_to_basis*)
(***************************************************************************)
EXTENDS VekQuat

RotX3(c, s) == << <<F1, F0, F0>>, <<F0, c, FNeg(s)>>, <<F0, s, c>> >>
RotY3(c, s) == << <<c, F0, s>>, <<F0, F1, F0>>, <<FNeg(s), F0, c>> >>
RotZ3(c, s) == << <<c, FNeg(s), F0>>, <<s, c, F0>>, <<F0, F0, F1>> >>
RotZ2(c, s) == << <<c, FNeg(s)>>, <<s, c>> >>
\* Rodrigues' formula for a UNIT axis n: R = c I + s [n]x + (1-c) n n^T    | rotation_3d
Rodrigues(c, s, n) ==
    LET oc == FSub(F1, c)
        x == n[1]  y == n[2]  z == n[3]
    IN << << FAdd(FMul(oc, FSq(x)), c), FSub(FMul(oc, FMul(x, y)), FMul(z, s)), FAdd(FMul(oc, FMul(z, x)), FMul(y, s)) >>,
          << FAdd(FMul(oc, FMul(x, y)), FMul(z, s)), FAdd(FMul(oc, FSq(y)), c), FSub(FMul(oc, FMul(y, z)), FMul(x, s)) >>,
          << FSub(FMul(oc, FMul(z, x)), FMul(y, s)), FAdd(FMul(oc, FMul(y, z)), FMul(x, s)), FAdd(FMul(oc, FSq(z)), c) >> >>
\* (cos, sin) of the sum and of the double of angles
AngAdd(a, b) == << FSub(FMul(a[1], b[1]), FMul(a[2], b[2])), FAdd(FMul(a[2], b[1]), FMul(a[1], b[2])) >>
AngDouble(a) == AngAdd(a, a)
RECURSIVE AngTimes(_, _)
AngTimes(a, k) == IF k = 0 THEN <<F1, F0>> ELSE IF k < 0 THEN LET r == AngTimes(a, -k) IN <<r[1], FNeg(r[2])>>
                  ELSE AngAdd(AngTimes(a, k - 1), a)
\* the registered angle tokens of the harness: phi_b has (cos, sin) = PythBase[b]; a record that
\* names its angle as k * phi_b has its (c, s) recomputed here, the harness cannot invent them
PythBase == << <<4, 3, 5>>, <<12, 5, 13>>, <<40, 9, 41>>, <<15, 8, 17>> >>
TokenCS(b, k) == AngTimes(<<FDiv(FI(PythBase[b][1]), FI(PythBase[b][3])), FDiv(FI(PythBase[b][2]), FI(PythBase[b][3]))>>, k)

---------------------------------------------------------------------------
(* Affine builders (homogeneous matrices)                                  *)
Transl3(v) == << <<F1, F0, F0, v[1]>>, <<F0, F1, F0, v[2]>>, <<F0, F0, F1, v[3]>>, <<F0, F0, F0, F1>> >>
Transl2in4(v) == Transl3(<<v[1], v[2], F0>>)
Transl2in3(v) == << <<F1, F0, v[1]>>, <<F0, F1, v[2]>>, <<F0, F0, F1>> >>
Scale3in4(v) == WithDiag(<<v[1], v[2], v[3], F1>>)
Scale3in3(v) == WithDiag(<<v[1], v[2], v[3]>>)
Scale2in2(v) == WithDiag(<<v[1], v[2]>>)
ShearX2(k) == << <<F1, k>>, <<F0, F1>> >>       \* x' = x + k y
ShearY2(k) == << <<F1, F0>>, <<k, F1>> >>       \* y' = y + k x
\* position-orientation-scale: p |-> position + orientation * (scale . p)  | From<Transform> for Mat4
XformMat(pos, q, scale) == MatMul(Transl3(pos), MatMul(MatOfQuat4(q), Scale3in4(scale)))
XformApply(pos, q, scale, p) == VAdd(pos, QuatRot(q, VMulW(scale, p)))

(* One step of a builder chain: the constructor matrix of a step record    *)
(* [k |-> kind, ...] for matrix size n.  `m.translated_3d(v)` is specified *)
(* as Step * m (pre-multiplication), so a chain applies its steps to a     *)
(* point in the order in which they were called.                           *)
StepMat(n, st) ==
    CASE st.k = "translate_3d" -> Transl3(st.v)
      [] st.k = "translate_2d" -> IF n = 4 THEN Transl2in4(st.v) ELSE Transl2in3(st.v)
      [] st.k = "scale_3d" -> IF n = 4 THEN Scale3in4(st.v) ELSE Scale3in3(st.v)
      [] st.k = "scale_2d" -> Scale2in2(st.v)
      [] st.k = "shear_x" -> ShearX2(st.v[1])
      [] st.k = "shear_y" -> ShearY2(st.v[1])
      [] st.k = "rotate_x" -> Resize(RotX3(st.c, st.s), n)
      [] st.k = "rotate_y" -> Resize(RotY3(st.c, st.s), n)
      [] st.k = "rotate_z" -> IF n = 2 THEN RotZ2(st.c, st.s) ELSE Resize(RotZ3(st.c, st.s), n)
      [] st.k = "rotate_3d" -> Resize(Rodrigues(st.c, st.s, st.v), n)
\* the action of one step on a point (inhomogeneous coordinates), by definition
StepPoint(st, p) ==
    CASE st.k = "translate_3d" -> VAdd(p, st.v)
      [] st.k = "translate_2d" -> [i \in 1 .. Len(p) |-> IF i <= 2 THEN FAdd(p[i], st.v[i]) ELSE p[i]]
      [] st.k = "scale_3d" -> VMulW(p, st.v)
      [] st.k = "scale_2d" -> VMulW(p, st.v)
      [] st.k = "shear_x" -> <<FAdd(p[1], FMul(st.v[1], p[2])), p[2]>>
      [] st.k = "shear_y" -> <<p[1], FAdd(p[2], FMul(st.v[1], p[1]))>>
      [] st.k = "rotate_x" -> MatVec(RotX3(st.c, st.s), p)
      [] st.k = "rotate_y" -> MatVec(RotY3(st.c, st.s), p)
      [] st.k = "rotate_z" -> IF Len(p) = 2 THEN MatVec(RotZ2(st.c, st.s), p) ELSE MatVec(RotZ3(st.c, st.s), p)
      [] st.k = "rotate_3d" -> MatVec(Rodrigues(st.c, st.s, st.v), p)
RECURSIVE ChainMat(_, _, _)
ChainMat(n, steps, i) == IF i = 0 THEN Idn(n) ELSE MatMul(StepMat(n, steps[i]), ChainMat(n, steps, i - 1))
RECURSIVE ChainPoint(_, _, _)
ChainPoint(steps, i, p) == IF i = 0 THEN p ELSE StepPoint(steps[i], ChainPoint(steps, i - 1, p))
\* homogeneous point of dimension n for an inhomogeneous one
Homog(n, p) == IF n = Len(p) THEN p ELSE IF n = Len(p) + 1 THEN p \o <<F1>> ELSE p \o <<F0, F1>>
Dehomog(n, h, d) == [i \in 1 .. d |-> h[i]]

---------------------------------------------------------------------------
(* View matrices, stated by what they must do (C09).  M is 4x4.            *)
Rot3Of(M) == [i \in 1 .. 3 |-> [j \in 1 .. 3 |-> M[i][j]]]
TranslOf(M) == <<M[1][4], M[2][4], M[3][4]>>
IsAffine(M) == M[4] = <<F0, F0, F0, F1>>
IsRigid(M) == IsAffine(M) /\ MatMul(Rot3Of(M), Transp(Rot3Of(M))) = Idn(3) /\ Det(Rot3Of(M)) = F1
MulPoint(M, p) == XYZ(MatVec(M, Point4(p)))
MulDir(M, p) == XYZ(MatVec(M, Dir4(p)))
\* zsign = 1 for left-handed (+z forward), -1 for right-handed.  Needs the ordered field (P <= 0).
IsLookAt(M, eye, target, up, zsign) ==
    LET t == MulPoint(M, target)
        u == MulDir(M, up)
        d2 == Norm2(VSub(target, eye))
    IN /\ IsRigid(M)
       /\ MulPoint(M, eye) = VZero(3)
       /\ t[1] = F0 /\ t[2] = F0 /\ FSq(t[3]) = d2
       /\ (IF zsign = 1 THEN FLt(F0, t[3]) ELSE FLt(t[3], F0))
       /\ u[1] = F0 /\ FLt(F0, u[2])
\* rigid inverse [R|t]^-1 = [R^T | -R^T t]                                  | inverted_affine_transform_no_scale
RigidInv(A) == LET R == [i \in 1 .. 3 |-> [j \in 1 .. 3 |-> A[j][i]]]
                   t == <<A[1][4], A[2][4], A[3][4]>>
                   rt == MatVec(R, t)
               IN [i \in 1 .. 4 |-> [j \in 1 .. 4 |->
                     IF i <= 3 /\ j <= 3 THEN R[i][j]
                     ELSE IF i <= 3 THEN FNeg(rt[i])
                     ELSE IF j = 4 THEN F1 ELSE F0]]

LocalToBasis(o, i, j, k) == << <<i[1], j[1], k[1], o[1]>>, <<i[2], j[2], k[2], o[2]>>, <<i[3], j[3], k[3], o[3]>>,
                               <<F0, F0, F0, F1>> >>
BasisToLocal(o, i, j, k) == << <<i[1], i[2], i[3], FNeg(Dot(i, o))>>, <<j[1], j[2], j[3], FNeg(Dot(j, o))>>,
                               <<k[1], k[2], k[3], FNeg(Dot(k, o))>>, <<F0, F0, F0, F1>> >>
=============================================================================
