\* every (A,B,C,v,s) over Z_2: 16^3*4*2 = 32768 states
CONSTANTS P = 2
  N = 2
  MODE = "all"
  K = 0
INIT Init
NEXT Next
INVARIANT Laws
CHECK_DEADLOCK FALSE
