---------------------------- MODULE Trace_Bezier ----------------------------
(***************************************************************************)
(* Trace validation (binding B2, code -> spec) for Bezier curves.          *)
(* C14 (P = 46337, residues): evaluate, evaluate_derivative, split, matrix,*)
(* normalized_tangent (derivative of witnessed rational length),           *)
(* conversions, matrix action; the unit circle on floats (integers scaled  *)
(* by 2^14, checked with the tolerance of the statement).                  *)
(* C15 (P = -1, exact pairs): extrema, inflections, bounding boxes and the *)
(* closest-point search on curves whose derivative roots are rational and  *)
(* are passed as WITNESSES that this module verifies before using them;    *)
(* discretised length on floats (integers scaled by 2^12).                 *)
(***************************************************************************)
EXTENDS VekBezier, TLC, Json, IOUtils
Rec == DecodeTrace(ndJsonDeserialize(IOEnv.TRACE))
VARIABLE l

DegOf(ty) == IF ty \in {"QuadraticBezier2", "QuadraticBezier3"} THEN 2 ELSE 3
ConvExpected(e) ==
    CASE e.how = "into_cubic" -> Elevate(e.pts)
      [] e.how = "reversed" -> Reversed(e.pts)
      [] e.how = "into_3d" -> MapPts(e.pts, LAMBDA p : p \o <<F0>>)
      [] e.how = "into_2d" -> MapPts(e.pts, LAMBDA p : <<p[1], p[2]>>)
      [] e.how = "flip_x" -> Flip(e.pts, 1)
      [] e.how = "flip_y" -> Flip(e.pts, 2)
      [] e.how = "flip_z" -> Flip(e.pts, 3)
      [] e.how = "identity" -> e.pts
      [] e.how = "from_segment" -> FromSegment(DegOf(e.ty), e.pts[1], e.pts[2])
Expected(e) ==
    CASE e.op = "bez_eval" -> Eval(e.pts, e.t)
      [] e.op = "bez_deriv" -> Deriv(e.pts, e.t)
      [] e.op = "bez_split" -> <<SplitFirst(e.pts, e.t), SplitSecond(e.pts, e.t)>>
      [] e.op = "bez_conv" -> ConvExpected(e)
      [] e.op = "bez_matrix" -> BezMatrix(e.deg)
      [] e.op = "bez_mul" -> BezMul(e.a, e.pts)
\* unit circle: coordinates scaled by S = 2^14; radius within 0.03 % means |x^2+y^2 - S^2| <= 0.0006 S^2 (+ quantisation)
S14 == 16384
CircleOk(e) == /\ \A i \in 1 .. Len(e.obs) :
                     LET x == e.obs[i][1]  y == e.obs[i][2]
                     IN /\ Abs(x * x + y * y - S14 * S14) <= 161061 + 2 * S14
                        /\ x * e.quadrant[1] >= -1 /\ y * e.quadrant[2] >= -1          \* stays in its quadrant
               /\ e.obs[1] = e.ctrl[1] /\ e.obs[Len(e.obs)] = e.ctrl[4]                 \* starts and ends at its end points
               /\ <<Abs(e.ctrl[1][1]) + Abs(e.ctrl[1][2]), Abs(e.ctrl[4][1]) + Abs(e.ctrl[4][2])>> = <<S14, S14>>
---------------------------------------------------------------------------
(* C15.  One coordinate of a curve is a polynomial f of degree <= 3 on     *)
(* [0,1]; its derivative is A t^2 + B t + C.  The record names the real    *)
(* roots of the derivative (`crit`); RootsOk verifies that they are        *)
(* exactly the real roots, so the exact minimum / maximum of f over [0,1]  *)
(* is attained among {0, 1} and the roots inside the interval.             *)
F1D(C, axis, t) == Eval(Coord(C, axis), t)[1]
DCoef(C, axis) ==      \* <<A, B, C>> of the derivative of coordinate `axis`
    LET c == PowerCoefs(Coord(C, axis))
    IN IF Len(C) = 4 THEN <<FMul(FI(3), c[4][1]), FMul(F2, c[3][1]), c[2][1]>> ELSE <<F0, FMul(F2, c[3][1]), c[2][1]>>
RootsOk(abc, roots) ==
    LET A == abc[1]  B == abc[2]  Cc == abc[3]
    IN IF A # F0
       THEN IF Len(roots) = 2 THEN B = FNeg(FMul(A, FAdd(roots[1], roots[2]))) /\ Cc = FMul(A, FMul(roots[1], roots[2]))
            ELSE Len(roots) = 0 /\ FLt(FSub(FSq(B), FMul(FI(4), FMul(A, Cc))), F0)
       ELSE IF B # F0 THEN roots = <<FNeg(FDiv(Cc, B))>> ELSE roots = <<>>
In01(t) == FLe(F0, t) /\ FLe(t, F1)
Candidates(roots) == {F0, F1} \cup {roots[i] : i \in {j \in 1 .. Len(roots) : In01(roots[j])}}
IsMinOver(C, axis, roots, t) == In01(t) /\ \A c \in Candidates(roots) : FLe(F1D(C, axis, t), F1D(C, axis, c))
IsMaxOver(C, axis, roots, t) == In01(t) /\ \A c \in Candidates(roots) : FLe(F1D(C, axis, c), F1D(C, axis, t))
ExtremaOk(e) ==
    /\ RootsOk(DCoef(e.pts, e.axis), e.crit)
    /\ IsMinOver(e.pts, e.axis, e.crit, e.obs.min) /\ IsMaxOver(e.pts, e.axis, e.crit, e.obs.max)
    /\ e.obs.bounds = <<e.obs.min, e.obs.max>>
    \* reported inflection parameters: zeros of the derivative inside the unit interval
    /\ \A i \in 1 .. Len(e.obs.infl) : In01(e.obs.infl[i]) /\ Deriv(Coord(e.pts, e.axis), e.obs.infl[i])[1] = F0
MinVal(C, axis, roots) == LET S == Candidates(roots) IN F1D(C, axis, CHOOSE c \in S : \A d \in S : FLe(F1D(C, axis, c), F1D(C, axis, d)))
MaxVal(C, axis, roots) == LET S == Candidates(roots) IN F1D(C, axis, CHOOSE c \in S : \A d \in S : FLe(F1D(C, axis, d), F1D(C, axis, c)))
\* the bounding box is given in curve coordinates, contains the curve and touches it on every side:
\* per axis it is exactly [min f, max f]
BoundsOk(e) == /\ \A a \in 1 .. Len(e.crits) : RootsOk(DCoef(e.pts, a), e.crits[a])
               /\ e.obs.min = [a \in 1 .. Len(e.crits) |-> MinVal(e.pts, a, e.crits[a])]
               /\ e.obs.max = [a \in 1 .. Len(e.crits) |-> MaxVal(e.pts, a, e.crits[a])]
Dist2(p, q) == Norm2(VSub(p, q))
\* closest-point search: a parameter and THE curve point at that parameter, no farther from the query
\* than any coarse sample and the end point
\* (integers: parameters are j/8, points are scaled by 8^deg; EvalHom is the homogeneous Bernstein form)
SearchOk(e) == LET D == FI(8)
                   sc == FPow(D, Deg(e.pts))
                   q == VScale(e.p, sc)
                   coarse == IF e.steps > 0 THEN [i \in 1 .. e.steps |-> EvalHom(e.pts, FI((8 \div e.steps) * (i - 1)), D)]
                             ELSE [i \in 1 .. Len(e.coarse) |-> e.coarse[i][2]]
               IN /\ e.obs[2] = EvalHom(e.pts, e.obs[1], D)                                   \* THE curve point at the returned parameter
                  /\ (e.steps = 0 => \A i \in 1 .. Len(e.coarse) : e.coarse[i][2] = EvalHom(e.pts, e.coarse[i][1], D))
                  /\ FLe(Dist2(e.obs[2], q), Dist2(VScale(e.pts[Len(e.pts)], sc), q))          \* no farther than the end point
                  /\ \A i \in 1 .. Len(coarse) : FLe(Dist2(e.obs[2], q), Dist2(coarse[i], q))   \* nor than any coarse sample
\* discretised length on floats: lengths scaled by 256, integer control points; every length the
\* harness reports (chord, control polygon legs) is a witness checked against the exact squared length
WitLen(w, p, q) == LET d2 == 65536 * Norm2(VSub(p, q)) IN Abs(w * w - d2) <= 2 * w + 1
LengthOk(e) == /\ WitLen(e.chord, e.pts[1], e.pts[Len(e.pts)])
               /\ \A i \in 1 .. (Len(e.pts) - 1) : WitLen(e.legs[i], e.pts[i], e.pts[i + 1])
               /\ e.chord <= e.obs[1] + 4                                   \* at least the chord
               /\ \A i \in 1 .. Len(e.obs) : e.obs[i] <= FSum(e.legs) + 4     \* at most the control polygon
               /\ \A i \in 1 .. (Len(e.obs) - 1) : e.obs[i] <= e.obs[i + 1] + 4   \* refinement by doubling does not decrease
\* normalized tangent: a unit vector which, scaled by the witnessed length of the derivative (a positive rational by
\* construction of the record), gives the derivative back: same direction AND same orientation
TangentOk(e) == Dot(e.obs, e.obs) = F1 /\ VScale(e.obs, e.len) = Deriv(e.pts, e.t) /\ e.len # F0
\* a quadratic coordinate with control values k0, k1, k2 (tenths) has its only critical point at t* = (k0-k1)/den,
\* den = k0 - 2 k1 + k2, with value k0 - (k0-k1)^2/den: a minimum if den > 0, a maximum if den < 0.  The bounding
\* box of the curve - and of ANY degree-elevated copy of it - is therefore known in closed form; float boxes are
\* logged as round(coordinate * 10 * 1024) and compared after multiplying through by den (slack 8/1024 tenths)
QuadInterior(k0, k1, k2) == LET den == k0 - 2 * k1 + k2   nt == k0 - k1
                            IN (den > 0 /\ 0 < nt /\ nt < den) \/ (den < 0 /\ den < nt /\ nt < 0)
QuadSideOk(obs, k0, k1, k2, isMin) ==
    LET den == k0 - 2 * k1 + k2   nt == k0 - k1
    IN IF QuadInterior(k0, k1, k2) /\ ((isMin /\ den > 0) \/ (~isMin /\ den < 0))
       THEN Abs(obs * den - (k0 * den - nt * nt) * 1024) <= 8 * Abs(den)
       ELSE Abs(obs - 1024 * (IF isMin THEN Min2(k0, k2) ELSE Max2(k0, k2))) <= 8
ElevOk(e) == \A a \in 1 .. Len(e.obs.min) : /\ QuadSideOk(e.obs.min[a], e.k[1][a], e.k[2][a], e.k[3][a], TRUE)
                                           /\ QuadSideOk(e.obs.max[a], e.k[1][a], e.k[2][a], e.k[3][a], FALSE)
AxiomOps == {"bez_tangent", "bez_circle", "bez_extrema", "bez_bounds", "bez_search", "bez_length", "bez_elev_f", "bez_piece_box_f"}
Conforms(e) == e.pan = 0 /\ CASE e.op = "bez_circle" -> CircleOk(e)
                              [] e.op = "bez_tangent" -> TangentOk(e)
                              [] e.op = "bez_extrema" -> ExtremaOk(e)
                              [] e.op = "bez_bounds" -> BoundsOk(e)
                              [] e.op = "bez_search" -> SearchOk(e)
                              [] e.op = "bez_length" -> LengthOk(e)
                              [] e.op = "bez_elev_f" -> ElevOk(e)
                              \* floats (plain integer: largest excess of a sampled point over the box, * 2^30): a piece split off at one of the
                              \* curve's own extrema lies inside its bounding box (the derivative vanishes up to rounding at the cut)
                              [] e.op = "bez_piece_box_f" -> e.obs \in 0 .. 16
                              [] OTHER -> e.obs = Expected(e)

Init == l = 1
Step(name) ==
    /\ l <= Len(Rec) /\ Rec[l].op = name
    /\ IF Conforms(Rec[l]) THEN TRUE
       ELSE PrintT(ToJson([tag |-> "MISMATCH", l |-> l, exp |-> IF name \in AxiomOps THEN 0 ELSE Expected(Rec[l])]))
    /\ l' = l + 1
BezEval == Step("bez_eval")
BezDeriv == Step("bez_deriv")
BezSplit == Step("bez_split")
BezConv == Step("bez_conv")
BezMatrixA == Step("bez_matrix")
BezMulA == Step("bez_mul")
BezCircle == Step("bez_circle")
BezExtrema == Step("bez_extrema")
BezBounds == Step("bez_bounds")
BezSearch == Step("bez_search")
BezLength == Step("bez_length")
BezElevF == Step("bez_elev_f")
BezPieceBoxF == Step("bez_piece_box_f")
BezTangent == Step("bez_tangent")
Next == BezEval \/ BezDeriv \/ BezSplit \/ BezConv \/ BezMatrixA \/ BezMulA \/ BezCircle
        \/ BezExtrema \/ BezBounds \/ BezSearch \/ BezLength \/ BezTangent \/ BezElevF \/ BezPieceBoxF
Accepted == IF TLCGet("stats").diameter - 1 = Len(Rec) THEN TRUE
            ELSE PrintT(ToJson([tag |-> "REJECTED_AT", l |-> TLCGet("stats").diameter])) /\ FALSE
=============================================================================
