------------------------------- MODULE MC_Vec -------------------------------
(***************************************************************************)
(* Exhaustive model of the integer-lane vector operators of VekVec (C02):  *)
(* every pair of vectors of dimension N over 0..M.  Checks that the        *)
(* operators used as oracle have the textbook meaning: min/max select one  *)
(* of the operands and bound both, comparison masks are complementary,     *)
(* reductions are bounds that are attained / bitwise bounds, boolean       *)
(* reductions obey De Morgan, horizontal add pairs adjacent elements of    *)
(* the concatenation, FromItems keeps order, drops extras, pads defaults.  *)
(* Constants: N = 3, M = 3: 4^6 = 4096 states.                             *)
(***************************************************************************)
EXTENDS VekVec, TLC
CONSTANTS N, M
VARIABLES a, b
Init == a \in [1 .. N -> 0 .. M] /\ b \in [1 .. N -> 0 .. M]
Next == UNCHANGED <<a, b>>
I == 1 .. N
MinMaxLaw == \A i \in I : /\ MinMax("min", a, b)[i] \in {a[i], b[i]} /\ MinMax("max", a, b)[i] \in {a[i], b[i]}
                          /\ MinMax("min", a, b)[i] <= a[i] /\ MinMax("min", a, b)[i] <= b[i]
                          /\ MinMax("min", a, b)[i] + MinMax("max", a, b)[i] = a[i] + b[i]
CmpLaw == \A i \in I : /\ CmpMask("ge", a, b)[i] = 1 - CmpMask("lt", a, b)[i] /\ CmpMask("le", a, b)[i] = 1 - CmpMask("gt", a, b)[i]
                       /\ CmpMask("eq", a, b)[i] = 1 - CmpMask("ne", a, b)[i]
                       /\ CmpMask("eq", a, b)[i] = CmpMask("ge", a, b)[i] * CmpMask("le", a, b)[i]
                       /\ CmpMask("gt", a, b)[i] = CmpMask("lt", b, a)[i]
ReduceLaw == /\ ReduceI("min", a) \in {a[i] : i \in I} /\ \A i \in I : ReduceI("min", a) <= a[i]
             /\ ReduceI("max", a) \in {a[i] : i \in I} /\ \A i \in I : ReduceI("max", a) >= a[i]
             /\ \A i \in I : (ReduceI("bitand", a) & a[i]) = ReduceI("bitand", a) /\ (ReduceI("bitor", a) | a[i]) = ReduceI("bitor", a)
             /\ ReduceI("bitxor", a \o a) = 0
             /\ ReduceI("and", a) = 1 - ReduceI("or", [i \in I |-> IF a[i] = 0 THEN 1 ELSE 0])
             /\ (ReduceI("and", a) = 1 <=> \A i \in I : a[i] # 0)
TermLaw == LET ta == [i \in I |-> TVar(a[i])]  tb == [i \in I |-> TVar(10 + b[i])]
           IN /\ \A i \in I : Lift2(12, ta, tb)[i] = <<12, 0, a[i], 0, 10 + b[i]>>
              /\ \A i \in I : HAdd(ta, tb)[i] = TOp2(CADD, (ta \o tb)[2 * i - 1], (ta \o tb)[2 * i])
              /\ FromItems(N, ta \o tb) = ta /\ FromItems(N, SubSeq(ta, 1, N - 1))[N] = TDefault
              /\ Concat(ta, 1) = [k \in 1 .. 2 * N |-> IF k % 2 = 1 THEN 0 ELSE a[k \div 2]]
=============================================================================
