//! Fixed probe program of the feature matrix (C20): uses only the API that exists in every
//! configuration and prints a digest; enabling a feature must only add items, so this program must
//! build and print the same digest under every feature set.
use vek::*;
fn main() {
    let v = Vec3::new(1.0f64, 2.0, 3.0);
    let m = Mat4::<f64>::translation_3d(v).rotated_z(0.5).scaled_3d(Vec3::new(2.0, 3.0, 4.0));
    let q = Quaternion::<f64>::rotation_3d(0.7, Vec3::new(1.0, 1.0, 0.0));
    let p = m.mul_point(q * v);
    let w = vek::ops::Wrap::wrapped(Vec4::new(1i32, -2, 3, -4), 3);
    let b = Aabr { min: Vec2::new(0, 0), max: Vec2::new(4, 4) }.union(Aabr { min: Vec2::new(2, -1), max: Vec2::new(3, 9) });
    let c = CubicBezier2 { start: Vec2::new(0.0f32, 0.0), ctrl0: Vec2::new(1.0, 2.0), ctrl1: Vec2::new(3.0, -1.0), end: Vec2::new(4.0, 0.0) }.evaluate(0.25);
    let l = <i32 as vek::ops::Lerp<f32>>::lerp(3, 11, 0.5);
    println!("{:.9} {:.9} {:.9} {:?} {:?} {:.9} {:.6} {:.6} {} {}", p.x, p.y, p.z, w.into_array(), (b.min.into_array(), b.max.into_array()), m.determinant(), c.x, c.y, l,
             Extent2::new(3u8, 4).product());
}
