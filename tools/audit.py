#!/usr/bin/env python3
"""tools/audit.py [--slots N] [--slot-base K] [--tier quick] [--staging] [ids...]: runs every seeded change (seeded/<id>/patch.diff) against the
check of its property in scratch worktrees (tools/try_mutant_wt.sh; /repo is never touched) and writes
audit/results.json: which check catches which change, with the first violation key."""
import json, os, re, subprocess, sys, glob
from concurrent.futures import ThreadPoolExecutor
ROOT = os.path.dirname(os.path.dirname(os.path.abspath(__file__)))
args = sys.argv[1:]
slots, tier = 2, "quick"
if "--slots" in args:
    i = args.index("--slots"); slots = int(args[i + 1]); del args[i:i + 2]
if "--tier" in args:
    i = args.index("--tier"); tier = args[i + 1]; del args[i:i + 2]
slot0 = 0
if "--slot-base" in args:
    i = args.index("--slot-base"); slot0 = int(args[i + 1]); del args[i:i + 2]
base = "seeded_staging" if "--staging" in args else "seeded"
args = [a for a in args if a != "--staging"]
ids = args or sorted(os.path.basename(d) for d in glob.glob(os.path.join(ROOT, base, "*")))
jobs = [[] for _ in range(slots)]
for k, mid in enumerate(ids):
    jobs[k % slots].append(mid)
def run(slot):
    out = []
    for mid in jobs[slot]:
        prop = mid.split("-")[0]
        p = subprocess.run([os.path.join(ROOT, "tools", "try_mutant_wt.sh"), os.path.join(ROOT, base, mid, "patch.diff"), prop, tier, str(slot0 + slot)],
                           stdout=subprocess.PIPE, stderr=subprocess.STDOUT, text=True)
        line = p.stdout.strip().splitlines()[-1] if p.stdout.strip() else ""
        key = (re.search(r"key=(\S+)", line) or [None, None])[1]
        out.append({"id": mid, "property": prop, "tier": tier, "exit": p.returncode, "caught": p.returncode == 1, "first_key": key})
        print(line[:200], flush=True)
    return out
with ThreadPoolExecutor(max_workers=slots) as ex:
    res = [x for part in ex.map(run, range(slots)) for x in part]
os.makedirs(os.path.join(ROOT, "audit"), exist_ok=True)
path = os.path.join(ROOT, "audit", "results.json")
old = {r["id"]: r for r in json.load(open(path))} if os.path.exists(path) else {}
for r in res:
    old[r["id"]] = r
json.dump(sorted(old.values(), key=lambda r: r["id"]), open(path, "w"), indent=1)
print("caught %d / %d" % (sum(r["caught"] for r in res), len(res)))
