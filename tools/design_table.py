#!/usr/bin/env python3
"""Prints the markdown table of DESIGN.md 12.5 from audit/results.json and seeded/*/meta.json."""
import glob, json, os, re
ROOT = os.path.dirname(os.path.dirname(os.path.abspath(__file__)))
res = {r["id"]: r for r in json.load(open(os.path.join(ROOT, "audit", "results.json")))}
print("| change | what it does (needs, to manifest) | caught by | first violation key |")
print("|---|---|---|---|")
for d in sorted(glob.glob(os.path.join(ROOT, "seeded", "C*"))):
    m = json.load(open(os.path.join(d, "meta.json")))
    r = res.get(m["id"], {})
    title = re.sub(r"^C\d+\s*/\s*m\d+\s*[-—:]*\s*", "", m["title"]).strip()
    title = re.sub(r"^(Mutant|mutant)\s*\w*\s*[-—:]*\s*", "", title)
    print("| %s | %s | %s | `%s` |" % (m["id"], title[:110].replace("|", "/"), ("./check %s" % m["property"]) if r.get("caught") else "**missed**" if r else "?",
                                     r.get("first_key")))
