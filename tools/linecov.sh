#!/bin/bash
# usage: tools/linecov.sh           (about 15 minutes; everything under /tmp/wt/cov_*, removed at the end)
# Which functions of /repo/src do the conformance drivers actually execute?  A scratch copy of the harness is built
# with the nightly toolchain and -C instrument-coverage, every quick check is run against it (work / out / evidence
# redirected, the committed evidence is not touched), the profiles are merged and every `fn` of /repo/src is classified:
# executed / instantiated but never run / never instantiated (generic code no driver ever monomorphised).
# Result -> spec/COVERAGE_LINES.md.  (Build scripts of instrumented dependencies drop default_*.profraw files into
# their package directory, /repo included: they are deleted again.)
set -u
B=$(dirname $(rustc +nightly --print target-libdir))/bin
H=/tmp/wt/cov_h; W=/tmp/wt/cov_w; P=/tmp/wt/cov_prof
rm -rf $H $W $P; mkdir -p $H $W/work $W/out $W/evidence $P
rsync -a --exclude target /verif/harness/ $H/
printf 'rustflags = ["-C", "instrument-coverage"]\n' >> $H/.cargo/config.toml
printf '[toolchain]\nchannel = "nightly"\n' > $H/rust-toolchain.toml
(cd $H && cargo build --release --offline 2>&1 | tail -1) || exit 2
rm -f /repo/default_*.profraw
cd /verif
for k in $(seq -w 1 20); do
  LLVM_PROFILE_FILE=$P/C$k-%p-%m.profraw VERIF_HARNESS=$H VERIF_WORK=$W/work VERIF_OUT=$W/out VERIF_EVID=$W/evidence ./check C$k --tier quick 2>&1 | tail -1
done
rm -f /repo/default_*.profraw
$B/llvm-profdata merge -sparse $P/*.profraw -o /tmp/wt/cov.profdata || exit 2
$B/llvm-cov export $H/target/release/vh -instr-profile=/tmp/wt/cov.profdata -format=lcov /repo/src > /tmp/wt/cov.lcov 2>/dev/null
$B/llvm-cov report $H/target/release/vh -instr-profile=/tmp/wt/cov.profdata /repo/src > /tmp/wt/cov.report 2>/dev/null
python3 - <<'PY'
import re, collections, subprocess
da = collections.defaultdict(dict); cur = None
for l in open('/tmp/wt/cov.lcov'):
    l = l.strip()
    if l.startswith('SF:'): cur = l[3:]
    elif l.startswith('DA:'):
        a, b = l[3:].split(',')[:2]; da[cur][int(a)] = max(da[cur].get(int(a), 0), int(b))
rows = []; tot = 0
for f in sorted(da):
    src = open(f).read().splitlines(); intest = False; incomment = False
    for i, line in enumerate(src, 1):
        if '/*' in line and '*/' not in line: incomment = True
        if '*/' in line: incomment = False; continue
        if re.match(r'\s*mod tests?\b', line) or '#[cfg(test)]' in line: intest = True
        m = re.search(r'\bfn\s+(\$?\w+)', line)
        if not m or line.strip().startswith('//') or intest or incomment or line.rstrip().endswith(';'): continue
        hit = [da[f].get(j) for j in range(i, i + 15) if j in da[f]]
        tot += 1
        if not hit: rows.append((f.split('/')[-1], i, line.strip()[:100], 'never instantiated'))
        elif max(hit) == 0: rows.append((f.split('/')[-1], i, line.strip()[:100], 'instantiated, never run'))
head = subprocess.run(['git', '-C', '/repo', 'rev-parse', '--short', 'HEAD'], capture_output=True, text=True).stdout.strip()
with open('/verif/spec/COVERAGE_LINES.md', 'w') as o:
    o.write("# Which code of vek the conformance drivers execute (tools/linecov.sh)\n\n")
    o.write("Measured with `-C instrument-coverage` on a scratch copy of the harness (nightly toolchain) running every\n"
            "quick check against /repo at %s.  llvm-cov only knows functions that were monomorphised, so generic code no\n"
            "driver instantiates is found by comparing against the `fn` lines of the sources.\n\n" % head)
    o.write("```\n" + open('/tmp/wt/cov.report').read() + "```\n\n")
    o.write("`fn` definitions outside tests and comments: %d; not executed by any driver: %d\n\n" % (tot, len(rows)))
    o.write("| file | line | definition | status |\n|---|---|---|---|\n")
    for r in rows: o.write("| %s | %d | `%s` | %s |\n" % (r[0], r[1], r[2].replace('|', '\\|'), r[3]))
print(tot, len(rows))
PY
rm -rf $H $W $P /tmp/wt/cov.profdata /tmp/wt/cov.lcov /tmp/wt/cov.report
