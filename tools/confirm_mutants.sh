#!/bin/bash
# Confirms proposed mutants (seeded_staging/<id>/) in a scratch worktree of /repo:
#  1. patch applies to current /repo HEAD, 2. crate builds with all features, 3. existing suite (674 lib tests) passes,
#  4. demo (demo.rs as an integration test, or demo.sh run from the worktree root) fails with the change, 5. passes without it
#  (behaviour-preserving refactorings carry no demo: 4 and 5 are null).  Result -> seeded_staging/<id>/confirm.json
WT=${CONFIRM_WT:-/tmp/wt/confirm}
FEAT="vec8 vec16 vec32 vec64 rgb rgba uv uvw"
git -C /repo worktree remove --force $WT 2>/dev/null
git -C /repo worktree add -q --detach $WT HEAD || exit 2
cp /repo/Cargo.lock $WT/Cargo.lock 2>/dev/null

ARGS=(); for a in "$@"; do ARGS+=("$(realpath "$a")"); done
cd $WT
for d in "${ARGS[@]}"; do
  id=$(basename $d); d=$(realpath $d)
  git checkout -q -- . ; rm -rf tests
  applies=false; builds=false; suite=false; demo_fails=false; demo_passes_clean=false
  if git apply --check $d/patch.diff 2>/dev/null; then applies=true; fi
  if $applies; then
    if [ -f $d/demo.rs ]; then
      mkdir -p tests; cp $d/demo.rs tests/demo.rs
      if cargo test --offline --features "$FEAT" --test demo > $d/demo_clean.log 2>&1; then demo_passes_clean=true; fi
    elif [ -f $d/demo.sh ]; then
      if sh $d/demo.sh > $d/demo_clean.log 2>&1; then demo_passes_clean=true; fi
    else demo_passes_clean=null; fi
    git apply $d/patch.diff
    if cargo build --offline --features "$FEAT" > /dev/null 2>&1; then builds=true; fi
    rm -rf tests
    if cargo test --offline --lib 2>&1 | grep -q "test result: ok. 674 passed"; then suite=true; fi
    if [ -f $d/demo.rs ]; then
      mkdir -p tests; cp $d/demo.rs tests/demo.rs
      if ! cargo test --offline --features "$FEAT" --test demo > $d/demo_mut.log 2>&1; then demo_fails=true; fi
    elif [ -f $d/demo.sh ]; then
      if ! sh $d/demo.sh > $d/demo_mut.log 2>&1; then demo_fails=true; fi
    else demo_fails=null; : > $d/demo_mut.log; fi
    tail -5 $d/demo_mut.log > $d/demo_mut.tail; rm -f $d/demo_mut.log $d/demo_clean.log
  fi
  echo "{\"id\":\"$id\",\"applies\":$applies,\"builds\":$builds,\"suite_passes\":$suite,\"demo_fails_with_change\":$demo_fails,\"demo_passes_without\":$demo_passes_clean,\"repo_head\":\"$(git -C /repo rev-parse --short HEAD)\"}" > $d/confirm.json
  cat $d/confirm.json
done
cd / && git -C /repo worktree remove --force $WT
