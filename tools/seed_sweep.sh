#!/bin/bash
# usage: tools/seed_sweep.sh <seed>...   Runs every quick check under each given VERIF_SEED with work / out / evidence
# redirected to /tmp/wt/seed_<s> (the committed evidence is not touched).  Every run must exit 0 on the unchanged
# tree: an exit 1 is a false alarm, an exit 2 a vacuity guard / tool error that depends on the sample.
# Result lines "seed=<s> <Cxx> rc=<n>" -> work/seed_sweep.log
cd /verif
for s in "$@"; do
  W=/tmp/wt/seed_$s; mkdir -p $W/work $W/out $W/evidence
  for k in $(seq -w 1 20); do
    VERIF_SEED=$s VERIF_WORK=$W/work VERIF_OUT=$W/out VERIF_EVID=$W/evidence ./check C$k --tier quick > $W/C$k.log 2>&1
    rc=$?
    echo "seed=$s C$k rc=$rc" >> work/seed_sweep.log
    [ $rc -ne 0 ] && cp $W/C$k.log work/seed_${s}_C$k.log
  done
  rm -rf $W
done
