#!/bin/bash
# usage: tools/try_mutant_wt.sh <patch.diff> <Cxx> [tier] [slot]
# Audits one seeded change WITHOUT touching /repo: a scratch worktree of /repo HEAD under /tmp/wt gets the
# patch, a scratch copy of the harness (and of the feature probe) is pointed at it, and the check runs with
# its work / out / evidence directories redirected to /tmp/wt as well.  Slots allow several audits in
# parallel; the scratch harness keeps its build output between audits of the same slot.
V=$(dirname $(dirname $(realpath $0)))   # the /verif tree this tool belongs to (a vp-run snapshot works too)
patch="$(realpath "$1")"; prop="$2"; tier="${3:-quick}"; slot="${4:-0}"
id=$(basename $(dirname $patch))
WT=/tmp/wt/try_$slot; H=/tmp/wt/h_$slot; F=/tmp/wt/f_$slot; W=/tmp/wt/w_$slot
git -C /repo worktree remove --force $WT 2>/dev/null
git -C /repo worktree add -q --detach $WT HEAD || exit 2
git -C $WT apply "$patch" || { echo "$id: patch does not apply"; git -C /repo worktree remove --force $WT; exit 3; }
cp -n /repo/Cargo.lock $WT/Cargo.lock 2>/dev/null
mkdir -p $H $F $W/work $W/out $W/evidence
rsync -a --delete --exclude target $V/harness/ $H/ && sed -i "s|path = \"/repo\"|path = \"$WT\"|" $H/Cargo.toml
rsync -a --delete --exclude target $V/featprobe/ $F/ && sed -i "s|path = \"/repo\"|path = \"$WT\"|" $F/Cargo.toml
cd $V && VERIF_REPO=$WT VERIF_HARNESS=$H VERIF_FEATPROBE=$F VERIF_WORK=$W/work VERIF_OUT=$W/out VERIF_EVID=$W/evidence \
  ./check "$prop" --tier "$tier" > "$W/$id.$prop.log" 2>&1
rc=$?
mkdir -p $V/work/audit && cp "$W/$id.$prop.log" $V/work/audit/
echo "$id $prop rc=$rc $(grep -c '^VIOLATION' $W/$id.$prop.log) violation-lines; $(grep -m1 'key=' $W/$id.$prop.log | cut -c1-160)"
git -C /repo worktree remove --force $WT
exit $rc
