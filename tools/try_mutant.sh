#!/bin/sh
# usage: tools/try_mutant.sh <patch.diff> <Cxx> [tier]   -- apply a seeded change to /repo, run a check, undo.
patch="$(realpath "$1")"; prop="$2"; tier="${3:-quick}"
cd /repo || exit 2
git diff --quiet || { echo "/repo has uncommitted changes"; exit 2; }
git apply "$patch" || { echo "patch does not apply"; exit 3; }
cd /verif && ./check "$prop" --tier "$tier" > "work/mutant_$(basename $(dirname $patch))_$prop.log" 2>&1
rc=$?
git -C /repo checkout -- .
echo "$(basename $(dirname $patch)) $prop rc=$rc $(grep -c '^VIOLATION' work/mutant_$(basename $(dirname $patch))_$prop.log) violation-lines; $(grep -m1 'key=' work/mutant_$(basename $(dirname $patch))_$prop.log)"
exit $rc
