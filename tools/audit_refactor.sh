#!/bin/bash
# usage: tools/audit_refactor.sh <name> <slot> <patch.diff>...
# Negative control: applies behaviour-preserving refactorings (all given patches together) to a scratch worktree of
# /repo HEAD and runs EVERY property's quick check against it (scratch harness / work / out / evidence, as in
# try_mutant_wt.sh).  Every check must exit 0: an alarm here is a false alarm of the machinery.
# Result lines "<name> <Cxx> rc=<n>" -> work/audit/refactor_<name>.log and audit/refactor_<name>.json
name="$1"; slot="$2"; shift 2
WT=/tmp/wt/try_$slot; H=/tmp/wt/h_$slot; F=/tmp/wt/f_$slot; W=/tmp/wt/w_$slot
git -C /repo worktree remove --force $WT 2>/dev/null
git -C /repo worktree add -q --detach $WT HEAD || exit 2
for p in "$@"; do git -C $WT apply "$(realpath $p)" || { echo "$name: $p does not apply"; git -C /repo worktree remove --force $WT; exit 3; }; done
cp -n /repo/Cargo.lock $WT/Cargo.lock 2>/dev/null
mkdir -p $H $F $W/work $W/out $W/evidence /verif/work/audit
rsync -a --delete --exclude target /verif/harness/ $H/ && sed -i "s|path = \"/repo\"|path = \"$WT\"|" $H/Cargo.toml
rsync -a --delete --exclude target /verif/featprobe/ $F/ && sed -i "s|path = \"/repo\"|path = \"$WT\"|" $F/Cargo.toml
log=/verif/work/audit/refactor_$name.log; : > $log
bad=0
cd /verif
for k in $(seq -w 1 20); do
  VERIF_REPO=$WT VERIF_HARNESS=$H VERIF_FEATPROBE=$F VERIF_WORK=$W/work VERIF_OUT=$W/out VERIF_EVID=$W/evidence \
    ./check C$k --tier quick > $W/$name.C$k.log 2>&1
  rc=$?
  echo "$name C$k rc=$rc $(grep -m1 'key=' $W/$name.C$k.log | cut -c1-200)" | tee -a $log
  if [ $rc -ne 0 ]; then bad=1; cp $W/$name.C$k.log /verif/work/audit/; fi
done
git -C /repo worktree remove --force $WT
python3 - "$name" "$log" "$@" <<'PY'
import json, sys, re
name, log, patches = sys.argv[1], sys.argv[2], sys.argv[3:]
rows = [re.match(r"(\S+) (C\d+) rc=(\d+)", l) for l in open(log)]
res = {m.group(2): int(m.group(3)) for m in rows if m}
json.dump({"set": name, "patches": patches, "tier": "quick", "exit_by_property": res,
           "false_alarms": [p for p, rc in res.items() if rc == 1], "tool_errors": [p for p, rc in res.items() if rc == 2]},
          open("/verif/audit/refactor_%s.json" % name, "w"), indent=1)
PY
exit $bad
