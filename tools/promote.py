#!/usr/bin/env python3
"""Promotes confirmed seeded changes from seeded_staging/<id>/ to seeded/<id>/ with meta.json.
A change is kept only if tools/confirm_mutants.sh confirmed all five facts on the current /repo HEAD:
the patch applies, the crate builds with all type features, the 674 pinned lib tests pass, the
demonstration fails with the change and passes without it."""
import glob, json, os, re, shutil, sys
ROOT = os.path.dirname(os.path.dirname(os.path.abspath(__file__)))
EXCLUDE = {"C02-m3": "re-associated sum: not a violation of the property in exact arithmetic (DESIGN 12.4)",
           "C02-m9": "re-associated partial min/max reduction: differs only when a NaN sits between the elements (no order there), not a violation of the property as stated (DESIGN 12.5)",
           "C02-m10": "reduce_partial_max as a balanced tree with swapped operands: differs from the left fold only when a NaN (or a tie between -0.0 and +0.0) sits between the elements - no order there, same class as C02-m9; not a violation of the property as stated",
           "C15-m7": "led to genuine defect D10; after the repair (stable quadratic roots, 544bfbf) the change is harmless and its demonstration passes"}
AUDIT = {}
ap = os.path.join(ROOT, "audit", "results.json")
if os.path.exists(ap):
    AUDIT = {r["id"]: r for r in json.load(open(ap))}
for d in sorted(glob.glob(os.path.join(ROOT, "seeded_staging", "*"))):
    mid = os.path.basename(d)
    cf = os.path.join(d, "confirm.json")
    if not os.path.exists(cf):
        continue
    c = json.load(open(cf))
    refactoring = bool(re.match(r"^R\d+-r\d+$", mid))
    facts = ["applies", "builds", "suite_passes"] + ([] if refactoring else ["demo_fails_with_change", "demo_passes_without"])
    if not all(c.get(k) for k in facts) or mid in EXCLUDE:
        continue
    prop = None if refactoring else mid.split("-")[0]
    notes = open(os.path.join(d, "notes.md"), errors="replace").read()
    title = notes.splitlines()[0].lstrip("# ").strip()
    need = ""
    for line in notes.splitlines():
        if re.match(r"^\W*(Condition|Needs|Condition to manifest|Manifests)\b", line.strip(), re.I):
            need = line.strip()
            break
    out = os.path.join(ROOT, "seeded", mid)
    os.makedirs(out, exist_ok=True)
    for f in ("patch.diff", "demo.rs", "demo.sh", "notes.md"):
        if os.path.exists(os.path.join(d, f)):
            shutil.copy(os.path.join(d, f), os.path.join(out, f))
    if refactoring:
        meta = {"id": mid, "kind": "behaviour-preserving refactoring (negative control)", "property": None, "title": title,
                "expected": "no check may report a violation with this change applied",
                "confirmed": {k: c[k] for k in facts}, "confirmed_at_repo_head": c.get("repo_head"),
                "what_was_run": ["tools/confirm_mutants.sh seeded_staging/%s  (scratch worktree of /repo under /tmp, removed afterwards)" % mid,
                                 "tools/audit_refactor.sh %s <slot> seeded_staging/%s-r*/patch.diff  (all patches of the set applied together "
                                 "to a scratch worktree; every property's quick check must exit 0)" % (mid.split("-")[0], mid.split("-")[0])],
                "result": (lambda f: json.load(open(f)) if os.path.exists(f) else {})(os.path.join(ROOT, "audit", "refactor_%s.json" % mid.split("-")[0]))}
    else:
        a = AUDIT.get(mid, {})
        det = {"check": "./check %s --tier %s" % (prop, a.get("tier", "quick")), "exit": a.get("exit"), "caught": a.get("caught"),
               "first_key": a.get("first_key")} if a else {}
        meta = {"id": mid, "property": prop, "title": title, "needs_to_manifest": need or "see notes.md",
                "confirmed": {k: c[k] for k in facts}, "confirmed_at_repo_head": c.get("repo_head"),
                "what_was_run": ["tools/confirm_mutants.sh seeded_staging/%s  (scratch worktree of /repo under /tmp, removed afterwards)" % mid,
                                 "tools/try_mutant_wt.sh seeded/%s/patch.diff %s quick <slot>  (scratch worktree of /repo with the patch, scratch "
                                 "copy of the harness pointed at it; /repo untouched)" % (mid, prop)],
                "detected_by": det}
    json.dump(meta, open(os.path.join(out, "meta.json"), "w"), indent=1)
    print(mid, meta.get("detected_by", meta.get("result")))
