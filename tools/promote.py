#!/usr/bin/env python3
"""Promotes confirmed seeded changes from seeded_staging/<id>/ to seeded/<id>/ with meta.json.
A change is kept only if tools/confirm_mutants.sh confirmed all five facts on the current /repo HEAD:
the patch applies, the crate builds with all type features, the 674 pinned lib tests pass, the
demonstration fails with the change and passes without it."""
import glob, json, os, re, shutil, sys
ROOT = os.path.dirname(os.path.dirname(os.path.abspath(__file__)))
EXCLUDE = {"C02-m3": "re-associated sum: not a violation of the property in exact arithmetic (DESIGN 12.4)"}
for d in sorted(glob.glob(os.path.join(ROOT, "seeded_staging", "*"))):
    mid = os.path.basename(d)
    cf = os.path.join(d, "confirm.json")
    if not os.path.exists(cf):
        continue
    c = json.load(open(cf))
    facts = ["applies", "builds", "suite_passes", "demo_fails_with_change", "demo_passes_without"]
    if not all(c.get(k) for k in facts) or mid in EXCLUDE:
        continue
    prop = mid.split("-")[0]
    notes = open(os.path.join(d, "notes.md"), errors="replace").read()
    title = notes.splitlines()[0].lstrip("# ").strip()
    need = ""
    for line in notes.splitlines():
        if re.match(r"^\W*(Condition|Needs|Condition to manifest|Manifests)\b", line.strip(), re.I):
            need = line.strip()
            break
    log = os.path.join(ROOT, "work", "mutant_%s_%s.log" % (mid, prop))
    det = {}
    if os.path.exists(log):
        txt = open(log, errors="replace").read()
        det = {"check": "./check %s --tier quick" % prop, "violation_lines": txt.count("\nVIOLATION") + txt.startswith("VIOLATION"),
               "first_key": (re.search(r"key=(\S+)", txt) or [None, None])[1]}
    out = os.path.join(ROOT, "seeded", mid)
    os.makedirs(out, exist_ok=True)
    for f in ("patch.diff", "demo.rs", "notes.md"):
        shutil.copy(os.path.join(d, f), os.path.join(out, f))
    json.dump({"id": mid, "property": prop, "title": title, "needs_to_manifest": need or "see notes.md",
               "confirmed": {k: c[k] for k in facts}, "confirmed_at_repo_head": c.get("repo_head"),
               "what_was_run": ["tools/confirm_mutants.sh seeded_staging/%s  (scratch worktree of /repo under /tmp, removed afterwards)" % mid,
                                "tools/try_mutant.sh seeded/%s/patch.diff %s quick  (git apply in /repo, check, git checkout -- .)" % (mid, prop)],
               "detected_by": det}, open(os.path.join(out, "meta.json"), "w"), indent=1)
    print(mid, det.get("first_key"))
