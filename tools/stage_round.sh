#!/bin/bash
# usage: tools/stage_round.sh <round-dir> <Cxx> <first-number>
# Copies a sub-agent's proposals (<round-dir>/<Cxx>/proposals/mA, mB, ...) to seeded_staging/<Cxx>-m<k>, <k+1>, ...
# and removes the agent's scratch worktree with its build output.
R="$1"; P="$2"; k="$3"; V=$(dirname $(dirname $(realpath $0)))
for d in $(ls -d $R/$P/proposals/*/ 2>/dev/null | sort); do
  [ -f $d/patch.diff ] || continue
  out=$V/seeded_staging/$P-m$k; mkdir -p $out
  for f in patch.diff demo.rs demo.sh notes.md; do [ -f $d/$f ] && cp $d/$f $out/; done
  echo "staged $out"; k=$((k+1))
done
git -C /repo worktree remove --force $R/$P && rm -f $R/$P.property.json
