# see the inline generator used to produce src/tuples.rs (dims 2,3,4,8,16,32,64)
