//! C02: vector operators, reductions, maps and constructors of all 13 vector types.
//! `drive vecops`: lane Term (structure, every operator form) + integer lane (order / bit
//! reductions, primitive-scalar-on-the-left forms) in one trace validated with P = 0;
//! `drive vecfold`: sums / products / dot / average on exact rationals (residues);
//! `drive vecreal`: sqrt / recip / ceil / floor / round on exact rationals (pairs).
use crate::alg::*;
use crate::q::Q;
use crate::term::*;
use crate::util::*;
use num_traits::MulAdd;
use rand::Rng;
use serde_json::{json, Value};
use std::iter::FromIterator;
use vek::*;

fn fresh(base: u32, n: usize) -> Vec<Tm> { (0..n).map(|i| Tm::var(base + i as u32)).collect() }

fn termops(d: &mut Drv) {
    macro_rules! one {
        ($V:ident, $n:expr, $name:expr) => {{
            let (a, b, c) = (fresh(100, $n), fresh(200, $n), fresh(300, $n));
            let (s, s2) = (Tm::var(1), Tm::var(2));
            let (va, vb, vc) = ($V::<Tm>::from_slice(&a), $V::<Tm>::from_slice(&b), $V::<Tm>::from_slice(&c));
            let o = |v: $V<Tm>| tms(v.as_slice());
            // ---- binary operators, every operand form
            macro_rules! binop {
                ($code:expr, $op:tt, $opa:tt) => {{
                    let arg = |form: &str, scalar: bool| json!({"ty": $name, "n": $n, "code": $code, "form": form, "a": tms(&a), "b": if scalar { tms(&vec![s; $n]) } else { tms(&b) }});
                    d.call("ew2", || arg("v.v", false), || o(va $op vb));
                    d.call("ew2", || arg("v.&v", false), || o(va $op &vb));
                    d.call("ew2", || arg("&v.v", false), || o(&va $op vb));
                    d.call("ew2", || arg("&v.&v", false), || o(&va $op &vb));
                    d.call("ew2", || arg("v.s", true), || o(va $op s));
                    d.call("ew2", || arg("&v.s", true), || o(&va $op s));
                    d.call("ew2", || arg("&v.&s", true), || o(&va $op &s));
                    d.call("ew2", || arg("v.=v", false), || { let mut x = va; x $opa vb; o(x) });
                    d.call("ew2", || arg("v.=s", true), || { let mut x = va; x $opa s; o(x) });
                }};
            }
            binop!(ADD, +, +=); binop!(SUB, -, -=); binop!(MUL, *, *=); binop!(DIV, /, /=); binop!(REM, %, %=);
            binop!(SHL, <<, <<=); binop!(SHR, >>, >>=); binop!(AND, &, &=); binop!(OR, |, |=); binop!(XOR, ^, ^=);
            // ---- unary
            d.call("ew1", || json!({"ty": $name, "n": $n, "code": NEG, "a": tms(&a)}), || o(-va));
            d.call("ew1", || json!({"ty": $name, "n": $n, "code": NOT, "a": tms(&a)}), || o(!va));
            // ---- fused multiply-add: trait in its eight forms, inherent with vector and scalar operands
            let arg3 = |form: &str, b: &[Tm], c: &[Tm]| json!({"ty": $name, "n": $n, "code": FMA, "form": form, "a": tms(&a), "b": tms(b), "c": tms(c)});
            d.call("ew3", || arg3("v.v.v", &b, &c), || o(MulAdd::mul_add(va, vb, vc)));
            #[allow(deprecated)]
            { d.call("ew3", || arg3("v.v.v", &b, &c), || o(vek::ops::mul_add(va, vb, vc))); }
            d.call("ew3", || arg3("&v.v.v", &b, &c), || o(MulAdd::mul_add(&va, vb, vc)));
            d.call("ew3", || arg3("v.v.&v", &b, &c), || o(MulAdd::mul_add(va, vb, &vc)));
            d.call("ew3", || arg3("&v.v.&v", &b, &c), || o(MulAdd::mul_add(&va, vb, &vc)));
            d.call("ew3", || arg3("v.&v.v", &b, &c), || o(MulAdd::mul_add(va, &vb, vc)));
            d.call("ew3", || arg3("&v.&v.v", &b, &c), || o(MulAdd::mul_add(&va, &vb, vc)));
            d.call("ew3", || arg3("v.&v.&v", &b, &c), || o(MulAdd::mul_add(va, &vb, &vc)));
            d.call("ew3", || arg3("&v.&v.&v", &b, &c), || o(MulAdd::mul_add(&va, &vb, &vc)));
            d.call("ew3", || arg3("inherent v.v", &b, &c), || o($V::mul_add(va, vb, vc)));
            d.call("ew3", || arg3("inherent s.v", &vec![s; $n], &c), || o($V::mul_add(va, s, vc)));
            d.call("ew3", || arg3("inherent v.s", &b, &vec![s2; $n]), || o($V::mul_add(va, vb, s2)));
            // ---- maps (opaque user functions)
            let m = |how: &str| json!({"ty": $name, "n": $n, "how": how, "a": tms(&a), "b": tms(&b), "c": tms(&c)});
            d.call("map", || m("map"), || o(va.map(f1)));
            d.call("map", || m("map2"), || o(va.map2(vb, f2)));
            d.call("map", || m("map3"), || o(va.map3(vb, vc, f3)));
            d.call("map", || m("apply"), || { let mut x = va; x.apply(f1); o(x) });
            d.call("map", || m("apply2"), || { let mut x = va; x.apply2(vb, f2); o(x) });
            d.call("map", || m("apply3"), || { let mut x = va; x.apply3(vb, vc, f3); o(x) });
            d.call("map", || m("zip"), || Value::Array(va.zip(vb).into_iter().map(|(x, y)| json!([x.json(), y.json()])).collect()));
            d.call("map", || m("hadd"), || o(va.hadd(vb)));
            // user fold: a non-commutative, associative function (concatenation) shows order and multiplicity
            d.call("map", || m("reduce"), || { let v: $V<Vec<i64>> = va.map(|t| t.code()); json!(v.reduce(|mut x, y| { x.extend(y); x })) });
            // ... and an opaque closure shows the roles of its arguments: f(f(f(a1, a2), a3), a4), accumulator first
            d.call("map", || m("reduce_f"), || tms(&[va.reduce(f2)]));
            // ---- constructors
            let k = |how: &str, input: &[Tm]| json!({"ty": $name, "n": $n, "how": how, "input": tms(input)});
            d.call("ctor_v", || k("broadcast", &[s]), || o($V::broadcast(s)));
            d.call("ctor_v", || k("from_scalar", &[s]), || o($V::from(s)));
            d.call("ctor_v", || k("zero", &[]), || o($V::<Tm>::zero()));
            d.call("ctor_v", || k("one", &[]), || o($V::<Tm>::one()));
            d.call("ctor_v", || k("iota", &[]), || o($V::<Tm>::iota()));
            d.call("ctor_v", || k("exact", &a), || o($V::<Tm>::from_slice(&a)));
            d.call("ctor_v", || k("exact", &a), || { let arr: [Tm; $n] = std::array::from_fn(|i| a[i]); o($V::from(arr)) });
            d.call("ctor_v", || k("exact", &a), || { let arr: [Tm; $n] = std::array::from_fn(|i| a[i]); o($V::from(arr).into_array().into()) });
            d.call("ctor_v", || k("exact", &a), || o($V::from(va.into_tuple())));
            d.call("ctor_v", || k("exact", &a), || o($V::from_iter(a.iter().cloned())));
            let short = &a[..$n - 1];
            d.call("ctor_v", || k("short", short), || o($V::from_iter(short.iter().cloned())));
            d.call("ctor_v", || k("short", short), || o($V::<Tm>::from_slice(short)));
            let long: Vec<Tm> = a.iter().cloned().chain(b.iter().cloned()).collect();
            d.call("ctor_v", || k("long", &long), || o($V::from_iter(long.iter().cloned())));
            d.call("ctor_v", || k("exact", &a), || o(va.iter().cloned().collect::<$V<Tm>>()));
            // iterators that do not know their length (size_hint lower bound 0), with more and with fewer items
            d.call("ctor_v", || k("exact", &a), || o(a.iter().cloned().filter(|_| true).collect::<$V<Tm>>()));
            d.call("ctor_v", || k("long", &long), || o($V::from_iter(long.iter().cloned().filter(|_| true))));
            d.call("ctor_v", || k("short", short), || { let mut it = short.iter().cloned(); o($V::from_iter(std::iter::from_fn(move || it.next()))) });
            d.call("ctor_v", || k("exact", &a), || o(va.into_iter().collect::<$V<Tm>>()));
            // a multi-step use: vectors collected one after the other from the SAME iterator (by_ref) must take exactly n
            // items each, in order; what is left afterwards is reported as the third component
            let stream: Vec<Tm> = a.iter().cloned().chain(b.iter().cloned()).chain(c.iter().cloned().take(1)).collect();
            d.call("ctor_chunks", || json!({"ty": $name, "n": $n, "input": tms(&stream)}), || {
                let mut it = stream.iter().cloned();
                let v1: $V<Tm> = it.by_ref().collect();
                let v2 = $V::from_iter(&mut it);
                let rest: Vec<Tm> = it.collect();
                json!([o(v1), o(v2), tms(&rest)])
            });
        }};
    }
    for_all_vecs!(one);
}

/// integer lane: order-dependent and bit reductions on pairwise distinct small integers
fn intops(d: &mut Drv) {
    macro_rules! one {
        ($V:ident, $n:expr, $name:expr) => {{
            // values distinct within and across the two operands except for planted coincidences
            let mut pool: Vec<i64> = (-70..70).collect();
            for i in (1..pool.len()).rev() { let j = d.rng.gen_range(0..=i); pool.swap(i, j); }
            let a: Vec<i64> = pool[..$n].to_vec();
            let mut b: Vec<i64> = pool[$n..2 * $n].to_vec();
            let eq_at = d.pick($n);
            b[eq_at] = a[eq_at];
            let (va, vb) = ($V::<i64>::from_slice(&a), $V::<i64>::from_slice(&b));
            let bools = |v: $V<bool>| json!(v.into_iter().map(|x| x as i64).collect::<Vec<_>>());
            let ints = |v: $V<i64>| json!(v.into_iter().collect::<Vec<_>>());
            let ab = |which: &str| json!({"ty": $name, "n": $n, "which": which, "a": a, "b": b});
            d.call("cmp", || ab("eq"), || bools(va.cmpeq(&vb)));       d.call("cmp", || ab("ne"), || bools(va.cmpne(&vb)));
            d.call("cmp", || ab("ge"), || bools(va.cmpge(&vb)));       d.call("cmp", || ab("gt"), || bools(va.cmpgt(&vb)));
            d.call("cmp", || ab("le"), || bools(va.cmple(&vb)));       d.call("cmp", || ab("lt"), || bools(va.cmplt(&vb)));
            d.call("cmp", || ab("eq"), || bools(va.partial_cmpeq(&vb))); d.call("cmp", || ab("ne"), || bools(va.partial_cmpne(&vb)));
            d.call("cmp", || ab("ge"), || bools(va.partial_cmpge(&vb))); d.call("cmp", || ab("gt"), || bools(va.partial_cmpgt(&vb)));
            d.call("cmp", || ab("le"), || bools(va.partial_cmple(&vb))); d.call("cmp", || ab("lt"), || bools(va.partial_cmplt(&vb)));
            d.call("cmp", || ab("ge"), || bools(va.cmpge_simd(vb)));   d.call("cmp", || ab("lt"), || bools(va.cmplt_simd(vb)));
            d.call("cmp", || ab("eq"), || bools(va.cmpeq_simd(vb)));   d.call("cmp", || ab("gt"), || bools(va.partial_cmpgt_simd(vb)));
            d.call("cmp", || ab("gt"), || bools(va.cmpgt_simd(vb)));   d.call("cmp", || ab("le"), || bools(va.cmple_simd(vb)));
            d.call("cmp", || ab("ne"), || bools(va.cmpne_simd(vb)));   d.call("cmp", || ab("ge"), || bools(va.partial_cmpge_simd(vb)));
            d.call("cmp", || ab("lt"), || bools(va.partial_cmplt_simd(vb))); d.call("cmp", || ab("le"), || bools(va.partial_cmple_simd(vb)));
            d.call("cmp", || ab("eq"), || bools(va.partial_cmpeq_simd(vb))); d.call("cmp", || ab("ne"), || bools(va.partial_cmpne_simd(vb)));
            d.call("minmax", || ab("min"), || ints($V::min(va, vb)));  d.call("minmax", || ab("max"), || ints($V::max(va, vb)));
            d.call("minmax", || ab("min"), || ints($V::partial_min(va, vb))); d.call("minmax", || ab("max"), || ints($V::partial_max(va, vb)));
            let sc = b[0];
            d.call("minmax", || json!({"ty": $name, "n": $n, "which": "min", "a": a, "b": vec![sc; $n]}), || ints($V::min(va, sc)));
            d.call("minmax", || json!({"ty": $name, "n": $n, "which": "max", "a": vec![sc; $n], "b": a}), || ints($V::partial_max(sc, va)));
            let r = |which: &str, v: &[i64]| json!({"ty": $name, "n": $n, "which": which, "a": v});
            d.call("reduce_i", || r("min", &a), || json!(va.reduce_min()));   d.call("reduce_i", || r("max", &a), || json!(va.reduce_max()));
            d.call("reduce_i", || r("min", &a), || json!(va.reduce_partial_min())); d.call("reduce_i", || r("max", &a), || json!(va.reduce_partial_max()));
            // bit reductions on non-negative values; boolean reductions with a planted zero / all non-zero
            let u: Vec<i64> = (0..$n).map(|_| d.rng.gen_range(0..256)).collect();
            let vu = $V::<i64>::from_slice(&u);
            d.call("reduce_i", || r("bitand", &u), || json!(vu.reduce_bitand())); d.call("reduce_i", || r("bitor", &u), || json!(vu.reduce_bitor()));
            d.call("reduce_i", || r("bitxor", &u), || json!(vu.reduce_bitxor()));
            let mut z: Vec<i64> = (0..$n).map(|_| d.rng.gen_range(1..9)).collect();
            let kind = d.pick(3);
            if kind == 0 { let i = d.pick($n); z[i] = 0; } else if kind == 1 { z = vec![0; $n]; let i = d.pick($n); z[i] = 5; }
            let z32: Vec<i32> = z.iter().map(|x| *x as i32).collect();
            let zb: Vec<bool> = z.iter().map(|x| *x != 0).collect();
            let zf: Vec<f32> = z.iter().map(|x| *x as f32).collect();
            d.call("reduce_i", || r("and", &z), || json!($V::<i32>::from_slice(&z32).reduce_and() as i64));
            d.call("reduce_i", || r("or", &z), || json!($V::<i32>::from_slice(&z32).reduce_or() as i64));
            d.call("reduce_i", || r("and", &z), || json!($V::<bool>::from_slice(&zb).reduce_and() as i64));
            d.call("reduce_i", || r("or", &z), || json!($V::<bool>::from_slice(&zb).reduce_or() as i64));
            // the deprecated chained inequality of booleans: the left fold of !=, i.e. the parity of the true elements
            #[allow(deprecated)]
            { d.call("reduce_i", || r("ne", &z), || json!($V::<bool>::from_slice(&zb).reduce_ne() as i64)); }
            d.call("reduce_i", || r("and", &z), || json!($V::<f32>::from_slice(&zf).reduce_and() as i64));
            d.call("reduce_i", || r("or", &z), || json!($V::<f32>::from_slice(&zf).reduce_or() as i64));
            d.call("reduce_i", || r("any_negative", &a), || json!(va.is_any_negative() as i64));
            d.call("reduce_i", || r("all_positive", &a), || json!(va.are_all_positive() as i64));
            d.call("reduce_i", || r("all_positive", &z), || json!($V::<i64>::from_slice(&z).are_all_positive() as i64));
            // primitive scalar on the left (commutative operators only)
            let s = d.rng.gen_range(-9..=9i64);
            let l = |which: &str| json!({"ty": $name, "n": $n, "which": which, "a": vec![s; $n], "b": a});
            d.call("arith_i", || l("add"), || ints(s + va));
            d.call("arith_i", || l("mul"), || ints(s * va));
            d.call("arith_i", || l("add"), || json!(((s as i32) + $V::<i32>::from_slice(&a.iter().map(|x| *x as i32).collect::<Vec<_>>())).into_iter().map(|x| x as i64).collect::<Vec<_>>()));
            d.call("arith_i", || l("mul"), || json!(((s as f64) * $V::<f64>::from_slice(&a.iter().map(|x| *x as f64).collect::<Vec<_>>())).into_iter().map(|x| x as i64).collect::<Vec<_>>()));
            let (s8, u8s) = ((s.unsigned_abs() % 9) as u8, u.iter().map(|x| (*x % 100) as u8).collect::<Vec<u8>>());
            d.call("arith_i", || json!({"ty": $name, "n": $n, "which": "add", "a": vec![s8; $n], "b": u8s}), || json!((s8 + $V::<u8>::from_slice(&u8s)).into_iter().map(|x| x as i64).collect::<Vec<_>>()));
        }};
    }
    for_all_vecs!(one);
}

pub fn drive_vecops(args: &[String]) {
    let n: usize = arg_or(args, "--n", "3").parse().unwrap();
    let seed: u64 = arg_or(args, "--seed", "1").parse().unwrap();
    let mut d = Drv::new(&arg(args, "--out").expect("--out"), seed);
    termops(&mut d);
    for _ in 0..n { intops(&mut d); }
    d.finish(arg(args, "--summary"));
}

/// sums, products, dot, average, Sum / Product of iterators: exact rationals (association does not matter)
pub fn drive_vecfold(args: &[String]) {
    let n: usize = arg_or(args, "--n", "10").parse().unwrap();
    let seed: u64 = arg_or(args, "--seed", "1").parse().unwrap();
    let mut d = Drv::new(&arg(args, "--out").expect("--out"), seed);
    for _ in 0..n {
        macro_rules! one {
            ($V:ident, $n:expr, $name:expr) => {{
                // small factors so that a 64-fold product stays exact
                let a: Vec<Q> = (0..$n).map(|_| Q::frac([1, 2, 3, -1, -2][d.pick(5)], [1, 2, 3][d.pick(3)])).collect();
                let b: Vec<Q> = d.vecn($n);
                let c: Vec<Q> = d.vecn($n);
                let (va, vb, vc) = ($V::<Q>::from_slice(&a), $V::<Q>::from_slice(&b), $V::<Q>::from_slice(&c));
                let o = |v: $V<Q>| evs(&v.into_iter().collect::<Vec<Q>>());
                d.call("fold", || json!({"ty": $name, "which": "sum", "a": evs(&b)}), || ev(vb.sum()));
                d.call("fold", || json!({"ty": $name, "which": "product", "a": evs(&a)}), || ev(va.product()));
                d.call("fold", || json!({"ty": $name, "which": "average", "a": evs(&b)}), || ev(vb.average()));
                d.call("fold", || json!({"ty": $name, "which": "dot", "a": evs(&b), "b": evs(&c)}), || ev(vb.map2(vc, |x, y| x * y).sum()));
                let lst = json!([evs(&a), evs(&b), evs(&c)]);
                d.call("foldv", || json!({"ty": $name, "which": "sum", "vs": lst.clone()}), || o(vec![va, vb, vc].into_iter().sum::<$V<Q>>()));
                d.call("foldv", || json!({"ty": $name, "which": "product", "vs": lst.clone()}), || o(vec![va, vb, vc].into_iter().product::<$V<Q>>()));
                d.call("foldv", || json!({"ty": $name, "which": "sum", "vs": []}), || o(Vec::<$V<Q>>::new().into_iter().sum::<$V<Q>>()));
                d.call("foldv", || json!({"ty": $name, "which": "product", "vs": []}), || o(Vec::<$V<Q>>::new().into_iter().product::<$V<Q>>()));
            }};
        }
        for_all_vecs!(one);
    }
    d.finish(arg(args, "--summary"));
}

/// sqrt, rsqrt, recip, ceil, floor, round per element: exact rationals as pairs
pub fn drive_vecreal(args: &[String]) {
    let n: usize = arg_or(args, "--n", "10").parse().unwrap();
    let seed: u64 = arg_or(args, "--seed", "1").parse().unwrap();
    let mut d = Drv::new(&arg(args, "--out").expect("--out"), seed);
    set_pair_mode(true);
    for _ in 0..n {
        macro_rules! one {
            ($V:ident, $n:expr, $name:expr) => {{
                let a: Vec<Q> = (0..$n).map(|_| Q::frac(d.rng.gen_range(-40..=40), [1, 2, 3, 4][d.pick(4)])).collect();
                let sqs: Vec<Q> = (0..$n).map(|_| { let r = Q::frac(d.rng.gen_range(1..=12), [1, 2, 3][d.pick(3)]); r * r }).collect();
                let nz: Vec<Q> = (0..$n).map(|_| nzq(&mut d.rng)).collect();
                let o = |v: $V<Q>| evs(&v.into_iter().collect::<Vec<Q>>());
                let r = |which: &str, v: &[Q]| json!({"ty": $name, "which": which, "a": evs(v)});
                d.call("real1", || r("ceil", &a), || o($V::<Q>::from_slice(&a).ceil()));
                d.call("real1", || r("floor", &a), || o($V::<Q>::from_slice(&a).floor()));
                d.call("real1", || r("round", &a), || o($V::<Q>::from_slice(&a).round()));
                d.call("real1", || r("recip", &nz), || o($V::<Q>::from_slice(&nz).recip()));
                d.call("real1", || r("sqrt", &sqs), || o($V::<Q>::from_slice(&sqs).sqrt()));
                d.call("real1", || r("rsqrt", &sqs), || o($V::<Q>::from_slice(&sqs).rsqrt()));
            }};
        }
        for_all_vecs!(one);
    }
    d.finish(arg(args, "--summary"));
}
