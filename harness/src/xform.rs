//! Drivers for rotations (C04), quaternions (C05), affine builders / Transform (C07) and
//! view / change-of-basis matrices (C09): calls of the real vek API on exact rationals
//! (lane Q, angles as tokens k*phi_b with rational cos/sin), logged for validation by
//! spec/Trace_Xform.tla.
use crate::alg::*;
use crate::mat::{em, MatT, VecT};
use crate::q::Q;
use crate::util::*;
use rand::Rng;
use serde_json::{json, Value};
use vek::mat::repr_c::column_major as cm;
use vek::mat::repr_c::row_major as rm;
use vek::{Quaternion, Transform, Vec2, Vec3, Vec4};

fn v3(s: &[Q]) -> Vec3<Q> { Vec3::new(s[0], s[1], s[2]) }
fn v2(s: &[Q]) -> Vec2<Q> { Vec2::new(s[0], s[1]) }
fn quat(s: &[Q]) -> Quaternion<Q> { Quaternion::from_xyzw(s[0], s[1], s[2], s[3]) }
fn eq_(q: &Quaternion<Q>) -> Value { evs(&[q.x, q.y, q.z, q.w]) }
fn ident(n: usize) -> Vec<Vec<Q>> { (0..n).map(|i| (0..n).map(|j| Q::int((i == j) as i64)).collect()).collect() }
/// a random angle token (b in 1..=4 as on the TLA+ side, k); `even` forces an even multiple so
/// that the half angle is a token too
fn token(d: &mut Drv, even: bool) -> (u8, i64, Q) {
    let b = d.rng.gen_range(0..4u8);
    let lim = if b >= 2 { 2 } else { 3 };   // keeps residues/pairs small for the larger bases
    let mut k = d.rng.gen_range(-lim..=lim);
    if even { k *= 2; }
    (b + 1, k, Q::angle(b, k))
}
fn base_mat(d: &mut Drv, n: usize) -> Vec<Vec<Q>> {
    if d.pick(3) == 0 { ident(n) } else { (0..n).map(|_| (0..n).map(|_| Q::int(d.rng.gen_range(-3..=3))).collect()).collect() }
}

// ---------------------------------------------------------------------------
// C04

macro_rules! rot_axis {
    ($d:expr, $m:ident, $M:ident, $n:expr, $axis:expr, $ctor:ident, $ed:ident, $inpl:ident) => {{
        let d: &mut Drv = $d;
        let (b, k, ang) = token(d, false);
        let a = base_mat(d, $n);
        let am = <$m::$M<Q> as MatT<Q>>::from_rows(&a);
        let lay = <$m::$M<Q> as MatT<Q>>::LAY;
        let arg = |form: &str, a: &Vec<Vec<Q>>| json!({"axis": $axis, "n": $n, "lay": lay, "form": form, "b": b, "k": k, "a": evm(a)});
        d.call("rot_axis", || arg("new", &ident($n)), || em(&$m::$M::<Q>::$ctor(ang)));
        d.call("rot_axis", || arg("ed", &a), || em(&am.$ed(ang)));
        d.call("rot_axis", || arg("inplace", &a), || { let mut m = am; m.$inpl(ang); em(&m) });
    }};
}
macro_rules! rot_3d {
    ($d:expr, $m:ident, $M:ident, $n:expr) => {{
        let d: &mut Drv = $d;
        let (b, k, ang) = token(d, false);
        let (ax, len) = pyth3(&mut d.rng);
        // any non-zero axis: also very short and very long ones (|axis|^2 far below epsilon / far above 1)
        let sk: i64 = [0, 0, 0, -25, -30, 12][d.pick(6)];
        let sc = if sk >= 0 { Q::new(1i128 << sk, 1) } else { Q::new(1, 1i128 << (-sk)) };
        let (ax, len): (Vec<Q>, Q) = (ax.iter().map(|x| *x * sc).collect(), len * sc);
        let lenq = || if len.d <= (1 << 30) && len.n.abs() <= (1 << 30) { json!([len.n as i64, len.d as i64]) } else { crate::q::inconclusive("length witness too large") };
        let a = base_mat(d, $n);
        let am = <$m::$M<Q> as MatT<Q>>::from_rows(&a);
        let lay = <$m::$M<Q> as MatT<Q>>::LAY;
        let arg = |form: &str, a: &Vec<Vec<Q>>| json!({"n": $n, "lay": lay, "form": form, "b": b, "k": k, "v": evs(&ax), "len": ev(len), "lenq": lenq(), "a": evm(a)});
        d.call("rot_3d", || arg("new", &ident($n)), || em(&$m::$M::<Q>::rotation_3d(ang, v3(&ax))));
        d.call("rot_3d", || arg("ed", &a), || em(&am.rotated_3d(ang, v3(&ax))));
        d.call("rot_3d", || arg("inplace", &a), || { let mut m = am; m.rotate_3d(ang, v3(&ax)); em(&m) });
    }};
}
macro_rules! mat_of_quat {
    ($d:expr, $m:ident, $M:ident, $n:expr) => {{
        let d: &mut Drv = $d;
        let q: Vec<Q> = if d.pick(2) == 0 { unitquat(&mut d.rng, 3) } else { d.vecn(4) };
        let lay = <$m::$M<Q> as MatT<Q>>::LAY;
        d.call("mat_of_quat", || json!({"n": $n, "lay": lay, "q": evs(&q)}), || em(&$m::$M::<Q>::from(quat(&q))));
    }};
}

fn quat_rotations(d: &mut Drv) {
    let (b, k, ang) = token(d, true);
    let (ax, len) = pyth3(&mut d.rng);
    // any non-zero axis: also very short and very long ones
    let sk: i64 = [0, 0, -25, -30, 12][d.pick(5)];
    let sc = if sk >= 0 { Q::new(1i128 << sk, 1) } else { Q::new(1, 1i128 << (-sk)) };
    let (ax, len): (Vec<Q>, Q) = (ax.iter().map(|x| *x * sc).collect(), len * sc);
    let bigpair = |l: Q| if l.d <= (1 << 30) && l.n.abs() <= (1 << 30) { json!([l.n as i64, l.d as i64]) } else { crate::q::inconclusive("length witness too large") };
    let q0: Vec<Q> = if d.pick(2) == 0 { vec![Q::int(0), Q::int(0), Q::int(0), Q::int(1)] } else { unitquat(&mut d.rng, 2) };
    let qq = quat(&q0);
    let arg = |form: &str, v: &[Q], len: Q, a: &[Q]| json!({"form": form, "b": b, "hk": k / 2, "v": evs(v), "len": ev(len), "lenq": bigpair(len), "a": evs(a)});
    let id = [Q::int(0), Q::int(0), Q::int(0), Q::int(1)];
    d.call("quat_rot", || arg("rotation_3d", &ax, len, &id), || eq_(&Quaternion::rotation_3d(ang, v3(&ax))));
    d.call("quat_rot", || arg("rotated_3d", &ax, len, &q0), || eq_(&qq.rotated_3d(ang, v3(&ax))));
    d.call("quat_rot", || arg("rotate_3d", &ax, len, &q0), || { let mut q = qq; q.rotate_3d(ang, v3(&ax)); eq_(&q) });
    let one = Q::int(1);
    let units = [[Q::int(1), Q::int(0), Q::int(0)], [Q::int(0), Q::int(1), Q::int(0)], [Q::int(0), Q::int(0), Q::int(1)]];
    d.call("quat_rot", || arg("rotation_x", &units[0], one, &id), || eq_(&Quaternion::rotation_x(ang)));
    d.call("quat_rot", || arg("rotation_y", &units[1], one, &id), || eq_(&Quaternion::rotation_y(ang)));
    d.call("quat_rot", || arg("rotation_z", &units[2], one, &id), || eq_(&Quaternion::rotation_z(ang)));
    d.call("quat_rot", || arg("rotated_x", &units[0], one, &q0), || eq_(&qq.rotated_x(ang)));
    d.call("quat_rot", || arg("rotated_y", &units[1], one, &q0), || eq_(&qq.rotated_y(ang)));
    d.call("quat_rot", || arg("rotated_z", &units[2], one, &q0), || eq_(&qq.rotated_z(ang)));
    d.call("quat_rot", || arg("rotate_x", &units[0], one, &q0), || { let mut q = qq; q.rotate_x(ang); eq_(&q) });
    d.call("quat_rot", || arg("rotate_y", &units[1], one, &q0), || { let mut q = qq; q.rotate_y(ang); eq_(&q) });
    d.call("quat_rot", || arg("rotate_z", &units[2], one, &q0), || { let mut q = qq; q.rotate_z(ang); eq_(&q) });
    // 2D vector rotation
    let (b2, k2, ang2) = token(d, false);
    let v: Vec<Q> = d.vecn(2);
    d.call("vec2_rot", || json!({"form": "rotated_z", "b": b2, "k": k2, "v": evs(&v)}), || { let r = v2(&v).rotated_z(ang2); evs(&[r.x, r.y]) });
    d.call("vec2_rot", || json!({"form": "rotate_z", "b": b2, "k": k2, "v": evs(&v)}), || { let mut r = v2(&v); r.rotate_z(ang2); evs(&[r.x, r.y]) });
}

pub fn drive_rot(args: &[String]) {
    let n: usize = arg_or(args, "--n", "30").parse().unwrap();
    let seed: u64 = arg_or(args, "--seed", "1").parse().unwrap();
    let mut d = Drv::new(&arg(args, "--out").expect("--out"), seed);
    // every generated input is valid for the call it is passed to: a division by zero inside the code under test is
    // an outcome of that code (NaN on floats), not an inconclusive sample
    crate::q::set_strict_div(true);
    for _ in 0..n {
        rot_axis!(&mut d, rm, Mat4, 4, "x", rotation_x, rotated_x, rotate_x); rot_axis!(&mut d, cm, Mat4, 4, "x", rotation_x, rotated_x, rotate_x);
        rot_axis!(&mut d, rm, Mat4, 4, "y", rotation_y, rotated_y, rotate_y); rot_axis!(&mut d, cm, Mat4, 4, "y", rotation_y, rotated_y, rotate_y);
        rot_axis!(&mut d, rm, Mat4, 4, "z", rotation_z, rotated_z, rotate_z); rot_axis!(&mut d, cm, Mat4, 4, "z", rotation_z, rotated_z, rotate_z);
        rot_axis!(&mut d, rm, Mat3, 3, "x", rotation_x, rotated_x, rotate_x); rot_axis!(&mut d, cm, Mat3, 3, "x", rotation_x, rotated_x, rotate_x);
        rot_axis!(&mut d, rm, Mat3, 3, "y", rotation_y, rotated_y, rotate_y); rot_axis!(&mut d, cm, Mat3, 3, "y", rotation_y, rotated_y, rotate_y);
        rot_axis!(&mut d, rm, Mat3, 3, "z", rotation_z, rotated_z, rotate_z); rot_axis!(&mut d, cm, Mat3, 3, "z", rotation_z, rotated_z, rotate_z);
        rot_axis!(&mut d, rm, Mat2, 2, "z", rotation_z, rotated_z, rotate_z); rot_axis!(&mut d, cm, Mat2, 2, "z", rotation_z, rotated_z, rotate_z);
        rot_3d!(&mut d, rm, Mat4, 4); rot_3d!(&mut d, cm, Mat4, 4); rot_3d!(&mut d, rm, Mat3, 3); rot_3d!(&mut d, cm, Mat3, 3);
        mat_of_quat!(&mut d, rm, Mat4, 4); mat_of_quat!(&mut d, cm, Mat4, 4); mat_of_quat!(&mut d, rm, Mat3, 3); mat_of_quat!(&mut d, cm, Mat3, 3);
        quat_rotations(&mut d);
    }
    d.finish(arg(args, "--summary"));
}

// ---------------------------------------------------------------------------
// C05

/// (from, |from|, to, |to|) with rational lengths and a rational rotation between them:
/// to = mu * R * (from / lambda-scaled) where R is a rational rotation; includes exactly
/// antiparallel, parallel and nearly antiparallel pairs.
fn from_to_pair(d: &mut Drv) -> (Vec<Q>, Q, Vec<Q>, Q) {
    let (f, fl) = pyth3(&mut d.rng);
    let mu = nzq(&mut d.rng);
    let mu = if mu < Q::int(0) { -mu } else { mu };
    match d.pick(5) {
        0 => {
            // exactly opposite; half of the time `from` lies on a signed coordinate axis (the degenerate-axis choice
            // of the code under test depends on which components vanish and on their signs)
            let (f, fl) = if d.pick(2) == 0 { let mut a = vec![Q::int(0); 3]; let l = nzq(&mut d.rng); a[d.pick(3)] = l; (a, if l < Q::int(0) { -l } else { l }) } else { (f, fl) };
            (f.clone(), fl, f.iter().map(|x| -*x * mu).collect(), fl * mu)
        }
        1 => (f.clone(), fl, f.iter().map(|x| *x * mu).collect(), fl * mu),             // parallel
        _ => {
            // the square of a rational rotation: the half angle is rational too, so is the result of the code
            let r = rot3(&mut d.rng);
            let h: Vec<Q> = (0..3).map(|i| r[i][0] * f[0] + r[i][1] * f[1] + r[i][2] * f[2]).collect();
            let t: Vec<Q> = (0..3).map(|i| (r[i][0] * h[0] + r[i][1] * h[1] + r[i][2] * h[2]) * mu).collect();
            (f, fl, t, fl * mu)
        }
    }
}

fn quats(d: &mut Drv) {
    let p: Vec<Q> = d.vecn(4);
    let q: Vec<Q> = d.vecn(4);
    let u: Vec<Q> = unitquat(&mut d.rng, 3);
    let v: Vec<Q> = d.vecn(3);
    let w = Q::gen(&mut d.rng);
    let s = nzq(&mut d.rng);
    let (pp, qq, uu) = (quat(&p), quat(&q), quat(&u));
    let pq = || json!({"p": evs(&p), "q": evs(&q)});
    d.call("quat_mul", pq, || eq_(&(pp * qq)));
    d.call("quat_add", pq, || eq_(&(pp + qq)));
    d.call("quat_sub", pq, || eq_(&(pp - qq)));
    d.call("quat_dot", pq, || ev(pp.dot(qq)));
    d.call("quat_neg", || json!({"p": evs(&p)}), || eq_(&(-pp)));
    d.call("quat_conj", || json!({"p": evs(&p)}), || eq_(&pp.conjugate()));
    d.call("quat_inv", || json!({"p": evs(&p)}), || eq_(&pp.inverse()));
    d.call("quat_norm2", || json!({"p": evs(&p)}), || ev(pp.magnitude_squared()));
    d.call("quat_muls", || json!({"p": evs(&p), "s": ev(s)}), || eq_(&(pp * s)));
    d.call("quat_divs", || json!({"p": evs(&p), "s": ev(s)}), || eq_(&(pp / s)));
    // application to vectors: unit and non-unit quaternions (the code's formula is q v conj(q))
    for (name, qv, qs) in [("unit", uu, &u), ("any", pp, &p)] {
        d.call("quat_mulv3", || json!({"q": evs(qs), "v": evs(&v), "kind": name}), || { let r = qv * v3(&v); evs(&[r.x, r.y, r.z]) });
        d.call("quat_mulv4", || json!({"q": evs(qs), "v": evs(&v), "w": ev(w), "kind": name}), || { let r = qv * Vec4::new(v[0], v[1], v[2], w); evs(&[r.x, r.y, r.z, r.w]) });
    }
    // composition through the real code: (p*q)*v and p*(q*v)
    d.call("quat_compose", || json!({"p": evs(&p), "q": evs(&q), "v": evs(&v)}), || { let a = (pp * qq) * v3(&v); let b = pp * (qq * v3(&v)); json!([evs(&[a.x, a.y, a.z]), evs(&[b.x, b.y, b.z])]) });
    // component conversions
    let conv = |how: &str| json!({"how": how, "p": evs(&p)});
    d.call("quat_conv", || conv("from_xyzw"), || eq_(&Quaternion::from_xyzw(p[0], p[1], p[2], p[3])));
    d.call("quat_conv", || conv("into_vec4"), || { let r = pp.into_vec4(); evs(&[r.x, r.y, r.z, r.w]) });
    d.call("quat_conv", || conv("from_vec4"), || eq_(&Quaternion::from_vec4(Vec4::new(p[0], p[1], p[2], p[3]))));
    d.call("quat_conv", || conv("from_into_vec4"), || { let r: Vec4<Q> = Quaternion::from(Vec4::new(p[0], p[1], p[2], p[3])).into(); evs(&[r.x, r.y, r.z, r.w]) });
    d.call("quat_conv", || conv("into_vec3"), || { let r = pp.into_vec3(); evs(&[r.x, r.y, r.z]) });
    d.call("quat_conv", || conv("from_scalar_and_vec3"), || eq_(&Quaternion::from_scalar_and_vec3((p[3], Vec3::new(p[0], p[1], p[2])))));
    d.call("quat_conv", || conv("into_scalar_and_vec3"), || { let (s, r) = pp.into_scalar_and_vec3(); evs(&[r.x, r.y, r.z, s]) });
    d.call("quat_conv", || conv("identity"), || eq_(&Quaternion::<Q>::identity()));
    d.call("quat_conv", || conv("default"), || eq_(&Quaternion::<Q>::default()));
    d.call("quat_conv", || conv("zero"), || eq_(&Quaternion::<Q>::zero()));
    // normalisation of a quaternion with rational norm (n * unit)
    let un: Vec<Q> = u.iter().map(|x| *x * s).collect();
    let sabs = if s < Q::int(0) { -s } else { s };
    d.call("quat_normalized", || json!({"p": evs(&un), "len": ev(sabs), "lenq": pairq(sabs)}), || eq_(&quat(&un).normalized()));
    d.call("quat_magnitude", || json!({"p": evs(&un), "lenq": pairq(sabs)}), || ev(quat(&un).magnitude()));
    // rotation between two directions
    let (f, fl, t, tl) = from_to_pair(d);
    // the rotation depends on the directions only: also very long and very short vectors
    let (fk, tk): (i64, i64) = [(0, 0), (0, 0), (20, 20), (-20, -20), (22, -3)][d.pick(5)];
    let p2 = |k: i64| if k >= 0 { Q::new(1i128 << k, 1) } else { Q::new(1, 1i128 << (-k)) };
    let (f, fl, t, tl): (Vec<Q>, Q, Vec<Q>, Q) = (f.iter().map(|x| *x * p2(fk)).collect(), fl * p2(fk), t.iter().map(|x| *x * p2(tk)).collect(), tl * p2(tk));
    let bigpair = |l: Q| if l.d <= (1 << 30) && l.n.abs() <= (1 << 30) { json!([l.n as i64, l.d as i64]) } else { crate::q::inconclusive("length witness too large") };
    let ft = |ty: &str| json!({"ty": ty, "from": evs(&f), "to": evs(&t), "fl": ev(fl), "tl": ev(tl), "flq": bigpair(fl), "tlq": bigpair(tl)});
    d.call("from_to", || ft("quat"), || eq_(&Quaternion::rotation_from_to_3d(v3(&f), v3(&t))));
    d.call("from_to", || ft("mat3r"), || em(&rm::Mat3::<Q>::rotation_from_to_3d(v3(&f), v3(&t))));
    d.call("from_to", || ft("mat3c"), || em(&cm::Mat3::<Q>::rotation_from_to_3d(v3(&f), v3(&t))));
    d.call("from_to", || ft("mat4r"), || em(&rm::Mat4::<Q>::rotation_from_to_3d(v3(&f), v3(&t))));
    d.call("from_to", || ft("mat4c"), || em(&cm::Mat4::<Q>::rotation_from_to_3d(v3(&f), v3(&t))));
    // the same on floats, for lengths that an exact lane can only reach through irrational square roots once the code takes a
    // wrong branch: small integer directions (never nearly opposite unless exactly opposite) scaled by powers of two
    {
        let iv = |d: &mut Drv| -> [f64; 3] { loop { let v = [d.rng.gen_range(-6..=6) as f64, d.rng.gen_range(-6..=6) as f64, d.rng.gen_range(-6..=6) as f64]; if v != [0.0; 3] { return v; } } };
        let a = iv(d);
        let b = match d.pick(4) { 0 => [-2.0 * a[0], -2.0 * a[1], -2.0 * a[2]], 1 => [4.0 * a[0], 4.0 * a[1], 4.0 * a[2]], _ => iv(d) };
        let unit = |v: [f64; 3]| { let l = (v[0] * v[0] + v[1] * v[1] + v[2] * v[2]).sqrt(); [v[0] / l, v[1] / l, v[2] / l] };
        let sc = |x: f64| if x.is_finite() { (x * 1048576.0).round() as i64 } else { 1 << 40 };
        for (ka, kb) in [(0i32, 0i32), (30, 30), (-30, -30), (40, -20), (27, 27)] {
            let (fa, fb) = (2f64.powi(ka), 2f64.powi(kb));
            let (f, t) = (Vec3::new(a[0] * fa, a[1] * fa, a[2] * fa), Vec3::new(b[0] * fb, b[1] * fb, b[2] * fb));
            d.call("from_to_f", || json!({"ty": "f64", "from": [a[0] as i64, a[1] as i64, a[2] as i64], "to": [b[0] as i64, b[1] as i64, b[2] as i64], "ka": ka, "kb": kb, "tol": 64}), || {
                let q = Quaternion::<f64>::rotation_from_to_3d(f, t);
                let i = q * Vec3::new(a[0], a[1], a[2]);
                let (iu, tu) = (unit([i.x, i.y, i.z]), unit(b));
                json!({"img": [sc(iu[0]), sc(iu[1]), sc(iu[2])], "to": [sc(tu[0]), sc(tu[1]), sc(tu[2])], "n2": sc(q.x * q.x + q.y * q.y + q.z * q.z + q.w * q.w)})
            });
        }
        for (ka, kb) in [(0i32, 0i32), (12, 12), (-12, -12), (14, 11), (16, -8)] {
            let (fa, fb) = (2f32.powi(ka), 2f32.powi(kb));
            let (f, t) = (Vec3::new(a[0] as f32 * fa, a[1] as f32 * fa, a[2] as f32 * fa), Vec3::new(b[0] as f32 * fb, b[1] as f32 * fb, b[2] as f32 * fb));
            d.call("from_to_f", || json!({"ty": "f32", "from": [a[0] as i64, a[1] as i64, a[2] as i64], "to": [b[0] as i64, b[1] as i64, b[2] as i64], "ka": ka, "kb": kb, "tol": 2048}), || {
                let q = Quaternion::<f32>::rotation_from_to_3d(f, t);
                let i = q * Vec3::new(a[0] as f32, a[1] as f32, a[2] as f32);
                let (iu, tu) = (unit([i.x as f64, i.y as f64, i.z as f64]), unit(b));
                json!({"img": [sc(iu[0]), sc(iu[1]), sc(iu[2])], "to": [sc(tu[0]), sc(tu[1]), sc(tu[2])], "n2": sc((q.x * q.x + q.y * q.y + q.z * q.z + q.w * q.w) as f64)})
            });
        }
    }
    // angle-axis extraction of rotation_3d(token angle, axis): must describe the same rotation
    // half angles beyond a quarter turn (w < 0) are as frequent as the others
    let ang = if d.pick(2) == 0 { let s = [-1i64, 1][d.pick(2)]; Q::angle(0, 6 * s) } else { token(d, true).2 };
    let (ax, _len) = pyth3(&mut d.rng);
    let rq = Quaternion::rotation_3d(ang, v3(&ax));
    d.call("angle_axis", || json!({"q": eq_(&rq)}), || {
        let (a, axis) = rq.into_angle_axis();
        json!({"ang": token_of(a), "axis": evs(&[axis.x, axis.y, axis.z])})
    });
    // w = -1 exactly (a full turn: -identity, and rotation_x(2 pi)): sqrt(1 - w^2) = 0, "any axis would do"
    for nq in [Quaternion::from_xyzw(Q::int(0), Q::int(0), Q::int(0), Q::int(-1)), Quaternion::rotation_x(Q::pi_mul(2, 1)), Quaternion::rotation_3d(Q::pi_mul(-2, 1), v3(&ax))] {
        d.call("angle_axis", || json!({"q": eq_(&nq)}), || { let (a, axis) = nq.into_angle_axis(); json!({"ang": token_of(a), "axis": evs(&[axis.x, axis.y, axis.z])}) });
    }
    // small residual rotations on floats (an exact lane has no tiny angle whose half-angle sine is rational AND registered):
    // a quaternion built from (angle, unit axis) with 0 < angle < pi must give back that angle (scaled 2^26) and that axis (scaled 2^20)
    for (ang, axis) in [(1e-3f64, (0.6f64, 0.0f64, 0.8f64)), (4e-4, (0.0, 0.8, -0.6)), (2e-5, (0.36, 0.48, 0.8)), (0.3, (0.6, 0.8, 0.0)), (3.0, (0.0, 0.0, 1.0))] {
        let sc = |x: f64| if x.is_finite() { (x * 1048576.0).round() as i64 } else { 1 << 40 };
        let qf = Quaternion::<f64>::rotation_3d(ang, Vec3::new(axis.0, axis.1, axis.2));
        d.call("angle_axis_f", || json!({"ang": sc(ang * 64.0), "axis": [sc(axis.0), sc(axis.1), sc(axis.2)]}), || { let (a, x) = qf.into_angle_axis(); json!({"ang": sc(a * 64.0), "axis": [sc(x.x), sc(x.y), sc(x.z)]}) });
    }
    let idq = Quaternion::<Q>::identity();
    d.call("angle_axis", || json!({"q": eq_(&idq)}), || { let (a, axis) = idq.into_angle_axis(); json!({"ang": token_of(a), "axis": evs(&[axis.x, axis.y, axis.z])}) });
}
/// an angle value as a list of tokens [base, multiple]: base 0 = quarter turns, 1..4 = the Pythagorean angles
pub fn token_of(a: Q) -> Value {
    let c = match a.combo() { Some(c) => c, None => crate::q::inconclusive("angle result is a plain number") };
    let mut out = vec![];
    if c[0].0 != 0 {
        if 2 % c[0].1 != 0 { crate::q::inconclusive("angle is not a multiple of a quarter turn") }
        out.push(json!([0, (c[0].0 * (2 / c[0].1)) as i64]));
    }
    for b in 0..4 {
        if c[1 + b].0 != 0 {
            if c[1 + b].1 != 1 { crate::q::inconclusive("fractional multiple of a token angle") }
            out.push(json!([b as i64 + 1, c[1 + b].0 as i64]));
        }
    }
    Value::Array(out)
}

pub fn drive_quat(args: &[String]) {
    let n: usize = arg_or(args, "--n", "30").parse().unwrap();
    let seed: u64 = arg_or(args, "--seed", "1").parse().unwrap();
    let mut d = Drv::new(&arg(args, "--out").expect("--out"), seed);
    // every generated input is valid for the call it is passed to: a division by zero inside the code under test is
    // an outcome of that code (NaN on floats), not an inconclusive sample
    crate::q::set_strict_div(true);
    for _ in 0..n { quats(&mut d); }
    d.finish(arg(args, "--summary"));
}

// ---------------------------------------------------------------------------
// C07

/// One chain step, as generated by TLC (Gen_Chain) or randomly: kind + parameters.
#[derive(Clone)]
pub struct Step { pub k: String, pub v: Vec<Q>, pub b: u8, pub kk: i64 }
impl Step {
    fn ang(&self) -> Q { if self.b == 0 { Q::int(0) } else { Q::angle(self.b - 1, self.kk) } }
    fn cs(&self) -> (Q, Q) { self.ang().cos_sin() }
    fn json(&self) -> Value {
        let (c, s) = self.cs();
        // rotate_3d logs the normalised axis (the chain specification takes unit axes); the raw axis is in `raw`
        json!({"k": self.k, "v": evs(&self.v), "b": self.b, "kk": self.kk, "c": ev(c), "s": ev(s)})
    }
}
pub const KINDS4: [&str; 7] = ["translate_3d", "translate_2d", "scale_3d", "rotate_x", "rotate_y", "rotate_z", "rotate_3d"];
pub const KINDS3: [&str; 6] = ["translate_2d", "scale_3d", "rotate_x", "rotate_y", "rotate_z", "rotate_3d"];
pub const KINDS2: [&str; 4] = ["scale_2d", "shear_x", "shear_y", "rotate_z"];

fn random_step(d: &mut Drv, kind: &str) -> (Step, Vec<Q>) {
    let (b, kk, _) = token(d, false);
    match kind {
        "rotate_3d" => { let (ax, len) = pyth3(&mut d.rng); let unit: Vec<Q> = ax.iter().map(|x| *x / len).collect(); (Step { k: kind.into(), v: unit, b, kk }, ax) }
        "rotate_x" | "rotate_y" | "rotate_z" => (Step { k: kind.into(), v: vec![], b, kk }, vec![]),
        "translate_2d" | "scale_2d" => { let v: Vec<Q> = d.vecn(2); (Step { k: kind.into(), v: v.clone(), b: 0, kk: 0 }, v) }
        "shear_x" | "shear_y" => { let v: Vec<Q> = d.vecn(1); (Step { k: kind.into(), v: v.clone(), b: 0, kk: 0 }, v) }
        _ => { let v: Vec<Q> = d.vecn(3); (Step { k: kind.into(), v: v.clone(), b: 0, kk: 0 }, v) }
    }
}

macro_rules! apply_step4 {
    ($m:expr, $st:expr, $raw:expr, $inplace:expr) => {{
        let (st, raw, a): (&Step, &Vec<Q>, Q) = ($st, $raw, $st.ang());
        if $inplace {
            match st.k.as_str() {
                "translate_3d" => $m.translate_3d(v3(raw)), "translate_2d" => $m.translate_2d(v2(raw)), "scale_3d" => $m.scale_3d(v3(raw)),
                "rotate_x" => $m.rotate_x(a), "rotate_y" => $m.rotate_y(a), "rotate_z" => $m.rotate_z(a), "rotate_3d" => $m.rotate_3d(a, v3(raw)),
                k => panic!("step {}", k),
            }
        } else {
            $m = match st.k.as_str() {
                "translate_3d" => $m.translated_3d(v3(raw)), "translate_2d" => $m.translated_2d(v2(raw)), "scale_3d" => $m.scaled_3d(v3(raw)),
                "rotate_x" => $m.rotated_x(a), "rotate_y" => $m.rotated_y(a), "rotate_z" => $m.rotated_z(a), "rotate_3d" => $m.rotated_3d(a, v3(raw)),
                k => panic!("step {}", k),
            };
        }
    }};
}
macro_rules! apply_step3 {
    ($m:expr, $st:expr, $raw:expr, $inplace:expr) => {{
        let (st, raw, a): (&Step, &Vec<Q>, Q) = ($st, $raw, $st.ang());
        if $inplace {
            match st.k.as_str() {
                "translate_2d" => $m.translate_2d(v2(raw)), "scale_3d" => $m.scale_3d(v3(raw)),
                "rotate_x" => $m.rotate_x(a), "rotate_y" => $m.rotate_y(a), "rotate_z" => $m.rotate_z(a), "rotate_3d" => $m.rotate_3d(a, v3(raw)),
                k => panic!("step {}", k),
            }
        } else {
            $m = match st.k.as_str() {
                "translate_2d" => $m.translated_2d(v2(raw)), "scale_3d" => $m.scaled_3d(v3(raw)),
                "rotate_x" => $m.rotated_x(a), "rotate_y" => $m.rotated_y(a), "rotate_z" => $m.rotated_z(a), "rotate_3d" => $m.rotated_3d(a, v3(raw)),
                k => panic!("step {}", k),
            };
        }
    }};
}
macro_rules! apply_step2 {
    ($m:expr, $st:expr, $raw:expr, $inplace:expr) => {{
        let (st, raw, a): (&Step, &Vec<Q>, Q) = ($st, $raw, $st.ang());
        if $inplace {
            match st.k.as_str() {
                "scale_2d" => $m.scale_2d(v2(raw)), "shear_x" => $m.shear_x(raw[0]), "shear_y" => $m.shear_y(raw[0]), "rotate_z" => $m.rotate_z(a),
                k => panic!("step {}", k),
            }
        } else {
            $m = match st.k.as_str() {
                "scale_2d" => $m.scaled_2d(v2(raw)), "shear_x" => $m.sheared_x(raw[0]), "shear_y" => $m.sheared_y(raw[0]), "rotate_z" => $m.rotated_z(a),
                k => panic!("step {}", k),
            };
        }
    }};
}
/// Runs one chain on one matrix type in one form; logs the matrix after every step.
macro_rules! run_chain {
    ($d:expr, $m:ident, $M:ident, $n:expr, $apply:ident, $steps:expr, $inplace:expr, $src:expr, $start:expr) => {{
        let d: &mut Drv = $d;
        let steps: &Vec<(Step, Vec<Q>)> = $steps;
        let lay = <$m::$M<Q> as MatT<Q>>::LAY;
        let start: &Option<Vec<Vec<Q>>> = $start;
        d.call("chain", || { let mut r = json!({"n": $n, "lay": lay, "form": if $inplace { "inplace" } else { "ed" }, "src": $src,
                                   "steps": Value::Array(steps.iter().map(|s| s.0.json()).collect())});
                             if let Some(a) = start { r["start"] = evm(a); } r }, || {
            let mut m = match start { Some(a) => <$m::$M<Q> as MatT<Q>>::from_rows(a), None => $m::$M::<Q>::identity() };
            let mut obs = vec![];
            for (st, raw) in steps.iter() { $apply!(m, st, raw, $inplace); obs.push(em(&m)); }
            Value::Array(obs)
        });
    }};
}
pub fn run_chain_all(d: &mut Drv, n: usize, steps: &Vec<(Step, Vec<Q>)>, src: &str) { run_chain_from(d, n, steps, src, &None) }
/// the same chain applied to a receiver that earlier calls left in a given state (None = the identity)
pub fn run_chain_from(d: &mut Drv, n: usize, steps: &Vec<(Step, Vec<Q>)>, src: &str, start: &Option<Vec<Vec<Q>>>) {
    for inplace in [false, true] {
        match n {
            4 => { run_chain!(d, rm, Mat4, 4, apply_step4, steps, inplace, src, start); run_chain!(d, cm, Mat4, 4, apply_step4, steps, inplace, src, start); }
            3 => { run_chain!(d, rm, Mat3, 3, apply_step3, steps, inplace, src, start); run_chain!(d, cm, Mat3, 3, apply_step3, steps, inplace, src, start); }
            _ => { run_chain!(d, rm, Mat2, 2, apply_step2, steps, inplace, src, start); run_chain!(d, cm, Mat2, 2, apply_step2, steps, inplace, src, start); }
        }
    }
}
/// receivers that are not the product of builders: general, affine-looking with a last diagonal element other than 1 (a sum,
/// a scalar multiple or a diagonal matrix), zero, diagonal, with a zero last column, with a projective last row
pub fn structured_receiver(d: &mut Drv, n: usize) -> Vec<Vec<Q>> {
    let mut a: Vec<Vec<Q>> = d.matn(n);
    let two = Q::int(2);
    match d.pick(7) {
        0 => {}
        1 => { for j in 0..n - 1 { a[n - 1][j] = Q::int(0); } a[n - 1][n - 1] = [two, Q::int(-1), Q::int(3), Q::new(1, 2)][d.pick(4)]; }
        2 => { for i in 0..n { for j in 0..n { a[i][j] = Q::int(0); } } }
        3 => { for i in 0..n { for j in 0..n { if i != j { a[i][j] = Q::int(0); } } } if d.pick(2) == 0 { a[n - 1][n - 1] = two; } }
        4 => { for i in 0..n { a[i][n - 1] = Q::int(0); } }
        5 => { let k = nzq(&mut d.rng); for i in 0..n { for j in 0..n { a[i][j] = if i == j { k } else { Q::int(0) }; } } }
        _ => { for j in 0..n - 1 { a[n - 1][j] = Q::int(0); } a[n - 1][n - 1] = Q::int(1); a[n - 2][n - 1] = Q::int(0); }
    }
    a
}

macro_rules! ctors {
    ($d:expr, $m:ident) => {{
        let d: &mut Drv = $d;
        let lay = <$m::Mat4<Q> as MatT<Q>>::LAY;
        let v: Vec<Q> = d.vecn(3);
        let w: Vec<Q> = d.vecn(2);
        let k = Q::gen(&mut d.rng);
        let st = |kind: &str, v: &[Q]| json!({"k": kind, "v": evs(v), "b": 0, "kk": 0, "c": ev(Q::int(1)), "s": ev(Q::int(0))});
        d.call("ctor", || json!({"n": 4, "lay": lay, "st": st("translate_3d", &v)}), || em(&$m::Mat4::<Q>::translation_3d(v3(&v))));
        d.call("ctor", || json!({"n": 4, "lay": lay, "st": st("translate_2d", &w)}), || em(&$m::Mat4::<Q>::translation_2d(v2(&w))));
        d.call("ctor", || json!({"n": 4, "lay": lay, "st": st("scale_3d", &v)}), || em(&$m::Mat4::<Q>::scaling_3d(v3(&v))));
        d.call("ctor", || json!({"n": 3, "lay": lay, "st": st("translate_2d", &w)}), || em(&$m::Mat3::<Q>::translation_2d(v2(&w))));
        d.call("ctor", || json!({"n": 3, "lay": lay, "st": st("scale_3d", &v)}), || em(&$m::Mat3::<Q>::scaling_3d(v3(&v))));
        d.call("ctor", || json!({"n": 2, "lay": lay, "st": st("scale_2d", &w)}), || em(&$m::Mat2::<Q>::scaling_2d(v2(&w))));
        d.call("ctor", || json!({"n": 2, "lay": lay, "st": st("shear_x", &[k])}), || em(&$m::Mat2::<Q>::shearing_x(k)));
        d.call("ctor", || json!({"n": 2, "lay": lay, "st": st("shear_y", &[k])}), || em(&$m::Mat2::<Q>::shearing_y(k)));
        // scalar broadcast forms of the Into<Vec3> parameters
        d.call("ctor", || json!({"n": 4, "lay": lay, "st": st("scale_3d", &[k, k, k])}), || em(&$m::Mat4::<Q>::scaling_3d(k)));
        // point / direction helpers
        let a4: Vec<Vec<Q>> = d.matn(4);
        let a3: Vec<Vec<Q>> = d.matn(3);
        let (m4, m3) = (<$m::Mat4<Q> as MatT<Q>>::from_rows(&a4), <$m::Mat3<Q> as MatT<Q>>::from_rows(&a3));
        d.call("mul_point", || json!({"lay": lay, "a": evm(&a4), "v": evs(&v)}), || { let r: Vec3<Q> = m4.mul_point(v3(&v)); evs(&r.to_v()) });
        d.call("mul_dir", || json!({"lay": lay, "a": evm(&a4), "v": evs(&v)}), || { let r: Vec3<Q> = m4.mul_direction(v3(&v)); evs(&r.to_v()) });
        d.call("mul_point_2d", || json!({"lay": lay, "a": evm(&a3), "v": evs(&w)}), || { let r: Vec2<Q> = m3.mul_point_2d(v2(&w)); evs(&r.to_v()) });
        d.call("mul_dir_2d", || json!({"lay": lay, "a": evm(&a3), "v": evs(&w)}), || { let r: Vec2<Q> = m3.mul_direction_2d(v2(&w)); evs(&r.to_v()) });
        // Transform -> matrix
        let pos: Vec<Q> = d.vecn(3);
        let q: Vec<Q> = unitquat(&mut d.rng, 3);
        let sc: Vec<Q> = if d.pick(3) == 0 { let s = nzq(&mut d.rng); vec![s, s, s] } else { (0..3).map(|_| nzq(&mut d.rng)).collect() };
        let t = Transform { position: v3(&pos), orientation: quat(&q), scale: v3(&sc) };
        d.call("from_transform", || json!({"lay": lay, "pos": evs(&pos), "q": evs(&q), "scale": evs(&sc)}), || em(&$m::Mat4::<Q>::from(t)));
        let td = Transform::<Q, Q, Q>::default();
        d.call("from_transform", || json!({"lay": lay, "pos": evs(&td.position.to_v()), "q": eq_(&td.orientation), "scale": evs(&td.scale.to_v()), "default": 1}), || em(&$m::Mat4::<Q>::from(td)));
    }};
}

pub fn drive_affine(args: &[String]) {
    let n: usize = arg_or(args, "--n", "30").parse().unwrap();
    let seed: u64 = arg_or(args, "--seed", "1").parse().unwrap();
    let maxlen: usize = arg_or(args, "--maxlen", "6").parse().unwrap();
    let mut d = Drv::new(&arg(args, "--out").expect("--out"), seed);
    // chains enumerated by TLC (Gen_Chain): one JSON line per chain {"n":4,"kinds":["translate_3d",...]}
    if let Some(p) = arg(args, "--chains") {
        let mut chains: Vec<(usize, Vec<String>)> = vec![];
        read_tlc_json_lines(&p, |v| {
            let n = v["n"].as_u64().unwrap() as usize;
            let kinds = v["kinds"].as_array().unwrap().iter().map(|k| k.as_str().unwrap().to_string()).collect();
            chains.push((n, kinds));
        });
        for (n, kinds) in chains {
            let steps: Vec<(Step, Vec<Q>)> = kinds.iter().map(|k| random_step(&mut d, k)).collect();
            run_chain_all(&mut d, n, &steps, "tlc");
        }
    }
    for _ in 0..n {
        ctors!(&mut d, rm);
        ctors!(&mut d, cm);
        // long random chains
        for (sz, kinds) in [(4usize, &KINDS4[..]), (3, &KINDS3[..]), (2, &KINDS2[..])] {
            let len = 1 + d.pick(maxlen);
            let steps: Vec<(Step, Vec<Q>)> = (0..len).map(|_| { let k = kinds[d.pick(kinds.len())]; random_step(&mut d, k) }).collect();
            run_chain_all(&mut d, sz, &steps, "random");
            // a short chain on a receiver in a state no builder produces
            let start = Some(structured_receiver(&mut d, sz));
            let short: Vec<(Step, Vec<Q>)> = (0..1 + d.pick(2)).map(|_| { let k = kinds[d.pick(kinds.len())]; random_step(&mut d, k) }).collect();
            run_chain_from(&mut d, sz, &short, "structured", &start);
        }
    }
    d.finish(arg(args, "--summary"));
}

// ---------------------------------------------------------------------------
// C09 (ordered field: every value is logged as an exact pair)

macro_rules! views {
    ($d:expr, $m:ident) => {{
        let d: &mut Drv = $d;
        let lay = <$m::Mat4<Q> as MatT<Q>>::LAY;
        // a rational orthonormal frame (columns s, u, f), eye free, target = eye + dist*f, up = a*u + b*f (a > 0)
        let fr = rot_of_quat(&unitquat(&mut d.rng, 1));
        let col = |j: usize| -> Vec<Q> { (0..3).map(|i| fr[i][j]).collect() };
        let (u, f) = (col(1), col(2));
        let eye: Vec<Q> = (0..3).map(|_| Q::int(d.rng.gen_range(-3..=3))).collect();
        let dist = Q::frac(d.rng.gen_range(1..=4), [1, 2][d.pick(2)]);
        let (a, b) = (Q::frac(d.rng.gen_range(1..=3), [1, 2][d.pick(2)]), Q::int(d.rng.gen_range(-2..=2)));
        let up: Vec<Q> = (0..3).map(|i| a * u[i] + b * f[i]).collect();
        // the look-at axioms are invariant under a positive scaling of `up` (Law_Xform LookAtLaw): the code is also run on
        // very short and very long up vectors (2^-30 .. 2^20); the record keeps the unscaled direction and the exponent
        let upk: i64 = [0, 0, -24, -30, 20][d.pick(5)];
        let upscale = if upk >= 0 { Q::new(1i128 << upk, 1) } else { Q::new(1, 1i128 << (-upk)) };
        let up_code: Vec<Q> = up.iter().map(|x| *x * upscale).collect();
        for (hand, sgn) in [("lh", 1i64), ("rh", -1), ("dep", 1)] {
            let target: Vec<Q> = (0..3).map(|i| eye[i] + Q::int(sgn) * dist * f[i]).collect();
            let arg = |model: i64| json!({"hand": hand, "zsign": sgn, "lay": lay, "model": model, "eye": evs(&eye), "target": evs(&target), "up": evs(&up), "upk": upk});
            #[allow(deprecated)]
            d.call("look_at", || arg(0), || em(&match hand { "lh" => $m::Mat4::<Q>::look_at_lh(v3(&eye), v3(&target), v3(&up_code)), "rh" => $m::Mat4::<Q>::look_at_rh(v3(&eye), v3(&target), v3(&up_code)), _ => $m::Mat4::<Q>::look_at(v3(&eye), v3(&target), v3(&up_code)) }));
            #[allow(deprecated)]
            d.call("look_at", || arg(1), || em(&match hand { "lh" => $m::Mat4::<Q>::model_look_at_lh(v3(&eye), v3(&target), v3(&up_code)), "rh" => $m::Mat4::<Q>::model_look_at_rh(v3(&eye), v3(&target), v3(&up_code)), _ => $m::Mat4::<Q>::model_look_at(v3(&eye), v3(&target), v3(&up_code)) }));
        }
        // change of basis: orthonormal (i, j, k) and a general (non-orthonormal) basis for local_to_basis
        let o: Vec<Q> = (0..3).map(|_| Q::int(d.rng.gen_range(-4..=4))).collect();
        // orthonormal bases of both orientations: right-handed (a rotation), or left-handed (one axis mirrored / two axes swapped)
        let (i, j, k) = match d.pick(4) { 0 => (col(0), col(1), col(2).iter().map(|x| -*x).collect()), 1 => (col(1), col(0), col(2)), _ => (col(0), col(1), col(2)) };
        let ba = |ortho: i64, i: &Vec<Q>, j: &Vec<Q>, k: &Vec<Q>| json!({"lay": lay, "ortho": ortho, "o": evs(&o), "i": evs(i), "j": evs(j), "k": evs(k)});
        d.call("local_to_basis", || ba(1, &i, &j, &k), || em(&$m::Mat4::<Q>::local_to_basis(v3(&o), v3(&i), v3(&j), v3(&k))));
        d.call("basis_to_local", || ba(1, &i, &j, &k), || em(&$m::Mat4::<Q>::basis_to_local(v3(&o), v3(&i), v3(&j), v3(&k))));
        let g: Vec<Vec<Q>> = (0..3).map(|_| (0..3).map(|_| Q::int(d.rng.gen_range(-3..=3))).collect()).collect();
        d.call("local_to_basis", || ba(0, &g[0], &g[1], &g[2]), || em(&$m::Mat4::<Q>::local_to_basis(v3(&o), v3(&g[0]), v3(&g[1]), v3(&g[2]))));
    }};
}
pub fn drive_view(args: &[String]) {
    let n: usize = arg_or(args, "--n", "30").parse().unwrap();
    let seed: u64 = arg_or(args, "--seed", "1").parse().unwrap();
    let mut d = Drv::new(&arg(args, "--out").expect("--out"), seed);
    // every generated input is valid for the call it is passed to: a division by zero inside the code under test is
    // an outcome of that code (NaN on floats), not an inconclusive sample
    crate::q::set_strict_div(true);
    set_pair_mode(true);
    for _ in 0..n { views!(&mut d, rm); views!(&mut d, cm); }
    d.finish(arg(args, "--summary"));
}
