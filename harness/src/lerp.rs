//! C12: interpolation.  `replay lerp`: the integer Lerp implementations against the tables TLC
//! printed from the declarative LerpInt (binding B3); `drive lerp`: generic Lerp forms and
//! Transition accessors on exact rationals (pairs); `drive slerp`: quaternion nlerp / slerp and
//! Transform interpolation on exact rationals with token angles (residues).
use crate::alg::*;
use crate::q::Q;
use crate::util::*;
use rand::{rngs::StdRng, Rng, SeedableRng};
use serde_json::{json, Value};
use std::fmt::Debug;
use vek::ops::{Lerp, Slerp};
use vek::transition::{IdentityProgressMapper, LinearTransition, ProgressMapperFn, Transition};
use vek::*;

// ---------------------------------------------------------------------------
// B3: integer tables

pub trait LInt: Copy + PartialEq + Debug + 'static + Lerp<f32, Output = Self> + Lerp<f64, Output = Self> {
    const BITS: u32;
    const SIGNED: bool;
    const NAME: &'static str;
    fn from_i128(v: i128) -> Self;
    fn to_i128(self) -> i128;
}
macro_rules! lint { ($($t:ty, $bits:expr, $signed:expr);+ $(;)?) => {$(
    impl LInt for $t {
        const BITS: u32 = $bits; const SIGNED: bool = $signed; const NAME: &'static str = stringify!($t);
        fn from_i128(v: i128) -> Self { v as $t }
        fn to_i128(self) -> i128 { self as i128 }
    }
)+} }
lint! { i8, 8, true; i16, 16, true; i32, 32, true; i64, 64, true; isize, 64, true;
        u8, 8, false; u16, 16, false; u32, 32, false; u64, 64, false; usize, 64, false }

fn fits<T: LInt>(v: i128) -> bool {
    let (mn, mx) = if T::SIGNED { (-(1i128 << (T::BITS - 1)), (1i128 << (T::BITS - 1)) - 1) } else { (0, (1i128 << T::BITS) - 1) };
    mn <= v && v <= mx
}
const FORMS: [&str; 14] = ["f32/fast", "f32/precise", "f64/fast", "f64/precise", "f32/fast/ref", "f64/precise/ref", "f32/fast/range",
    "f64/precise/range", "f32/clamped", "f64/clamped_precise", "f64/clamped/range", "f32/clamped_precise/range", "f64/fast/ref", "f32/precise/ref"];

fn call<T: LInt>(form: usize, a: T, b: T, t32: f32, t64: f64) -> Option<i128> where for<'a> &'a T: Lerp<f32, Output = T> + Lerp<f64, Output = T> {
    guarded(|| match form {
        0 => <T as Lerp<f32>>::lerp_unclamped(a, b, t32),
        1 => <T as Lerp<f32>>::lerp_unclamped_precise(a, b, t32),
        2 => <T as Lerp<f64>>::lerp_unclamped(a, b, t64),
        3 => <T as Lerp<f64>>::lerp_unclamped_precise(a, b, t64),
        4 => <&T as Lerp<f32>>::lerp_unclamped(&a, &b, t32),
        5 => <&T as Lerp<f64>>::lerp_unclamped_precise(&a, &b, t64),
        6 => <T as Lerp<f32>>::lerp_unclamped_inclusive_range(a..=b, t32),
        7 => <T as Lerp<f64>>::lerp_unclamped_precise_inclusive_range(a..=b, t64),
        8 => <T as Lerp<f32>>::lerp(a, b, t32),
        9 => <T as Lerp<f64>>::lerp_precise(a, b, t64),
        10 => <T as Lerp<f64>>::lerp_inclusive_range(a..=b, t64),
        11 => <T as Lerp<f32>>::lerp_precise_inclusive_range(a..=b, t32),
        12 => <&T as Lerp<f64>>::lerp_unclamped(&a, &b, t64),
        _ => <&T as Lerp<f32>>::lerp_unclamped_precise(&a, &b, t32),
    }.to_i128())
}

struct Row { from: i64, tn: i64, v: Vec<i64> }

fn run_row<T: LInt>(rep: &mut Report, row: &Row, signed: bool, shift: u32, stride: usize, rot: usize) where for<'a> &'a T: Lerp<f32, Output = T> + Lerp<f64, Output = T> {
    let min8: i64 = if signed { -128 } else { 0 };
    let k: i128 = 1i128 << shift;
    let from = row.from as i128 * k;
    let (t32, t64) = (row.tn as f32 / 8.0, row.tn as f64 / 8.0);
    let mut i = rot % stride;
    while i < 256 {
        let to8 = min8 + i as i64;
        let to = to8 as i128 * k;
        // the four basic implementations on every entry, the derived forms in rotation
        for form in [0usize, 1, 2, 3, 4 + (i + rot) % 10] {
            let clamped = form >= 8 && form < 12;
            // unscaled: the table entry.  Scaled by k = 2^shift (8 | k): the exact real value, an integer
            // (law `IntLaw` of Law_Lerp: LerpInt(k x, k y, tn/8) = (k/8) (8 x + tn (y - x))).
            let tn_eff = if clamped { row.tn.clamp(0, 8) } else { row.tn };
            let expect: i128 = if shift == 0 { (if clamped && row.tn <= 0 { row.from } else if clamped && row.tn >= 8 { to8 } else { row.v[i] }) as i128 }
                               else { (k / 8) * (8 * row.from as i128 + tn_eff as i128 * (to8 as i128 - row.from as i128)) };
            if !fits::<T>(expect) { continue; }
            let got = call::<T>(form, T::from_i128(from), T::from_i128(to), t32, t64);
            rep.evals += 1;
            if got != Some(expect) {
                let wrapdiff = !fits::<T>(to - from);
                rep.mismatch(json!({"ty": T::NAME, "form": FORMS[form], "from": from.to_string(), "to": to.to_string(), "t": format!("{}/8", row.tn),
                    "expected": expect.to_string(), "observed": got.map(|v| v.to_string()).unwrap_or("panic".into()), "shift": shift,
                    "key": format!("lerp_int/{}/{}", if form % 2 == 0 && form < 8 || form == 8 || form == 10 || form == 12 { "fast" } else { "precise" },
                                   if wrapdiff { "difference-overflows" } else { "in-range" })}));
            }
        }
        i += stride;
    }
}
macro_rules! run_family {
    ($rep:expr, $row:expr, $signed:expr, $wide:expr, $rot:expr; $t8:ty; $($t:ty),+) => {{
        run_row::<$t8>($rep, $row, $signed, 0, 1, $rot);
        $( run_row::<$t>($rep, $row, $signed, 0, $wide, $rot); run_row::<$t>($rep, $row, $signed, <$t as LInt>::BITS - 8, $wide, $rot); )+
    }};
}

pub fn replay(args: &[String]) {
    let tables = arg(args, "--tables").expect("--tables");
    let out = arg(args, "--out").expect("--out");
    let signed = arg_or(args, "--signed", "1") == "1";
    let wide: usize = arg_or(args, "--wide-stride", "7").parse().unwrap();
    let seed: u64 = arg_or(args, "--seed", "1").parse().unwrap();
    silence_panics();
    let mut rep = Report::new();
    let mut rng = StdRng::seed_from_u64(seed);
    let mut nrow = 0usize;
    let mut keep: Vec<Row> = vec![];
    read_tlc_json_lines(&tables, |v| {
        let row = Row { from: v["from"].as_i64().unwrap(), tn: v["tn"].as_i64().unwrap(), v: v["v"].as_array().unwrap().iter().map(|x| x.as_i64().unwrap()).collect() };
        assert_eq!(row.v.len(), 256);
        nrow += 1;
        rep.tables += 1;
        if row.tn != 0 && row.tn != 8 { rep.nontrivial += 1; }
        if signed { run_family!(&mut rep, &row, true, wide, nrow; i8; i16, i32, i64, isize); } else { run_family!(&mut rep, &row, false, wide, nrow; u8; u16, u32, u64, usize); }
        if rep.samples.len() < 3 { rep.sample(json!({"table_row": {"from": v["from"], "t": format!("{}/8", row.tn), "first8": &v["v"].as_array().unwrap()[..8]}})); }
        if keep.len() < 3000 { keep.push(row); } else if rng.gen_range(0..8) == 0 { let j = rng.gen_range(0..3000); keep[j] = row; }
    });
    // vector lifts: Lerp<f32>/Lerp<f64> for vectors of integers, each lane an independent table entry of one factor
    let min8: i64 = if signed { -128 } else { 0 };
    macro_rules! lift {
        ($V:ident, $n:expr, $name:expr, $t:ty) => {{
            for _ in 0..40 {
                let tn = keep[rng.gen_range(0..keep.len())].tn;
                let rows: Vec<&Row> = keep.iter().filter(|r| r.tn == tn).collect();
                let pick: Vec<(&Row, usize)> = (0..$n).map(|_| (rows[rng.gen_range(0..rows.len())], rng.gen_range(0..256usize))).collect();
                if pick.iter().any(|(r, i)| !fits::<$t>(r.v[*i] as i128)) { continue; }
                let a: [$t; $n] = std::array::from_fn(|j| pick[j].0.from as $t);
                let b: [$t; $n] = std::array::from_fn(|j| (min8 + pick[j].1 as i64) as $t);
                let (va, vb) = ($V::<$t>::from(a), $V::<$t>::from(b));
                let got = guarded(|| <$V<$t> as Lerp<f32>>::lerp_unclamped(va, vb, tn as f32 / 8.0).into_array().iter().map(|x| *x as i64).collect::<Vec<_>>());
                let got2 = guarded(|| <&$V<$t> as Lerp<f64>>::lerp_unclamped_precise(&va, &vb, tn as f64 / 8.0).into_array().iter().map(|x| *x as i64).collect::<Vec<_>>());
                let exp: Vec<i64> = pick.iter().map(|(r, i)| r.v[*i]).collect();
                rep.evals += 2;
                if got.as_ref() != Some(&exp) || got2.as_ref() != Some(&exp) {
                    rep.mismatch(json!({"ty": format!("{}<{}>", $name, stringify!($t)), "form": "vector lift", "from": format!("{:?}", a), "to": format!("{:?}", b), "t": format!("{}/8", tn),
                        "expected": format!("{:?}", exp), "observed": format!("{:?} / {:?}", got, got2), "key": "lerp_int/vector-lift"}));
                }
            }
        }};
    }
    if !keep.is_empty() {
        if signed { for_all_vecs!(lift, i8); } else { for_all_vecs!(lift, u8); }
    }
    rep.finish(&out);
}

// ---------------------------------------------------------------------------
// B2 (pairs): generic Lerp forms and Transition accessors

fn tq(d: &mut Drv) -> Q { Q::frac(d.rng.gen_range(-4..=8), 4) }

fn lerps(d: &mut Drv) {
    macro_rules! one {
        ($V:ident, $n:expr, $name:expr) => {{
            let a: Vec<Q> = (0..$n).map(|_| Q::int(d.rng.gen_range(-5..=5))).collect();
            let b: Vec<Q> = (0..$n).map(|_| Q::frac(d.rng.gen_range(-9..=9), [1, 2][d.pick(2)])).collect();
            let t = tq(d);
            let tv: Vec<Q> = (0..$n).map(|_| tq(d)).collect();
            let (va, vb, vt) = ($V::<Q>::from_slice(&a), $V::<Q>::from_slice(&b), $V::<Q>::from_slice(&tv));
            let ts: Vec<Q> = vec![t; $n];
            let arg = |form: &str, variant: &str, t: &[Q]| json!({"ty": $name, "form": form, "variant": variant, "a": evs(&a), "b": evs(&b), "t": evs(t)});
            let o = |v: $V<Q>| evs(&v.into_iter().collect::<Vec<Q>>());
            d.call("lerp", || arg("inherent/scalar", "unclamped", &ts), || o($V::lerp_unclamped(va, vb, t)));
            d.call("lerp", || arg("inherent/scalar", "unclamped_precise", &ts), || o($V::lerp_unclamped_precise(va, vb, t)));
            d.call("lerp", || arg("inherent/scalar", "clamped", &ts), || o($V::lerp(va, vb, t)));
            d.call("lerp", || arg("inherent/scalar", "clamped_precise", &ts), || o($V::lerp_precise(va, vb, t)));
            d.call("lerp", || arg("inherent/vector", "unclamped", &tv), || o($V::lerp_unclamped(va, vb, vt)));
            d.call("lerp", || arg("inherent/vector", "unclamped_precise", &tv), || o($V::lerp_unclamped_precise(va, vb, vt)));
            d.call("lerp", || arg("inherent/vector", "clamped", &tv), || o($V::lerp(va, vb, vt)));
            d.call("lerp", || arg("inherent/vector", "clamped_precise", &tv), || o($V::lerp_precise(va, vb, vt)));
            d.call("lerp", || arg("trait", "unclamped", &ts), || o(<$V<Q> as Lerp<Q>>::lerp_unclamped(va, vb, t)));
            d.call("lerp", || arg("trait", "unclamped_precise", &ts), || o(<$V<Q> as Lerp<Q>>::lerp_unclamped_precise(va, vb, t)));
            d.call("lerp", || arg("trait", "clamped", &ts), || o(<$V<Q> as Lerp<Q>>::lerp(va, vb, t)));
            d.call("lerp", || arg("trait", "clamped_precise", &ts), || o(<$V<Q> as Lerp<Q>>::lerp_precise(va, vb, t)));
            d.call("lerp", || arg("trait/ref", "unclamped", &ts), || o(<&$V<Q> as Lerp<Q>>::lerp_unclamped(&va, &vb, t)));
            d.call("lerp", || arg("trait/ref", "unclamped_precise", &ts), || o(<&$V<Q> as Lerp<Q>>::lerp_unclamped_precise(&va, &vb, t)));
            d.call("lerp", || arg("trait/ref", "clamped", &ts), || o(<&$V<Q> as Lerp<Q>>::lerp(&va, &vb, t)));
            d.call("lerp", || arg("trait/range", "unclamped", &ts), || o(<$V<Q> as Lerp<Q>>::lerp_unclamped_inclusive_range(va..=vb, t)));
            d.call("lerp", || arg("trait/range", "unclamped_precise", &ts), || o(<$V<Q> as Lerp<Q>>::lerp_unclamped_precise_inclusive_range(va..=vb, t)));
            d.call("lerp", || arg("trait/range", "clamped", &ts), || o(<$V<Q> as Lerp<Q>>::lerp_inclusive_range(va..=vb, t)));
            d.call("lerp", || arg("trait/range", "clamped_precise", &ts), || o(<$V<Q> as Lerp<Q>>::lerp_precise_inclusive_range(va..=vb, t)));
        }};
    }
    for_all_vecs!(one);
    // scalars through the float implementations on dyadic operands (exact), and the unnormalised quaternion forms
    let (a, b, t) = (d.rng.gen_range(-40..=40) as f64 / 4.0, d.rng.gen_range(-40..=40) as f64 / 4.0, d.rng.gen_range(-8..=16) as f64 / 8.0);
    let fq = |x: f64| crate::q::from_f64_exact(x).unwrap();
    let arg = |ty: &str, variant: &str| json!({"ty": ty, "form": "float scalar", "variant": variant, "a": evs(&[fq(a)]), "b": evs(&[fq(b)]), "t": evs(&[fq(t)])});
    d.call("lerp", || arg("f64", "unclamped"), || evs(&[fq(<f64 as Lerp<f64>>::lerp_unclamped(a, b, t))]));
    d.call("lerp", || arg("f64", "unclamped_precise"), || evs(&[fq(<f64 as Lerp<f64>>::lerp_unclamped_precise(a, b, t))]));
    d.call("lerp", || arg("f64", "clamped"), || evs(&[fq(<f64 as Lerp<f64>>::lerp(a, b, t))]));
    d.call("lerp", || arg("f32", "unclamped"), || evs(&[fq(<f32 as Lerp<f32>>::lerp_unclamped(a as f32, b as f32, t as f32) as f64)]));
    d.call("lerp", || arg("f32", "clamped_precise"), || evs(&[fq(<f32 as Lerp<f32>>::lerp_precise(a as f32, b as f32, t as f32) as f64)]));
    d.call("lerp", || arg("&f32", "unclamped_precise"), || evs(&[fq(<&f32 as Lerp<f32>>::lerp_unclamped_precise(&(a as f32), &(b as f32), t as f32) as f64)]));
    let qa: Vec<Q> = d.vecn(4);
    let qb: Vec<Q> = d.vecn(4);
    let t = tq(d);
    let (pa, pb) = (Quaternion::from_xyzw(qa[0], qa[1], qa[2], qa[3]), Quaternion::from_xyzw(qb[0], qb[1], qb[2], qb[3]));
    let arg = |variant: &str| json!({"ty": "Quaternion", "form": "unnormalized", "variant": variant, "a": evs(&qa), "b": evs(&qb), "t": evs(&[t; 4])});
    let o = |q: Quaternion<Q>| evs(&[q.x, q.y, q.z, q.w]);
    d.call("lerp", || arg("unclamped"), || o(Quaternion::lerp_unclamped_unnormalized(pa, pb, t)));
    d.call("lerp", || arg("unclamped_precise"), || o(Quaternion::lerp_unclamped_precise_unnormalized(pa, pb, t)));
    d.call("lerp", || arg("clamped"), || o(Quaternion::lerp_unnormalized(pa, pb, t)));
    d.call("lerp", || arg("clamped_precise"), || o(Quaternion::lerp_precise_unnormalized(pa, pb, t)));
}

fn sq(x: Q) -> Q { x * x }
fn one_minus(x: Q) -> Q { Q::int(1) - x }

fn transitions(d: &mut Drv, neg_progress: bool) {
    let s: Vec<Q> = (0..3).map(|_| Q::int(d.rng.gen_range(-5..=5))).collect();
    let e: Vec<Q> = (0..3).map(|_| Q::int(d.rng.gen_range(-5..=5))).collect();
    let p = if neg_progress { Q::frac(-d.rng.gen_range(1..=3), 4) } else { Q::frac(d.rng.gen_range(-2..=6), 4) };
    let (vs, ve) = (Vec3::new(s[0], s[1], s[2]), Vec3::new(e[0], e[1], e[2]));
    let o = |v: Vec3<Q>| evs(&[v.x, v.y, v.z]);
    macro_rules! accessors {
        ($mk:expr, $mapper:expr, $ctor:expr) => {{
            let arg = |acc: &str| json!({"acc": acc, "mapper": $mapper, "ctor": $ctor, "start": evs(&s), "end": evs(&e), "progress": ev(p)});
            d.call("transition", || arg("into_current"), || o($mk.into_current()));
            d.call("transition", || arg("into_current_unclamped"), || o($mk.into_current_unclamped()));
            d.call("transition", || arg("into_current_precise"), || o($mk.into_current_precise()));
            d.call("transition", || arg("into_current_unclamped_precise"), || o($mk.into_current_unclamped_precise()));
            d.call("transition", || arg("current"), || o($mk.current()));
            d.call("transition", || arg("current_unclamped"), || o($mk.current_unclamped()));
            d.call("transition", || arg("current_precise"), || o($mk.current_precise()));
            d.call("transition", || arg("current_unclamped_precise"), || o($mk.current_unclamped_precise()));
        }};
    }
    accessors!(LinearTransition::<Vec3<Q>, Q>::with_progress(vs, ve, p), "id", "with_progress");
    accessors!(Transition::<Vec3<Q>, IdentityProgressMapper, Q>::with_mapper_and_progress(vs, ve, IdentityProgressMapper, p), "id", "with_mapper_and_progress");
    accessors!(Transition::<Vec3<Q>, ProgressMapperFn<Q>, Q>::with_mapper_and_progress(vs, ve, ProgressMapperFn(sq), p), "sq", "with_mapper_and_progress");
    accessors!(Transition::<Vec3<Q>, ProgressMapperFn<Q>, Q>::with_mapper_and_progress(vs, ve, ProgressMapperFn::from(one_minus as fn(Q) -> Q), p), "one_minus", "from_fn");
    // constructors that start at progress zero, then the progress field is set
    let zero = Q::int(0);
    let arg = |ctor: &str, pr: Q| json!({"acc": "current_unclamped", "mapper": "id", "ctor": ctor, "start": evs(&s), "end": evs(&e), "progress": ev(pr)});
    d.call("transition", || arg("new", zero), || o(LinearTransition::<Vec3<Q>, Q>::new(vs, ve).current_unclamped()));
    d.call("transition", || arg("new+set", p), || { let mut t = LinearTransition::<Vec3<Q>, Q>::new(vs, ve); t.progress = p; o(t.current_unclamped()) });
    d.call("transition", || arg("with_mapper", zero), || o(Transition::<Vec3<Q>, IdentityProgressMapper, Q>::with_mapper(vs, ve, IdentityProgressMapper).current_unclamped()));
    d.call("transition", || arg("from_range+set", p), || { let mut t: Transition<Vec3<Q>, IdentityProgressMapper, Q> = Transition::from(vs..ve); t.progress = p; o(t.current_unclamped()) });
    d.call("transition", || arg("into_range", p), || { let r = LinearTransition::<Vec3<Q>, Q>::with_progress(vs, ve, p).into_range(); o(LinearTransition::<Vec3<Q>, Q>::with_progress(r.start, r.end, p).current_unclamped()) });
    d.call("transition", || json!({"acc": "current_unclamped", "mapper": "id", "ctor": "default", "start": evs(&[zero; 3]), "end": evs(&[zero; 3]), "progress": ev(zero)}),
           || o(Transition::<Vec3<Q>, ProgressMapperFn<Q>, Q>::default().current_unclamped()));
}

pub fn drive_lerp(args: &[String]) {
    let n: usize = arg_or(args, "--n", "10").parse().unwrap();
    let seed: u64 = arg_or(args, "--seed", "1").parse().unwrap();
    let mut d = Drv::new(&arg(args, "--out").expect("--out"), seed);
    set_pair_mode(true);
    for _ in 0..n { lerps(&mut d); transitions(&mut d, true); transitions(&mut d, false); transitions(&mut d, false); }
    d.finish(arg(args, "--summary"));
}

// ---------------------------------------------------------------------------
// B2 (residues): nlerp, slerp, Transform

fn qv(q: &Quaternion<Q>) -> Value { evs(&[q.x, q.y, q.z, q.w]) }
fn mkq(s: &[Q]) -> Quaternion<Q> { Quaternion::from_xyzw(s[0], s[1], s[2], s[3]) }

fn nlerps(d: &mut Drv) {
    // choose the (rational-length) result first: w = lambda * unit, then b = (w - (1-t) a) / t
    let u = unitquat(&mut d.rng, 2);
    let lam = nzq(&mut d.rng);
    let lam = if lam < Q::int(0) { -lam } else { lam };
    let a: Vec<Q> = d.vecn(4);
    let t = Q::frac([1, 2, 3, 5, -1, 6][d.pick(6)], 4);
    let b: Vec<Q> = (0..4).map(|i| (u[i] * lam - (Q::int(1) - t) * a[i]) / t).collect();
    let (pa, pb) = (mkq(&a), mkq(&b));
    let clampable = t >= Q::int(0) && t <= Q::int(1);
    let arg = |form: &str, variant: &str| json!({"form": form, "variant": variant, "a": evs(&a), "b": evs(&b), "t": ev(t), "len": ev(lam), "lenq": pairq(lam)});
    d.call("nlerp", || arg("trait", "unclamped"), || qv(&<Quaternion<Q> as Lerp<Q>>::lerp_unclamped(pa, pb, t)));
    d.call("nlerp", || arg("trait", "unclamped_precise"), || qv(&<Quaternion<Q> as Lerp<Q>>::lerp_unclamped_precise(pa, pb, t)));
    d.call("nlerp", || arg("trait/ref", "unclamped"), || qv(&<&Quaternion<Q> as Lerp<Q>>::lerp_unclamped(&pa, &pb, t)));
    d.call("nlerp", || arg("trait/ref", "unclamped_precise"), || qv(&<&Quaternion<Q> as Lerp<Q>>::lerp_unclamped_precise(&pa, &pb, t)));
    if clampable {
        d.call("nlerp", || arg("trait", "clamped"), || qv(&<Quaternion<Q> as Lerp<Q>>::lerp(pa, pb, t)));
        d.call("nlerp", || arg("trait", "clamped_precise"), || qv(&<Quaternion<Q> as Lerp<Q>>::lerp_precise(pa, pb, t)));
    }
}

/// (from, axis, b, m, to): to = from * (cos m*phi_b, sin m*phi_b * axis)
fn slerp_setup(d: &mut Drv) -> (Vec<Q>, Vec<Q>, u8, i64, Vec<Q>) {
    let from = unitquat(&mut d.rng, 1);
    let fr = rot_of_quat(&unitquat(&mut d.rng, 1));
    let axis: Vec<Q> = (0..3).map(|i| fr[i][0]).collect();
    let b = d.rng.gen_range(0..2u8);
    let m: i64 = if d.pick(6) == 0 { 0 } else if b == 0 { d.rng.gen_range(1..=4) } else { d.rng.gen_range(1..=6) };
    let (c, s) = Q::angle(b, m).cos_sin();
    let r = Quaternion::from_xyzw(axis[0] * s, axis[1] * s, axis[2] * s, c);
    let to = mkq(&from) * r;
    // the same rotation is also denoted by the negated quaternion
    let neg = d.pick(3) == 0;
    let to = if neg { -to } else { to };
    (from, axis, b + 1, m, vec![to.x, to.y, to.z, to.w])
}
fn obtuse(b: u8, m: i64) -> bool { Q::angle(b - 1, m).cos_sin().0 < Q::int(0) }
/// factors j/mm for which the interpolated angle is a token again
fn slerp_factor(d: &mut Drv, b: u8, m: i64) -> (i64, i64) {
    if m == 0 { return (d.rng.gen_range(-1..=3), 2); }
    if !obtuse(b, m) { (d.rng.gen_range(-1..=m + 1), m) }
    else if m % 2 == 0 { (d.rng.gen_range(-1..=3), 2) }
    else { ([0, 1, 2, -1][d.pick(4)], 1) }
}

fn slerps(d: &mut Drv) {
    let (from, axis, b, m, to) = slerp_setup(d);
    let (j, mm) = slerp_factor(d, b, m);
    let t = Q::frac(j, mm);
    let (pf, pt) = (mkq(&from), mkq(&to));
    let arg = |form: &str, clamped: i64| json!({"form": form, "clamped": clamped, "from": evs(&from), "to": evs(&to), "axis": evs(&axis), "b": b, "m": m, "t": [j, mm]});
    d.call("slerp", || arg("inherent", 0), || qv(&Quaternion::slerp_unclamped(pf, pt, t)));
    d.call("slerp", || arg("trait", 0), || qv(&<Quaternion<Q> as Slerp<Q>>::slerp_unclamped(pf, pt, t)));
    d.call("slerp", || arg("trait/ref", 0), || qv(&<&Quaternion<Q> as Slerp<Q>>::slerp_unclamped(&pf, &pt, t)));
    d.call("slerp", || arg("inherent", 1), || qv(&Quaternion::slerp(pf, pt, t)));
    d.call("slerp", || arg("trait", 1), || qv(&<Quaternion<Q> as Slerp<Q>>::slerp(pf, pt, t)));
    // floats: the result of slerp / nlerp between unit quaternions is a unit quaternion - also for orientations that are a
    // fraction of a degree to a few degrees apart (where implementations switch formulas) and for factors outside [0,1];
    // logged: (|q|^2 - 1) * 2^44 (f64), * 2^20 (f32)
    {
        let a = [d.rng.gen_range(-5..=5) as f64, d.rng.gen_range(-5..=5) as f64, d.rng.gen_range(-5..=5) as f64, d.rng.gen_range(1..=5) as f64];
        let ax = { let v = [d.rng.gen_range(-4..=4) as f64, d.rng.gen_range(-4..=4) as f64, d.rng.gen_range(1..=4) as f64]; let l = (v[0] * v[0] + v[1] * v[1] + v[2] * v[2]).sqrt(); [v[0] / l, v[1] / l, v[2] / l] };
        let la = (a[0] * a[0] + a[1] * a[1] + a[2] * a[2] + a[3] * a[3]).sqrt();
        let f64q = Quaternion::from_xyzw(a[0] / la, a[1] / la, a[2] / la, a[3] / la);
        for (di, delta) in [2e-5f64, 1e-4, 3e-4, 2e-3, 0.01, 0.03, 0.05, 0.3, 1.0, 2.5].iter().enumerate() {
            let t = [0.25f64, 0.5, 0.7, 1.5, -0.5][(di + d.pick(5)) % 5];
            let (sn, cs) = ((delta / 2.0).sin(), (delta / 2.0).cos());
            let r = Quaternion::from_xyzw(ax[0] * sn, ax[1] * sn, ax[2] * sn, cs);
            let to = (f64q * r).normalized();
            let n2 = |q: Quaternion<f64>| q.x * q.x + q.y * q.y + q.z * q.z + q.w * q.w;
            let e = |x: f64, k: f64| if x.is_finite() { (x * k).round() as i64 } else { 1i64 << 50 };
            let rec = |ty: &str, how: &str| json!({"ty": ty, "how": how, "delta": di as i64, "t": (t * 100.0) as i64});
            d.call("slerp_f", || rec("f64", "slerp_unclamped"), || json!(e(n2(Quaternion::slerp_unclamped(f64q, to, t)) - 1.0, 17592186044416.0)));
            d.call("slerp_f", || rec("f64", "nlerp_unclamped"), || json!(e(n2(<Quaternion<f64> as Lerp<f64>>::lerp_unclamped(f64q, to, t)) - 1.0, 17592186044416.0)));
            let c32 = |q: Quaternion<f64>| Quaternion::from_xyzw(q.x as f32, q.y as f32, q.z as f32, q.w as f32).normalized();
            let (f32q, to32, t32) = (c32(f64q), c32(to), t as f32);
            let n2f = |q: Quaternion<f32>| { let (x, y, z, w) = (q.x as f64, q.y as f64, q.z as f64, q.w as f64); x * x + y * y + z * z + w * w };
            d.call("slerp_f", || rec("f32", "slerp_unclamped"), || json!(e(n2f(Quaternion::slerp_unclamped(f32q, to32, t32)) - 1.0, 1048576.0)));
            d.call("slerp_f", || rec("f32", "nlerp_unclamped"), || json!(e(n2f(<Quaternion<f32> as Lerp<f32>>::lerp_unclamped(f32q, to32, t32)) - 1.0, 1048576.0)));
        }
    }
    // Transform: positions and scales lerp, orientation slerps
    let (pa, pb): (Vec<Q>, Vec<Q>) = (d.vecn(3), d.vecn(3));
    let (sa, sb): (Vec<Q>, Vec<Q>) = (d.vecn(3), d.vecn(3));
    let v3 = |s: &[Q]| Vec3::new(s[0], s[1], s[2]);
    let (ta, tb) = (Transform { position: v3(&pa), orientation: pf, scale: v3(&sa) }, Transform { position: v3(&pb), orientation: pt, scale: v3(&sb) });
    let tj = |p: &[Q], q: &[Q], s: &[Q]| json!({"pos": evs(p), "q": evs(q), "scale": evs(s)});
    let arg = |form: &str, variant: &str| json!({"form": form, "variant": variant, "a": tj(&pa, &from, &sa), "bb": tj(&pb, &to, &sb), "from": evs(&from), "axis": evs(&axis),
                                                  "b": b, "m": m, "t": [j, mm], "tq": pairq(t)});
    let o = |x: Transform<Q, Q, Q>| json!({"pos": evs(&[x.position.x, x.position.y, x.position.z]), "q": qv(&x.orientation), "scale": evs(&[x.scale.x, x.scale.y, x.scale.z])});
    d.call("xform_lerp", || arg("value", "unclamped"), || o(<Transform<Q, Q, Q> as Lerp<Q>>::lerp_unclamped(ta, tb, t)));
    d.call("xform_lerp", || arg("value", "unclamped_precise"), || o(<Transform<Q, Q, Q> as Lerp<Q>>::lerp_unclamped_precise(ta, tb, t)));
    d.call("xform_lerp", || arg("ref", "unclamped"), || o(<&Transform<Q, Q, Q> as Lerp<Q>>::lerp_unclamped(&ta, &tb, t)));
    d.call("xform_lerp", || arg("ref", "unclamped_precise"), || o(<&Transform<Q, Q, Q> as Lerp<Q>>::lerp_unclamped_precise(&ta, &tb, t)));
}

pub fn drive_slerp(args: &[String]) {
    let n: usize = arg_or(args, "--n", "30").parse().unwrap();
    let seed: u64 = arg_or(args, "--seed", "1").parse().unwrap();
    let mut d = Drv::new(&arg(args, "--out").expect("--out"), seed);
    crate::q::set_strict_div(true);
    for _ in 0..n { nlerps(&mut d); slerps(&mut d); }
    d.finish(arg(args, "--summary"));
}
