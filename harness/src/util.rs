//! Shared helpers of the conformance harness: panic capture, table/trace I/O,
//! the list of vek vector types.
use serde_json::Value;
use std::io::{BufRead, BufReader, Write};
use std::panic::{catch_unwind, AssertUnwindSafe};

/// Run `f`, turning a panic into `None` (a panic in code under test is data).
pub fn guarded<R>(f: impl FnOnce() -> R) -> Option<R> {
    catch_unwind(AssertUnwindSafe(f)).ok()
}

pub fn silence_panics() {
    // VH_PANIC=1 keeps the default hook (debugging a driver that dies outside a guarded call)
    if std::env::var("VH_PANIC").is_ok() { return; }
    std::panic::set_hook(Box::new(|_| {}));
}

/// Lines printed by TLC's `PrintT(ToJson(v))` are JSON string literals holding JSON.
pub fn read_tlc_json_lines(path: &str, mut f: impl FnMut(Value)) {
    let file = std::fs::File::open(path).unwrap_or_else(|e| panic!("open {}: {}", path, e));
    for line in BufReader::with_capacity(1 << 20, file).lines() {
        let line = line.unwrap();
        let b = line.as_bytes();
        if b.len() > 4 && b[0] == b'"' && (b[1] == b'{' || b[1] == b'[') {
            if let Ok(inner) = serde_json::from_str::<String>(&line) {
                if let Ok(v) = serde_json::from_str::<Value>(&inner) {
                    f(v);
                }
            }
        } else if b.len() > 2 && (b[0] == b'{' || b[0] == b'[') {
            if let Ok(v) = serde_json::from_str::<Value>(&line) {
                f(v);
            }
        }
    }
}

/// Collects mismatches and counters of one replay run and prints them as JSON.
pub struct Report {
    pub evals: u64,
    pub tables: u64,
    pub nontrivial: u64,
    pub mismatches: Vec<Value>,
    pub mismatch_count: u64,
    pub samples: Vec<Value>,
    pub notes: Vec<String>,
}

impl Report {
    pub fn new() -> Self {
        Report { evals: 0, tables: 0, nontrivial: 0, mismatches: vec![], mismatch_count: 0, samples: vec![], notes: vec![] }
    }
    pub fn mismatch(&mut self, v: Value) {
        self.mismatch_count += 1;
        if self.mismatches.len() < 200 {
            self.mismatches.push(v);
        }
    }
    pub fn sample(&mut self, v: Value) {
        if self.samples.len() < 6 {
            self.samples.push(v);
        }
    }
    pub fn finish(self, out: &str) {
        let v = serde_json::json!({
            "evals": self.evals, "tables": self.tables, "nontrivial": self.nontrivial,
            "mismatch_count": self.mismatch_count, "mismatches": self.mismatches,
            "samples": self.samples, "notes": self.notes,
        });
        let mut f = std::fs::File::create(out).unwrap();
        writeln!(f, "{}", serde_json::to_string(&v).unwrap()).unwrap();
    }
}

pub struct TraceOut {
    w: std::io::BufWriter<std::fs::File>,
    pub n: u64,
}
impl TraceOut {
    pub fn create(path: &str) -> Self {
        TraceOut { w: std::io::BufWriter::new(std::fs::File::create(path).unwrap()), n: 0 }
    }
    pub fn emit(&mut self, v: Value) {
        self.n += 1;
        writeln!(self.w, "{}", serde_json::to_string(&v).unwrap()).unwrap();
    }
}

/// Simple argument lookup: `--key value`.
pub fn arg(args: &[String], key: &str) -> Option<String> {
    args.iter().position(|a| a == key).and_then(|i| args.get(i + 1).cloned())
}
pub fn arg_or(args: &[String], key: &str, d: &str) -> String {
    arg(args, key).unwrap_or_else(|| d.to_string())
}

/// Invoke a macro once per vek vector type: `$m!(Type, dim, "name")`.
#[macro_export]
macro_rules! for_all_vecs {
    ($m:ident $(, $extra:tt)*) => {
        $m!(Vec2, 2, "Vec2" $(, $extra)*);
        $m!(Vec3, 3, "Vec3" $(, $extra)*);
        $m!(Vec4, 4, "Vec4" $(, $extra)*);
        $m!(Vec8, 8, "Vec8" $(, $extra)*);
        $m!(Vec16, 16, "Vec16" $(, $extra)*);
        $m!(Vec32, 32, "Vec32" $(, $extra)*);
        $m!(Vec64, 64, "Vec64" $(, $extra)*);
        $m!(Extent2, 2, "Extent2" $(, $extra)*);
        $m!(Extent3, 3, "Extent3" $(, $extra)*);
        $m!(Rgb, 3, "Rgb" $(, $extra)*);
        $m!(Rgba, 4, "Rgba" $(, $extra)*);
        $m!(Uv, 2, "Uv" $(, $extra)*);
        $m!(Uvw, 3, "Uvw" $(, $extra)*);
    };
}
