//! C14 / C15: Bezier curves.  `drive bezier`: evaluation, derivative, split, matrix form,
//! conversions and matrix action on exact rationals (residues), unit circle on f64;
//! `drive bezext`: extrema / bounds / search on curves constructed from chosen derivative roots
//! (exact pairs), discretised length on f64.
use crate::alg::*;
use crate::mat::MatT;
use crate::q::Q;
use crate::util::*;
use rand::Rng;
use serde_json::{json, Value};
use vek::bezier::*;
use vek::geom::{LineSegment2, LineSegment3};
use vek::mat::repr_c::column_major as cm;
use vek::mat::repr_c::row_major as rm;
use vek::{Vec2, Vec3};

fn p2(s: &[Q]) -> Vec2<Q> { Vec2::new(s[0], s[1]) }
fn p3(s: &[Q]) -> Vec3<Q> { Vec3::new(s[0], s[1], s[2]) }
fn e2(v: Vec2<Q>) -> Value { evs(&[v.x, v.y]) }
fn e3(v: Vec3<Q>) -> Value { evs(&[v.x, v.y, v.z]) }
fn pts(v: &[Vec<Q>]) -> Value { Value::Array(v.iter().map(|p| evs(p)).collect()) }

/// Uniform access to the four curve types.
pub trait Bez: Copy {
    const DEG: usize;
    const DIM: usize;
    const NAME: &'static str;
    fn from_pts(p: &[Vec<Q>]) -> Self;
    fn to_pts(&self) -> Vec<Vec<Q>>;
    fn eval(self, t: Q) -> Vec<Q>;
    fn deriv(self, t: Q) -> Vec<Q>;
    fn split2(self, t: Q) -> [Self; 2];
    fn ntan(self, t: Q) -> Vec<Q>;
}
macro_rules! bez {
    ($B:ident, $deg:expr, $dim:expr, $mk:ident, $ev:ident, [$($f:ident),+]) => {
        impl Bez for $B<Q> {
            const DEG: usize = $deg; const DIM: usize = $dim; const NAME: &'static str = stringify!($B);
            fn from_pts(p: &[Vec<Q>]) -> Self { let mut i = 0; $B { $($f: { i += 1; $mk(&p[i - 1]) }),+ } }
            fn to_pts(&self) -> Vec<Vec<Q>> { vec![$(self.$f.into_iter().collect::<Vec<Q>>()),+] }
            fn eval(self, t: Q) -> Vec<Q> { self.evaluate(t).into_iter().collect() }
            fn deriv(self, t: Q) -> Vec<Q> { self.evaluate_derivative(t).into_iter().collect() }
            fn split2(self, t: Q) -> [Self; 2] { self.split(t) }
            fn ntan(self, t: Q) -> Vec<Q> { self.normalized_tangent(t).into_iter().collect() }
        }
    };
}
bez!(QuadraticBezier2, 2, 2, p2, e2, [start, ctrl, end]);
bez!(QuadraticBezier3, 2, 3, p3, e3, [start, ctrl, end]);
bez!(CubicBezier2, 3, 2, p2, e2, [start, ctrl0, ctrl1, end]);
bez!(CubicBezier3, 3, 3, p3, e3, [start, ctrl0, ctrl1, end]);

fn rand_pts(d: &mut Drv, n: usize, dim: usize) -> Vec<Vec<Q>> { (0..n).map(|_| d.vecn(dim)).collect() }

fn basics<B: Bez>(d: &mut Drv) {
    let mut c = rand_pts(d, B::DEG + 1, B::DIM);
    // curves that earlier calls produced rather than a constructor: very small / very large pieces (a sub-curve after many
    // splits, a curve scaled by a matrix), a handle collapsed on its end point (derivative exactly zero there)
    let mut t = Q::frac(d.rng.gen_range(-4..=12), 8);
    match d.pick(6) {
        0 => { let k = Q::new(1, 1i128 << 30); for p in c.iter_mut() { for x in p.iter_mut() { *x = *x * k; } } }
        1 => { let k = Q::new(1i128 << 20, 1); for p in c.iter_mut() { for x in p.iter_mut() { *x = *x * k; } } }
        2 => { c[1] = c[0].clone(); t = Q::int(0); }
        3 => { let n = c.len(); c[n - 2] = c[n - 1].clone(); t = Q::int(1); }
        _ => {}
    }
    let c = c;
    let b = B::from_pts(&c);
    // parameters inside and outside [0,1]
    let arg = || json!({"ty": B::NAME, "pts": pts(&c), "t": ev(t)});
    d.call("bez_eval", arg, || evs(&b.eval(t)));
    d.call("bez_deriv", arg, || evs(&b.deriv(t)));
    d.call("bez_split", arg, || { let [f, s] = b.split2(t); json!([pts(&f.to_pts()), pts(&s.to_pts())]) });
    // normalized tangent: the last control point is solved for so that the derivative at t is a chosen vector D of
    // rational length `len` (a scaled Pythagorean triple); the specification checks |obs| = 1 and obs * len = D
    let t = Q::frac([1, 2, 3, 4, 5, 6, 7, 8, 10, -2][d.pick(10)], 8);
    let (dv, len) = loop {
        let (v, l) = pyth3(&mut d.rng);
        let v: Vec<Q> = v[..B::DIM].to_vec();
        if B::DIM == 3 { break (v, l); }
        if let Some(l2) = (v[0] * v[0] + v[1] * v[1]).sqrt_exact() { if l2 != Q::int(0) { break (v, l2); } }
    };
    let mut c = rand_pts(d, B::DEG + 1, B::DIM);
    let u = Q::int(1) - t;
    for k in 0..B::DIM {
        if B::DEG == 2 {
            // D = 2[(1-t)(c1-c0) + t(c2-c1)]
            c[2][k] = c[1][k] + (dv[k] / Q::int(2) - u * (c[1][k] - c[0][k])) / t;
        } else {
            // D = 3[(1-t)^2 (c1-c0) + 2t(1-t)(c2-c1) + t^2 (c3-c2)]
            c[3][k] = c[2][k] + (dv[k] / Q::int(3) - u * u * (c[1][k] - c[0][k]) - Q::int(2) * t * u * (c[2][k] - c[1][k])) / (t * t);
        }
    }
    let b = B::from_pts(&c);
    d.call("bez_tangent", || json!({"ty": B::NAME, "pts": pts(&c), "t": ev(t), "len": ev(len)}), || evs(&b.ntan(t)));
}

macro_rules! conv2 {
    ($d:expr, $B:ident, $how:expr, $c:expr, $f:expr) => {{
        let c: &Vec<Vec<Q>> = $c;
        $d.call("bez_conv", || json!({"ty": <$B<Q> as Bez>::NAME, "how": $how, "pts": pts(c)}), || { let b = <$B<Q> as Bez>::from_pts(c); pts(&$f(b)) });
    }};
}

fn conversions(d: &mut Drv) {
    let q2 = rand_pts(d, 3, 2);
    let q3 = rand_pts(d, 3, 3);
    let c2 = rand_pts(d, 4, 2);
    let c3 = rand_pts(d, 4, 3);
    conv2!(d, QuadraticBezier2, "into_cubic", &q2, |b: QuadraticBezier2<Q>| b.into_cubic().to_pts());
    conv2!(d, QuadraticBezier3, "into_cubic", &q3, |b: QuadraticBezier3<Q>| b.into_cubic().to_pts());
    conv2!(d, QuadraticBezier3, "into_cubic", &q3, |b: QuadraticBezier3<Q>| CubicBezier3::from(b).to_pts());
    conv2!(d, QuadraticBezier2, "reversed", &q2, |b: QuadraticBezier2<Q>| b.reversed().to_pts());
    conv2!(d, QuadraticBezier3, "reversed", &q3, |b: QuadraticBezier3<Q>| { let mut x = b; x.reverse(); x.to_pts() });
    conv2!(d, CubicBezier2, "reversed", &c2, |b: CubicBezier2<Q>| { let mut x = b; x.reverse(); x.to_pts() });
    conv2!(d, CubicBezier3, "reversed", &c3, |b: CubicBezier3<Q>| b.reversed().to_pts());
    conv2!(d, QuadraticBezier2, "into_3d", &q2, |b: QuadraticBezier2<Q>| b.into_3d().to_pts());
    conv2!(d, CubicBezier2, "into_3d", &c2, |b: CubicBezier2<Q>| b.into_3d().to_pts());
    conv2!(d, QuadraticBezier3, "into_2d", &q3, |b: QuadraticBezier3<Q>| b.into_2d().to_pts());
    conv2!(d, CubicBezier3, "into_2d", &c3, |b: CubicBezier3<Q>| b.into_2d().to_pts());
    conv2!(d, QuadraticBezier2, "flip_x", &q2, |b: QuadraticBezier2<Q>| b.flipped_x().to_pts());
    conv2!(d, CubicBezier2, "flip_y", &c2, |b: CubicBezier2<Q>| { let mut x = b; x.flip_y(); x.to_pts() });
    conv2!(d, QuadraticBezier3, "flip_y", &q3, |b: QuadraticBezier3<Q>| b.flipped_y().to_pts());
    conv2!(d, CubicBezier3, "flip_x", &c3, |b: CubicBezier3<Q>| { let mut x = b; x.flip_x(); x.to_pts() });
    conv2!(d, QuadraticBezier3, "flip_z", &q3, |b: QuadraticBezier3<Q>| { let mut x = b; x.flip_z(); x.to_pts() });
    conv2!(d, CubicBezier3, "flip_z", &c3, |b: CubicBezier3<Q>| b.flipped_z().to_pts());
    conv2!(d, QuadraticBezier2, "identity", &q2, |b: QuadraticBezier2<Q>| { let v = b.into_vec3(); QuadraticBezier2::from(v).to_pts() });
    conv2!(d, CubicBezier3, "identity", &c3, |b: CubicBezier3<Q>| { let v = b.into_vec4(); CubicBezier3::from(v).to_pts() });
    conv2!(d, CubicBezier2, "identity", &c2, |b: CubicBezier2<Q>| { let a = b.into_array(); vec![a[0].into_iter().collect(), a[1].into_iter().collect(), a[2].into_iter().collect(), a[3].into_iter().collect()] });
    conv2!(d, QuadraticBezier3, "identity", &q3, |b: QuadraticBezier3<Q>| { let (a, bb, c) = b.into_tuple(); vec![a.into_iter().collect(), bb.into_iter().collect(), c.into_iter().collect()] });
    // from a line segment / range (only the two end points are inputs)
    let s2 = rand_pts(d, 2, 2);
    let s3 = rand_pts(d, 2, 3);
    let seg = |how: &str, ty: &str, s: &Vec<Vec<Q>>| json!({"ty": ty, "how": how, "pts": pts(s)});
    d.call("bez_conv", || seg("from_segment", "QuadraticBezier2", &s2), || pts(&QuadraticBezier2::from(LineSegment2 { start: p2(&s2[0]), end: p2(&s2[1]) }).to_pts()));
    d.call("bez_conv", || seg("from_segment", "QuadraticBezier3", &s3), || pts(&QuadraticBezier3::from(p3(&s3[0])..p3(&s3[1])).to_pts()));
    d.call("bez_conv", || seg("from_segment", "CubicBezier2", &s2), || pts(&CubicBezier2::from(p2(&s2[0])..p2(&s2[1])).to_pts()));
    d.call("bez_conv", || seg("from_segment", "CubicBezier3", &s3), || pts(&CubicBezier3::from(LineSegment3 { start: p3(&s3[0]), end: p3(&s3[1]) }).to_pts()));
    // coefficient matrices
    d.call("bez_matrix", || json!({"deg": 2}), || evm(&MatT::rows(&QuadraticBezier2::<Q>::matrix())));
    d.call("bez_matrix", || json!({"deg": 2}), || evm(&MatT::rows(&QuadraticBezier3::<Q>::matrix())));
    d.call("bez_matrix", || json!({"deg": 3}), || evm(&MatT::rows(&CubicBezier2::<Q>::matrix())));
    d.call("bez_matrix", || json!({"deg": 3}), || evm(&MatT::rows(&CubicBezier3::<Q>::matrix())));
    // matrices acting on curves, both layouts
    macro_rules! mul {
        ($M:ident, $n:expr, $B:ident, $c:expr) => {{
            let a: Vec<Vec<Q>> = if $n == <$B<Q> as Bez>::DIM { d.matn($n) } else {
                let mut m: Vec<Vec<Q>> = d.matn($n);
                for j in 0..$n { m[$n - 1][j] = Q::int((j == $n - 1) as i64); }   // affine: last row 0..0 1
                m };
            let c: &Vec<Vec<Q>> = $c;
            d.call("bez_mul", || json!({"ty": <$B<Q> as Bez>::NAME, "n": $n, "lay": "r", "a": evm(&a), "pts": pts(c)}), || pts(&(rm::$M::<Q>::from_rows(&a) * <$B<Q> as Bez>::from_pts(c)).to_pts()));
            d.call("bez_mul", || json!({"ty": <$B<Q> as Bez>::NAME, "n": $n, "lay": "c", "a": evm(&a), "pts": pts(c)}), || pts(&(cm::$M::<Q>::from_rows(&a) * <$B<Q> as Bez>::from_pts(c)).to_pts()));
        }};
    }
    mul!(Mat2, 2, QuadraticBezier2, &q2); mul!(Mat2, 2, CubicBezier2, &c2);
    mul!(Mat3, 3, QuadraticBezier2, &q2); mul!(Mat3, 3, CubicBezier2, &c2);
    mul!(Mat3, 3, QuadraticBezier3, &q3); mul!(Mat3, 3, CubicBezier3, &c3);
    mul!(Mat4, 4, QuadraticBezier3, &q3); mul!(Mat4, 4, CubicBezier3, &c3);
}

/// unit quarter circle / unit circle on f64: sampled points, scaled by 2^14
fn circles(d: &mut Drv) {
    let s = 16384.0f64;
    let r = |x: f64| (x * s).round() as i64;
    let q = CubicBezier2::<f64>::unit_quarter_circle();
    let samples = |c: CubicBezier2<f64>| -> Value { Value::Array((0..=64).map(|i| { let p = c.evaluate(i as f64 / 64.0); json!([r(p.x), r(p.y)]) }).collect()) };
    d.call("bez_circle", || json!({"quadrant": [1, 1], "ctrl": [[r(q.start.x), r(q.start.y)], [r(q.ctrl0.x), r(q.ctrl0.y)], [r(q.ctrl1.x), r(q.ctrl1.y)], [r(q.end.x), r(q.end.y)]]}), || samples(q));
    let signs = [[1, 1], [-1, 1], [-1, -1], [1, -1]];
    let all = CubicBezier2::<f64>::unit_circle();
    for (i, c) in all.iter().enumerate() {
        let c = *c;
        d.call("bez_circle", || json!({"quadrant": signs[i], "ctrl": [[r(c.start.x), r(c.start.y)], [r(c.ctrl0.x), r(c.ctrl0.y)], [r(c.ctrl1.x), r(c.ctrl1.y)], [r(c.end.x), r(c.end.y)]]}), || samples(c));
    }
    let q3 = CubicBezier3::<f32>::unit_quarter_circle();
    let s3 = |c: CubicBezier3<f32>| -> Value { Value::Array((0..=64).map(|i| { let p = c.evaluate(i as f32 / 64.0); json!([r(p.x as f64), r(p.y as f64)]) }).collect()) };
    d.call("bez_circle", || json!({"quadrant": [1, 1], "ctrl": [[r(q3.start.x as f64), r(q3.start.y as f64)], [r(q3.ctrl0.x as f64), r(q3.ctrl0.y as f64)], [r(q3.ctrl1.x as f64), r(q3.ctrl1.y as f64)], [r(q3.end.x as f64), r(q3.end.y as f64)]]}), || s3(q3));
}

pub fn drive_bezier(args: &[String]) {
    let n: usize = arg_or(args, "--n", "30").parse().unwrap();
    let seed: u64 = arg_or(args, "--seed", "1").parse().unwrap();
    let mut d = Drv::new(&arg(args, "--out").expect("--out"), seed);
    circles(&mut d);
    for _ in 0..n {
        basics::<QuadraticBezier2<Q>>(&mut d); basics::<QuadraticBezier3<Q>>(&mut d);
        basics::<CubicBezier2<Q>>(&mut d); basics::<CubicBezier3<Q>>(&mut d);
        conversions(&mut d);
    }
    d.finish(arg(args, "--summary"));
}

// ---------------------------------------------------------------------------
// C15 (exact pairs): curves constructed from chosen derivative roots

const ROOTS: [(i64, i64); 12] = [(-1, 2), (0, 1), (1, 4), (1, 3), (1, 2), (2, 3), (3, 4), (1, 1), (3, 2), (2, 1), (-1, 1), (1, 8)];
fn rootq(d: &mut Drv) -> Q { let (n, m) = ROOTS[d.pick(ROOTS.len())]; Q::frac(n, m) }
fn ampl(d: &mut Drv) -> Q { Q::int([1, -1, 2, -2, 3, -3][d.pick(6)]) }

/// One coordinate of a curve of degree `deg`: (control values, real roots of its derivative), built
/// from a chosen class of derivative: two real roots (distinct or double), no real root, linear,
/// non-zero constant, identically zero.
fn coord(d: &mut Drv, deg: usize) -> (Vec<Q>, Vec<Q>) {
    let c0 = Q::int(d.rng.gen_range(-3..=3));
    let third = Q::frac(1, 3);
    if deg == 3 {
        // f' = A t^2 + B t + C, f = c0 + C t + (B/2) t^2 + (A/3) t^3
        let (a, b, c, roots): (Q, Q, Q, Vec<Q>) = match d.pick(8) {
            0 | 1 | 2 => { let (k, r1, r2) = (ampl(d), rootq(d), rootq(d)); (Q::int(3) * k, -(Q::int(3) * k) * (r1 + r2), Q::int(3) * k * r1 * r2, vec![r1, r2]) }
            3 => { let (k, r) = (ampl(d), rootq(d)); (Q::int(3) * k, -(Q::int(6) * k) * r, Q::int(3) * k * r * r, vec![r, r]) }
            4 => { let (k, p, q) = (ampl(d), rootq(d), Q::frac(d.rng.gen_range(1..=3), 4)); (Q::int(3) * k, -(Q::int(6) * k) * p, Q::int(3) * k * (p * p + q), vec![]) }
            5 | 6 => { let (k, r) = (ampl(d), rootq(d)); (Q::int(0), Q::int(2) * k, -(Q::int(2) * k) * r, vec![r]) }
            _ => { let k = if d.pick(2) == 0 { Q::int(0) } else { ampl(d) }; (Q::int(0), Q::int(0), k, vec![]) }
        };
        let (c1, c2, c3) = (c, b / Q::int(2), a * third);
        (vec![c0, c0 + c1 * third, c0 + c1 * Q::frac(2, 3) + c2 * third, c0 + c1 + c2 + c3], roots)
    } else {
        let (b, c, roots): (Q, Q, Vec<Q>) = match d.pick(4) {
            0 | 1 | 2 => { let (k, r) = (ampl(d), rootq(d)); (Q::int(2) * k, -(Q::int(2) * k) * r, vec![r]) }
            _ => { let k = if d.pick(2) == 0 { Q::int(0) } else { ampl(d) }; (Q::int(0), k, vec![]) }
        };
        let (c1, c2) = (c, b / Q::int(2));
        (vec![c0, c0 + c1 / Q::int(2), c0 + c1 + c2], roots)
    }
}
fn build_curve(d: &mut Drv, deg: usize, dim: usize) -> (Vec<Vec<Q>>, Vec<Vec<Q>>) {
    let axes: Vec<(Vec<Q>, Vec<Q>)> = (0..dim).map(|_| coord(d, deg)).collect();
    let ptsv: Vec<Vec<Q>> = (0..=deg).map(|k| (0..dim).map(|a| axes[a].0[k]).collect()).collect();
    (ptsv, axes.into_iter().map(|x| x.1).collect())
}
fn crits(c: &[Vec<Q>]) -> Value { Value::Array(c.iter().map(|r| evs(r)).collect()) }

macro_rules! extrema_axis {
    ($d:expr, $b:expr, $name:expr, $c:expr, $cr:expr, $axis:expr, $min:ident, $max:ident, $bounds:ident, quad $infl:ident) => {{
        $d.call("bez_extrema", || json!({"ty": $name, "axis": $axis, "pts": pts($c), "crit": evs(&$cr[$axis - 1])}), || {
            let (lo, hi) = $b.$bounds();
            json!({"min": ev($b.$min()), "max": ev($b.$max()), "bounds": [ev(lo), ev(hi)], "infl": evs(&$b.$infl().into_iter().collect::<Vec<Q>>())})
        });
    }};
    ($d:expr, $b:expr, $name:expr, $c:expr, $cr:expr, $axis:expr, $min:ident, $max:ident, $bounds:ident, cubic $infl:ident) => {{
        $d.call("bez_extrema", || json!({"ty": $name, "axis": $axis, "pts": pts($c), "crit": evs(&$cr[$axis - 1])}), || {
            let (lo, hi) = $b.$bounds();
            let infl: Vec<Q> = match $b.$infl() { None => vec![], Some((a, None)) => vec![a], Some((a, Some(bb))) => vec![a, bb] };
            json!({"min": ev($b.$min()), "max": ev($b.$max()), "bounds": [ev(lo), ev(hi)], "infl": evs(&infl)})
        });
    }};
}

fn extrema(d: &mut Drv) {
    let (c, cr) = build_curve(d, 2, 2);
    let b = QuadraticBezier2::from_pts(&c);
    extrema_axis!(d, b, "QuadraticBezier2", &c, &cr, 1, min_x, max_x, x_bounds, quad x_inflection);
    extrema_axis!(d, b, "QuadraticBezier2", &c, &cr, 2, min_y, max_y, y_bounds, quad y_inflection);
    d.call("bez_bounds", || json!({"ty": "QuadraticBezier2", "pts": pts(&c), "crits": crits(&cr)}), || { let r = b.aabr(); json!({"min": e2(r.min), "max": e2(r.max)}) });
    let (c, cr) = build_curve(d, 2, 3);
    let b = QuadraticBezier3::from_pts(&c);
    extrema_axis!(d, b, "QuadraticBezier3", &c, &cr, 1, min_x, max_x, x_bounds, quad x_inflection);
    extrema_axis!(d, b, "QuadraticBezier3", &c, &cr, 2, min_y, max_y, y_bounds, quad y_inflection);
    extrema_axis!(d, b, "QuadraticBezier3", &c, &cr, 3, min_z, max_z, z_bounds, quad z_inflection);
    d.call("bez_bounds", || json!({"ty": "QuadraticBezier3", "pts": pts(&c), "crits": crits(&cr)}), || { let r = b.aabb(); json!({"min": e3(r.min), "max": e3(r.max)}) });
    d.call("bez_bounds", || json!({"ty": "QuadraticBezier3/aabr", "pts": pts(&c), "crits": crits(&cr[..2])}), || { let r = b.aabr(); json!({"min": e2(r.min), "max": e2(r.max)}) });
    let (c, cr) = build_curve(d, 3, 2);
    let b = CubicBezier2::from_pts(&c);
    extrema_axis!(d, b, "CubicBezier2", &c, &cr, 1, min_x, max_x, x_bounds, cubic x_inflections);
    extrema_axis!(d, b, "CubicBezier2", &c, &cr, 2, min_y, max_y, y_bounds, cubic y_inflections);
    d.call("bez_bounds", || json!({"ty": "CubicBezier2", "pts": pts(&c), "crits": crits(&cr)}), || { let r = b.aabr(); json!({"min": e2(r.min), "max": e2(r.max)}) });
    let (c, cr) = build_curve(d, 3, 3);
    let b = CubicBezier3::from_pts(&c);
    extrema_axis!(d, b, "CubicBezier3", &c, &cr, 1, min_x, max_x, x_bounds, cubic x_inflections);
    extrema_axis!(d, b, "CubicBezier3", &c, &cr, 2, min_y, max_y, y_bounds, cubic y_inflections);
    extrema_axis!(d, b, "CubicBezier3", &c, &cr, 3, min_z, max_z, z_bounds, cubic z_inflections);
    d.call("bez_bounds", || json!({"ty": "CubicBezier3", "pts": pts(&c), "crits": crits(&cr)}), || { let r = b.aabb(); json!({"min": e3(r.min), "max": e3(r.max)}) });
}

fn searches(d: &mut Drv) {
    // Integer control points, query on the integer grid, eps >= 1/8 and power-of-two step counts: every
    // parameter the search visits is a multiple of 1/8, so 8^deg * point is an integer vector; the record
    // carries these scaled integers (ring of integers on the TLA+ side, no 32-bit overflow).
    macro_rules! one {
        ($B:ident, $deg:expr, $dim:expr, $mk:ident, $P:ident) => {{
            let c: Vec<Vec<Q>> = (0..=$deg).map(|_| (0..$dim).map(|_| Q::int(d.rng.gen_range(-4..=4))).collect()).collect();
            let b = <$B<Q> as Bez>::from_pts(&c);
            let p: Vec<Q> = (0..$dim).map(|_| Q::int(d.rng.gen_range(-5..=5))).collect();
            let steps: u16 = [2, 4][d.pick(2)];
            let eps = Q::frac(1, [2, 4, 8][d.pick(3)]);
            let scale = Q::int(8i64.pow($deg));
            let ints = |v: &[Q]| -> Value { Value::Array(v.iter().map(|x| { if !x.is_int() { crate::q::inconclusive("not an integer") } json!(x.n as i64) }).collect()) };
            let o = |r: (Q, $P<Q>)| -> Value { let (t, pt) = r; json!([ints(&[t * Q::int(8)])[0], ints(&pt.into_iter().map(|x| x * scale).collect::<Vec<Q>>())]) };
            let cpts = Value::Array(c.iter().map(|q| ints(q)).collect());
            d.call("bez_search", || json!({"ty": <$B<Q> as Bez>::NAME, "pts": cpts.clone(), "p": ints(&p), "steps": steps, "coarse": [], "eps8": ints(&[eps * Q::int(8)])[0]}),
                   || o(b.binary_search_point_by_steps($mk(&p), steps, eps)));
            // explicit coarse samples (parameter * 8, point * 8^deg)
            let ts = [Q::frac(1, 4), Q::frac(3, 4), Q::frac(1, 8)];
            let coarse: Vec<(Q, $P<Q>)> = ts.iter().map(|t| (*t, b.evaluate(*t))).collect();
            let cj = Value::Array(coarse.iter().map(|(t, q)| json!([ints(&[*t * Q::int(8)])[0], ints(&(*q).into_iter().map(|x| x * scale).collect::<Vec<Q>>())])).collect());
            d.call("bez_search", || json!({"ty": <$B<Q> as Bez>::NAME, "pts": cpts.clone(), "p": ints(&p), "steps": 0, "coarse": cj, "eps8": ints(&[eps * Q::int(8)])[0]}),
                   || o(b.binary_search_point($mk(&p), coarse.clone(), Q::frac(1, 4), eps)));
        }};
    }
    one!(QuadraticBezier2, 2, 2, p2, Vec2); one!(QuadraticBezier3, 2, 3, p3, Vec3); one!(CubicBezier2, 3, 2, p2, Vec2); one!(CubicBezier3, 3, 3, p3, Vec3);
}

pub fn drive_bezext(args: &[String]) {
    let n: usize = arg_or(args, "--n", "30").parse().unwrap();
    let seed: u64 = arg_or(args, "--seed", "1").parse().unwrap();
    let mut d = Drv::new(&arg(args, "--out").expect("--out"), seed);
    set_pair_mode(true);
    for _ in 0..n { extrema(&mut d); }
    d.finish(arg(args, "--summary"));
}

/// discretised length on f64 / f32: integer control points, lengths scaled by 256
pub fn drive_bezlen(args: &[String]) {
    let n: usize = arg_or(args, "--n", "30").parse().unwrap();
    let seed: u64 = arg_or(args, "--seed", "1").parse().unwrap();
    let mut d = Drv::new(&arg(args, "--out").expect("--out"), seed);
    let sc = |x: f64| (x * 256.0).round() as i64;
    for _ in 0..n {
        searches(&mut d);
        macro_rules! one {
            ($B:ident, $P:ident, $deg:expr, $dim:expr, [$($f:ident),+]) => {{
                let c: Vec<Vec<i64>> = (0..=$deg).map(|_| (0..$dim).map(|_| d.rng.gen_range(-8..=8)).collect()).collect();
                let mut i = 0;
                let b = $B::<f64> { $($f: { i += 1; $P::from_slice(&c[i - 1].iter().map(|x| *x as f64).collect::<Vec<f64>>()) }),+ };
                let len = |p: &Vec<i64>, q: &Vec<i64>| -> i64 { sc(p.iter().zip(q).map(|(a, b)| ((a - b) * (a - b)) as f64).sum::<f64>().sqrt()) };
                let legs: Vec<i64> = (0..$deg).map(|k| len(&c[k], &c[k + 1])).collect();
                let s0: u16 = d.rng.gen_range(0..4);
                d.call("bez_length", || json!({"ty": stringify!($B), "pts": c, "chord": len(&c[0], &c[$deg]), "legs": legs, "steps0": s0}), || {
                    // s, 2s+1, 4s+3 steps: each partition refines the previous one
                    let (s1, s2, s3) = (s0, 2 * s0 + 1, 4 * s0 + 3);
                    json!([sc(b.length_by_discretization(s1)), sc(b.length_by_discretization(s2)), sc(b.length_by_discretization(s3))])
                });
            }};
        }
        one!(QuadraticBezier2, Vec2, 2, 2, [start, ctrl, end]);
        one!(QuadraticBezier3, Vec3, 2, 3, [start, ctrl, end]);
        one!(CubicBezier2, Vec2, 3, 2, [start, ctrl0, ctrl1, end]);
        one!(CubicBezier3, Vec3, 3, 3, [start, ctrl0, ctrl1, end]);
        // degree elevation on floats: a quadratic with NON-DYADIC coordinates (tenths) turned into a cubic by into_cubic();
        // the cubic is the same curve, so its bounding box is the quadratic's (known in closed form), although its leading
        // derivative coefficient is a rounding residue instead of 0.  Boxes are logged as round(coordinate * 10 * 1024).
        {
            let k: Vec<Vec<i64>> = (0..3).map(|_| (0..3).map(|_| d.rng.gen_range(-80..=80)).collect()).collect();
            let sb = |x: f64| if x.is_finite() { (x * 10240.0).round() as i64 } else { 1 << 30 };
            let p2 = |i: usize| Vec2::new(k[i][0] as f64 / 10.0, k[i][1] as f64 / 10.0);
            let p3 = |i: usize| Vec3::new(k[i][0] as f64 / 10.0, k[i][1] as f64 / 10.0, k[i][2] as f64 / 10.0);
            let q2 = QuadraticBezier2 { start: p2(0), ctrl: p2(1), end: p2(2) };
            let q3 = QuadraticBezier3 { start: p3(0), ctrl: p3(1), end: p3(2) };
            let k2: Vec<Vec<i64>> = k.iter().map(|r| r[..2].to_vec()).collect();
            // pieces split off at one of the curve's own extrema (the derivative vanishes, up to rounding, at the cut): every
            // sampled point of a piece lies inside the piece's bounding box; logged: the largest excess * 2^30
            {
                let kc: Vec<Vec<i64>> = (0..4).map(|_| (0..2).map(|_| d.rng.gen_range(-80..=80)).collect()).collect();
                let pc = |i: usize| Vec2::new(kc[i][0] as f64 / 10.0, kc[i][1] as f64 / 10.0);
                let c = CubicBezier2 { start: pc(0), ctrl0: pc(1), ctrl1: pc(2), end: pc(3) };
                let mut cuts: Vec<f64> = vec![];
                for infl in [c.x_inflections(), c.y_inflections()] { if let Some((t1, t2)) = infl { cuts.push(t1); if let Some(t2) = t2 { cuts.push(t2); } } }
                for (ci, t) in cuts.iter().enumerate() {
                    let [first, second] = c.split(*t);
                    for (name, piece) in [("first", first), ("second", second), ("first/rev", CubicBezier2 { start: first.end, ctrl0: first.ctrl1, ctrl1: first.ctrl0, end: first.start })] {
                        d.call("bez_piece_box_f", || json!({"ty": "CubicBezier2<f64>", "k": kc, "cut": ci as i64, "piece": name}), || {
                            let b = piece.aabr();
                            let mut worst = 0f64;
                            for s in 0..=64 { let q = piece.evaluate(s as f64 / 64.0);
                                for (v, lo, hi) in [(q.x, b.min.x, b.max.x), (q.y, b.min.y, b.max.y)] { worst = worst.max(lo - v).max(v - hi); } }
                            json!(if worst.is_finite() { (worst * 1073741824.0).round() as i64 } else { 1i64 << 40 })
                        });
                    }
                }
            }
            d.call("bez_elev_f", || json!({"ty": "CubicBezier2<f64>", "k": k2}), || { let b = q2.into_cubic().aabr(); json!({"min": [sb(b.min.x), sb(b.min.y)], "max": [sb(b.max.x), sb(b.max.y)]}) });
            d.call("bez_elev_f", || json!({"ty": "QuadraticBezier2<f64>", "k": k2}), || { let b = q2.aabr(); json!({"min": [sb(b.min.x), sb(b.min.y)], "max": [sb(b.max.x), sb(b.max.y)]}) });
            d.call("bez_elev_f", || json!({"ty": "CubicBezier3<f64>", "k": k}), || { let b = q3.into_cubic().aabb(); json!({"min": [sb(b.min.x), sb(b.min.y), sb(b.min.z)], "max": [sb(b.max.x), sb(b.max.y), sb(b.max.z)]}) });
        }
    }
    d.finish(arg(args, "--summary"));
}
