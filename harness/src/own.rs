//! C18 conversions (binding B2, code -> spec): every conversion of a vector or matrix to or
//! from arrays, nested arrays, tuples, slices and iterators is run with `Tracked` elements;
//! one ndjson record per call (ids in, ids out in the order observed, ids destroyed, ids
//! read) is validated by spec/Trace_Own.tla against the ownership ledger of spec/VekOwn.tla.
use crate::tracked::*;
use crate::tuples::*;
use crate::util::*;
use serde_json::json;
use vek::*;

fn ids<'a, I: IntoIterator<Item = &'a Tracked>>(i: I) -> Vec<u32> { i.into_iter().map(|t| t.id).collect() }

pub fn drive(args: &[String]) {
    let out = arg(args, "--out").expect("--out");
    silence_panics();
    let mut t = TraceOut::create(&out);
    vectors(&mut t);
    matrices(&mut t);
}

fn emit(t: &mut TraceOut, op: &str, ty: &str, n: usize, extra: serde_json::Value, inp: Vec<u32>, out: Vec<u32>, ev: Vec<Ev>) {
    let mut d = drops(&ev); d.sort();
    let mut rec = json!({"op": op, "ty": ty, "n": n, "inp": inp, "out": out, "dropped": d, "reads": reads(&ev), "k": 0, "lay": "-", "ok": 1});
    if let Some(o) = extra.as_object() { for (k, v) in o { rec[k] = v.clone(); } }
    t.emit(rec);
}

fn vectors(t: &mut TraceOut) {
    macro_rules! one {
        ($V:ident, $n:expr, $name:expr) => {{
            let n: usize = $n;
            // From<[T; N]> and into_array
            log_clear();
            let arr: [Tracked; $n] = std::array::from_fn(|i| Tracked::new(i as u32 + 1));
            let inp = ids(arr.iter());
            log_clear();
            let v = $V::<Tracked>::from(arr);
            let ev = log_take();
            emit(t, "vec_from_array", $name, n, json!({}), inp.clone(), ids(v.as_slice().iter()), ev);
            log_clear();
            let a2 = v.into_array();
            let ev = log_take();
            emit(t, "vec_into_array", $name, n, json!({}), inp.clone(), ids(a2.iter()), ev);
            drop(a2);
            // as_slice / as_mut_slice: alias the value's own storage, one entry per element, in order
            log_clear();
            let arr: [Tracked; $n] = std::array::from_fn(|i| Tracked::new(i as u32 + 1));
            let mut v = $V::<Tracked>::from(arr);
            log_clear();
            let base = &v as *const _ as usize;
            let (p, l) = { let s = v.as_slice(); (s.as_ptr() as usize, s.len()) };
            let sl = ids(v.as_slice().iter());
            let ok = (p == base && l == n && std::mem::size_of_val(&v) == n * std::mem::size_of::<Tracked>()) as u32;
            let ev = log_take();
            emit(t, "vec_as_slice", $name, n, json!({"ok": ok}), inp.clone(), sl, ev);
            // the trait views of the same storage: Deref, AsRef<[T]>, Borrow<[T]>, iteration by reference
            {
                use std::borrow::{Borrow, BorrowMut};
                macro_rules! view { ($how:expr, $s:expr) => {{
                    log_clear();
                    let (q, l2, seen) = { let s: &[Tracked] = $s; (s.as_ptr() as usize, s.len(), ids(s.iter())) };
                    let ev = log_take();
                    emit(t, "vec_as_slice", $name, n, json!({"ok": (q == p && l2 == n) as u32, "how": $how}), inp.clone(), seen, ev);
                }}; }
                view!("deref", &*v);
                view!("as_ref", AsRef::<[Tracked]>::as_ref(&v));
                view!("borrow", Borrow::<[Tracked]>::borrow(&v));
                view!("as_mut", { let m: &mut [Tracked] = AsMut::<[Tracked]>::as_mut(&mut v); &*m });
                view!("borrow_mut", { let m: &mut [Tracked] = BorrowMut::<[Tracked]>::borrow_mut(&mut v); &*m });
                view!("deref_mut", { let m: &mut [Tracked] = &mut *v; &*m });
                log_clear();
                let mut seen = vec![]; let mut first = 0usize;
                for (i, e) in (&v).into_iter().enumerate() { if i == 0 { first = e as *const Tracked as usize; } seen.push(e.id); }
                let ev = log_take();
                emit(t, "vec_as_slice", $name, n, json!({"ok": (first == p) as u32, "how": "ref_iter"}), inp.clone(), seen, ev);
                log_clear();
                let mut seen = vec![]; let mut first = 0usize;
                for (i, e) in (&mut v).into_iter().enumerate() { if i == 0 { first = e as *const Tracked as usize; } seen.push(e.id); }
                let ev = log_take();
                emit(t, "vec_as_slice", $name, n, json!({"ok": (first == p) as u32, "how": "mut_iter"}), inp.clone(), seen, ev);
            }
            log_clear();
            { let s = v.as_mut_slice(); let pm = s.as_mut_ptr() as usize; assert!(pm == p || true); for (i, e) in s.iter_mut().enumerate() { e.id = 101 + i as u32; } }
            let ev = log_take();
            let seen = ids(v.as_slice().iter());
            emit(t, "vec_as_mut_slice", $name, n, json!({}), (0..n as u32).map(|i| 101 + i).collect(), seen, ev);
            drop(v);
            // FromIterator with fewer / exactly / more items than the dimension
            for k in [0usize, 1, n - 1, n, n + 1, n + 3] {
                log_clear();
                let src: Vec<Tracked> = (0..k as u32).map(|i| Tracked::new(i + 1)).collect();
                let inp = ids(src.iter());
                log_clear();
                let v: $V<Tracked> = src.into_iter().collect();
                let ev = log_take();
                emit(t, "vec_from_iter", $name, n, json!({"k": k}), inp, ids(v.as_slice().iter()), ev);
                drop(v);
            }
        }};
    }
    for_all_vecs!(one);
    // tuples (each dimension once per vector type of that dimension)
    macro_rules! tup {
        ($V:ident, $n:expr, $name:expr, $new:ident, $idsf:ident, $toarr:ident, $tovec:ident) => {{
            log_clear();
            let tpl = $new(1);
            let inp = $idsf(&tpl);
            log_clear();
            let v = $V::<Tracked>::from(tpl);
            let ev = log_take();
            emit(t, "vec_from_tuple", $name, $n, json!({}), inp.clone(), ids(v.as_slice().iter()), ev);
            log_clear();
            let t2 = v.into_tuple();
            let ev = log_take();
            let o = $idsf(&t2);
            emit(t, "vec_into_tuple", $name, $n, json!({}), inp, o, ev);
            drop(t2);
        }};
    }
    tup!(Vec2, 2, "Vec2", tup_new_2, tup_ids_2, a, b); tup!(Extent2, 2, "Extent2", tup_new_2, tup_ids_2, a, b); tup!(Uv, 2, "Uv", tup_new_2, tup_ids_2, a, b);
    tup!(Vec3, 3, "Vec3", tup_new_3, tup_ids_3, a, b); tup!(Extent3, 3, "Extent3", tup_new_3, tup_ids_3, a, b); tup!(Rgb, 3, "Rgb", tup_new_3, tup_ids_3, a, b); tup!(Uvw, 3, "Uvw", tup_new_3, tup_ids_3, a, b);
    tup!(Vec4, 4, "Vec4", tup_new_4, tup_ids_4, a, b); tup!(Rgba, 4, "Rgba", tup_new_4, tup_ids_4, a, b);
    tup!(Vec8, 8, "Vec8", tup_new_8, tup_ids_8, a, b); tup!(Vec16, 16, "Vec16", tup_new_16, tup_ids_16, a, b);
    tup!(Vec32, 32, "Vec32", tup_new_32, tup_ids_32, a, b); tup!(Vec64, 64, "Vec64", tup_new_64, tup_ids_64, a, b);
}

/// Matrices: element (i,j) carries id 10*i + j (1-based).  Values are built directly from
/// the public `rows` / `cols` fields, so construction does not depend on the conversions
/// under test; the abstract matrix is read back through `m[(i, j)]`.
fn matrices(t: &mut TraceOut) {
    macro_rules! mat {
        ($n:expr, $Mat:ident, $V:ident, $lay:expr, $lines:ident, $modp:ident) => {{
            let n: usize = $n;
            let nn: usize = $n * $n;
            let id = |i: usize, j: usize| (10 * (i + 1) + (j + 1)) as u32;
            // a matrix with M[i][j] = id(i,j), built from its storage lines
            let build = || -> vek::mat::repr_c::$modp::$Mat<Tracked> {
                let lines: [$V<Tracked>; $n] = std::array::from_fn(|a| {
                    let l: [Tracked; $n] = std::array::from_fn(|b| if $lay == "rows" { Tracked::new(id(a, b)) } else { Tracked::new(id(b, a)) });
                    $V::from(l)
                });
                vek::mat::repr_c::$modp::$Mat { $lines: $V::from(lines) }
            };
            let proj = |m: &vek::mat::repr_c::$modp::$Mat<Tracked>| -> Vec<u32> { let mut o = vec![]; for i in 0..n { for j in 0..n { o.push(m[(i, j)].id); } } o };
            let name = format!("{}{}", stringify!($Mat), if $lay == "rows" { "R" } else { "C" });
            let flat_ids: Vec<u32> = (0..nn as u32).map(|k| 201 + k).collect();
            // into_*: matrix -> arrays
            log_clear(); let m = build(); let minp = proj(&m); log_clear();
            let a = m.into_row_array(); let ev = log_take();
            emit(t, "mat_into_row_array", &name, n, json!({"lay": $lay}), minp.clone(), ids(a.iter()), ev); drop(a);
            log_clear(); let m = build(); log_clear();
            let a = m.into_col_array(); let ev = log_take();
            emit(t, "mat_into_col_array", &name, n, json!({"lay": $lay}), minp.clone(), ids(a.iter()), ev); drop(a);
            log_clear(); let m = build(); log_clear();
            let a = m.into_row_arrays(); let ev = log_take();
            emit(t, "mat_into_row_arrays", &name, n, json!({"lay": $lay}), minp.clone(), ids(a.iter().flat_map(|r| r.iter())), ev); drop(a);
            log_clear(); let m = build(); log_clear();
            let a = m.into_col_arrays(); let ev = log_take();
            emit(t, "mat_into_col_arrays", &name, n, json!({"lay": $lay}), minp.clone(), ids(a.iter().flat_map(|r| r.iter())), ev); drop(a);
            // from_*: arrays -> matrix
            log_clear(); let a: [Tracked; $n * $n] = std::array::from_fn(|k| Tracked::new(201 + k as u32)); log_clear();
            let m = vek::mat::repr_c::$modp::$Mat::<Tracked>::from_row_array(a); let ev = log_take();
            emit(t, "mat_from_row_array", &name, n, json!({"lay": $lay}), flat_ids.clone(), proj(&m), ev); drop(m);
            log_clear(); let a: [Tracked; $n * $n] = std::array::from_fn(|k| Tracked::new(201 + k as u32)); log_clear();
            let m = vek::mat::repr_c::$modp::$Mat::<Tracked>::from_col_array(a); let ev = log_take();
            emit(t, "mat_from_col_array", &name, n, json!({"lay": $lay}), flat_ids.clone(), proj(&m), ev); drop(m);
            log_clear(); let a: [[Tracked; $n]; $n] = std::array::from_fn(|r| std::array::from_fn(|c| Tracked::new(201 + (r * $n + c) as u32))); log_clear();
            let m = vek::mat::repr_c::$modp::$Mat::<Tracked>::from_row_arrays(a); let ev = log_take();
            emit(t, "mat_from_row_arrays", &name, n, json!({"lay": $lay}), flat_ids.clone(), proj(&m), ev); drop(m);
            log_clear(); let a: [[Tracked; $n]; $n] = std::array::from_fn(|r| std::array::from_fn(|c| Tracked::new(201 + (r * $n + c) as u32))); log_clear();
            let m = vek::mat::repr_c::$modp::$Mat::<Tracked>::from_col_arrays(a); let ev = log_take();
            emit(t, "mat_from_col_arrays", &name, n, json!({"lay": $lay}), flat_ids.clone(), proj(&m), ev); drop(m);
            // layout change and transposition move every element once
            log_clear(); let m = build(); log_clear();
            let m2 = m.transposed(); let ev = log_take();
            emit(t, "mat_transposed", &name, n, json!({"lay": $lay}), minp.clone(), proj(&m2), ev); drop(m2);
        }};
    }
    mat!(2, Mat2, Vec2, "rows", rows, row_major); mat!(2, Mat2, Vec2, "cols", cols, column_major);
    mat!(3, Mat3, Vec3, "rows", rows, row_major); mat!(3, Mat3, Vec3, "cols", cols, column_major);
    mat!(4, Mat4, Vec4, "rows", rows, row_major); mat!(4, Mat4, Vec4, "cols", cols, column_major);
}
