//! C13 / C16 drivers.  `drive boxes`: Aabr/Aabb/Rect/Rect3 on i32 with corners on the even grid and
//! query points on all integers (half grid), every pair of 2D boxes (valid and invalid) in the
//! thorough tier; `drive shapes`: disks / spheres on integer data (f32/f64), segments, rays, tangency
//! vectors and distances on exact rationals (pairs).
use crate::alg::*;
use crate::q::Q;
use crate::util::*;
use rand::Rng;
use serde_json::{json, Value};
use vek::geom::*;
use vek::*;

type B2 = Aabr<i32>;
type B3 = Aabb<i32>;
fn b2(c: [i32; 4]) -> B2 { Aabr { min: Vec2::new(c[0], c[1]), max: Vec2::new(c[2], c[3]) } }
fn b3(c: [i32; 6]) -> B3 { Aabb { min: Vec3::new(c[0], c[1], c[2]), max: Vec3::new(c[3], c[4], c[5]) } }
fn j2(b: B2) -> Value { json!({"min": [b.min.x, b.min.y], "max": [b.max.x, b.max.y]}) }
fn j3(b: B3) -> Value { json!({"min": [b.min.x, b.min.y, b.min.z], "max": [b.max.x, b.max.y, b.max.z]}) }
fn valid2(b: B2) -> bool { b.min.x <= b.max.x && b.min.y <= b.max.y }
fn valid3(b: B3) -> bool { b.min.x <= b.max.x && b.min.y <= b.max.y && b.min.z <= b.max.z }
fn pos2(b: B2) -> bool { b.min.x < b.max.x && b.min.y < b.max.y }
fn pos3(b: B3) -> bool { b.min.x < b.max.x && b.min.y < b.max.y && b.min.z < b.max.z }

/// binary operations of two boxes; the rectangle twins are run on the converted operands and must
/// give the same answer (logged as separate records, same expectation)
macro_rules! pair_ops {
    ($d:expr, $a:expr, $b:expr, $j:ident, $valid:ident, $pos:ident, $contains:ident, $collides:ident, $cvec:ident, $into_rect:ident,
     $contains_rect:ident, $collides_rect:ident, $cvec_rect:ident, $rj:expr) => {{
        let (a, b) = ($a, $b);
        let ab = |form: &str| json!({"a": $j(a), "b": $j(b), "form": form});
        if $valid(a) && $valid(b) {
            $d.call("union", || ab("box"), || $j(a.union(b)));
            $d.call("union", || ab("box/in-place"), || { let mut x = a; x.expand_to_contain(b); $j(x) });
            $d.call("union", || ab("rect"), || $j(a.$into_rect().union(b.$into_rect()).into()));
            $d.call("intersection", || ab("box"), || $j(a.intersection(b)));
            $d.call("intersection", || ab("box/in-place"), || { let mut x = a; x.intersect(b); $j(x) });
            $d.call("intersection", || ab("rect"), || { let mut x = a.$into_rect(); x.intersect(b.$into_rect()); $j(x.into()) });
            $d.call("contains_box", || ab("box"), || json!(a.$contains(b) as i64));
            $d.call("contains_box", || ab("rect"), || json!(a.$into_rect().$contains_rect(b.$into_rect()) as i64));
        }
        if $pos(a) && $pos(b) {
            $d.call("collides", || ab("box"), || json!(a.$collides(b) as i64));
            $d.call("collides", || ab("rect"), || json!(a.$into_rect().$collides_rect(b.$into_rect()) as i64));
            $d.call("collision_vector", || ab("box"), || $rj(a.$cvec(b)));
            $d.call("collision_vector", || ab("rect"), || $rj(a.$into_rect().$cvec_rect(b.$into_rect())));
        }
    }};
}

fn single2(d: &mut Drv, a: B2) {
    let arg = || json!({"a": j2(a)});
    d.call("is_valid", arg, || json!(a.is_valid() as i64));
    d.call("made_valid", arg, || j2(a.made_valid()));
    d.call("made_valid", arg, || { let mut x = a; x.make_valid(); j2(x) });
    d.call("map", arg, || j2(a.map(|v| 3 * v + 1)));
    d.call("map", arg, || { let r: Aabr<i64> = a.as_(); j2(r.map(|v| (3 * v + 1) as i32)) });
    d.call("box_to_rect", arg, || { let r = a.into_rect(); json!({"pos": [r.x, r.y], "ext": [r.w, r.h]}) });
    d.call("box_to_rect", arg, || { let r: Rect<i32, i32> = Rect::from(a); let (p, e) = r.position_extent(); json!({"pos": [p.x, p.y], "ext": [e.w, e.h]}) });
    if valid2(a) {
        let r = a.into_rect();
        d.call("rect_to_box", || json!({"pos": [r.x, r.y], "ext": [r.w, r.h]}), || j2(r.into_aabr()));
        d.call("rect_to_box", || json!({"pos": [r.x, r.y], "ext": [r.w, r.h]}), || j2(Aabr::from(Rect::new(r.x, r.y, r.w, r.h))));
        // field accessors and setters: set_position / set_extent overwrite exactly their half of the rectangle
        d.call("rect_to_box", || json!({"pos": [r.x, r.y], "ext": [r.w, r.h]}), || { let mut x = Rect::new(9, 9, 9, 9); x.set_position(r.position()); x.set_extent(r.extent()); j2(x.into_aabr()) });
        d.call("rect_to_box", || json!({"pos": [r.x, r.y], "ext": [r.w, r.h]}), || { let x: Rect<i32, i32> = Rect::from((r.position(), r.extent())); j2(x.map(|p| p, |e| e).into_aabr()) });
        d.call("rect_to_box", || json!({"pos": [r.x, r.y], "ext": [r.w, r.h]}), || { let x: Rect<i64, i64> = r.as_(); let b = x.into_aabr(); j2(b.as_()) });
        d.call("center_size", arg, || { let (c, s, h) = (a.center(), a.size(), a.half_size()); json!({"center": [c.x, c.y], "size": [s.w, s.h], "half": [h.w, h.h]}) });
        d.call("center_size", arg, || { let (c, s, h) = (r.center(), r.extent(), a.half_size()); json!({"center": [c.x, c.y], "size": [s.w, s.h], "half": [h.w, h.h]}) });
        for axis in 1..=2usize {
            let (lo, hi) = if axis == 1 { (a.min.x, a.max.x) } else { (a.min.y, a.max.y) };
            for s in lo..=hi {
                let sp = |form: &str| json!({"a": j2(a), "axis": axis, "s": s, "form": form});
                d.call("split", || sp("box"), || { let h = if axis == 1 { a.split_at_x(s) } else { a.split_at_y(s) }; json!([j2(h[0]), j2(h[1])]) });
                d.call("split", || sp("rect"), || { let h = if axis == 1 { r.split_at_x(s) } else { r.split_at_y(s) }; json!([j2(h[0].into()), j2(h[1].into())]) });
            }
        }
    }
}
fn point_ops2(d: &mut Drv, a: B2, p: Vec2<i32>) {
    let arg = |form: &str| json!({"a": j2(a), "p": [p.x, p.y], "form": form});
    d.call("contains_point", || arg("box"), || json!(a.contains_point(p) as i64));
    if valid2(a) {
        d.call("contains_point", || arg("rect"), || json!(a.into_rect().contains_point(p) as i64));
        d.call("expanded", || arg("box"), || j2(a.expanded_to_contain_point(p)));
        d.call("expanded", || arg("box/in-place"), || { let mut x = a; x.expand_to_contain_point(p); j2(x) });
        d.call("expanded", || arg("rect"), || { let mut x = a.into_rect(); x.expand_to_contain_point(p); j2(x.into()) });
        d.call("projected", || arg("box"), || { let q = a.projected_point(p); json!([q.x, q.y]) });
    } else {
        // an inside-out receiver (min > max on some axis, e.g. the "empty" accumulator of a point cloud): the result must
        // contain the point, and the in-place form must agree with the returning form
        d.call("expanded_any", || arg("box+in-place"), || { let mut x = a; x.expand_to_contain_point(p); json!([j2(a.expanded_to_contain_point(p)), j2(x)]) });
    }
}
fn single3(d: &mut Drv, a: B3) {
    let arg = || json!({"a": j3(a)});
    d.call("is_valid", arg, || json!(a.is_valid() as i64));
    d.call("made_valid", arg, || j3(a.made_valid()));
    d.call("map", arg, || j3(a.map(|v| 3 * v + 1)));
    d.call("box_to_rect", arg, || { let r = a.into_rect3(); json!({"pos": [r.x, r.y, r.z], "ext": [r.w, r.h, r.d]}) });
    d.call("box_drop_z", arg, || j2(Aabr::from(a)));
    if valid3(a) {
        let r = a.into_rect3();
        d.call("rect_to_box", || json!({"pos": [r.x, r.y, r.z], "ext": [r.w, r.h, r.d]}), || j3(r.into_aabb()));
        d.call("rect_to_box", || json!({"pos": [r.x, r.y, r.z], "ext": [r.w, r.h, r.d]}), || { let mut x = Rect3::new(9, 9, 9, 9, 9, 9); x.set_position(r.position()); x.set_extent(r.extent()); j3(x.into_aabb()) });
        d.call("rect_to_box", || json!({"pos": [r.x, r.y, r.z], "ext": [r.w, r.h, r.d]}), || { let (p, e) = r.position_extent(); let x: Rect3<i32, i32> = Rect3::from((p, e)); j3(x.map(|p| p, |e| e).into_aabb()) });
        d.call("center_size", arg, || { let (c, s, h) = (a.center(), a.size(), a.half_size()); json!({"center": [c.x, c.y, c.z], "size": [s.w, s.h, s.d], "half": [h.w, h.h, h.d]}) });
        let axis = 1 + d.pick(3);
        let (lo, hi) = match axis { 1 => (a.min.x, a.max.x), 2 => (a.min.y, a.max.y), _ => (a.min.z, a.max.z) };
        let s = lo + (hi - lo) / 2;
        let sp = |form: &str| json!({"a": j3(a), "axis": axis, "s": s, "form": form});
        d.call("split", || sp("box"), || { let h = match axis { 1 => a.split_at_x(s), 2 => a.split_at_y(s), _ => a.split_at_z(s) }; json!([j3(h[0]), j3(h[1])]) });
        d.call("split", || sp("rect"), || { let h = match axis { 1 => r.split_at_x(s), 2 => r.split_at_y(s), _ => r.split_at_z(s) }; json!([j3(h[0].into()), j3(h[1].into())]) });
    }
}
fn point_ops3(d: &mut Drv, a: B3, p: Vec3<i32>) {
    let arg = |form: &str| json!({"a": j3(a), "p": [p.x, p.y, p.z], "form": form});
    d.call("contains_point", || arg("box"), || json!(a.contains_point(p) as i64));
    if valid3(a) {
        d.call("contains_point", || arg("rect"), || json!(a.into_rect3().contains_point(p) as i64));
        d.call("expanded", || arg("box"), || j3(a.expanded_to_contain_point(p)));
        d.call("expanded", || arg("rect"), || j3(a.into_rect3().expanded_to_contain_point(p).into()));
        d.call("projected", || arg("box"), || { let q = a.projected_point(p); json!([q.x, q.y, q.z]) });
    } else {
        d.call("expanded_any", || arg("box+in-place"), || { let mut x = a; x.expand_to_contain_point(p); json!([j3(a.expanded_to_contain_point(p)), j3(x)]) });
    }
}

pub fn drive_boxes(args: &[String]) {
    let seed: u64 = arg_or(args, "--seed", "1").parse().unwrap();
    let full = arg_or(args, "--full", "0") == "1";
    let npairs: usize = arg_or(args, "--pairs", "600").parse().unwrap();
    let shard: usize = arg_or(args, "--shard", "0").parse().unwrap();
    let shards: usize = arg_or(args, "--shards", "1").parse().unwrap();
    let mut d = Drv::new(&arg(args, "--out").expect("--out"), seed);
    let ev4 = [0, 2, 4, 6];
    let all2: Vec<B2> = { let mut v = vec![]; for a in ev4 { for b in ev4 { for c in ev4 { for e in ev4 { v.push(b2([a, b, c, e])); } } } } v };
    // 2D: every box alone, with every 3rd grid point; pairs: all (full) or a seeded sample that always contains the
    // touching / nested / disjoint / equal / invalid configurations of the first boxes
    if shard == 0 {
        for (i, a) in all2.iter().enumerate() {
            single2(&mut d, *a);
            for px in 0..=8 { for py in 0..=8 { if (px * 9 + py + i as i32) % 3 == 0 { point_ops2(&mut d, *a, Vec2::new(px, py)); } } }
            d.call("new_empty", || json!({"p": [a.min.x, a.max.y]}), || j2(Aabr::new_empty(Vec2::new(a.min.x, a.max.y))));
        }
    }
    let rj2 = |v: Vec2<i32>| json!([v.x, v.y]);
    if full {
        for (ia, a) in all2.iter().enumerate() { for (ib, b) in all2.iter().enumerate() {
            // pairs are spread over the shards by a mixing function, so that every shard sees every kind of pair
            if (ia * 31 + ib * 17 + (ia / 16) * 7 + ib / 16) % shards != shard { continue; }
            pair_ops!(&mut d, *a, *b, j2, valid2, pos2, contains_aabr, collides_with_aabr, collision_vector_with_aabr, into_rect, contains_rect, collides_with_rect, collision_vector_with_rect, rj2);
        } }
    } else {
        let val2: Vec<B2> = all2.iter().cloned().filter(|b| valid2(*b)).collect();
        let pos2l: Vec<B2> = all2.iter().cloned().filter(|b| pos2(*b)).collect();
        for i in 0..npairs {
            // half of the sampled pairs have positive extent (collision semantics), a quarter are merely valid
            let (a, b) = match i % 4 { 0 | 1 => (pos2l[d.pick(pos2l.len())], pos2l[d.pick(pos2l.len())]), 2 => (val2[d.pick(val2.len())], val2[d.pick(val2.len())]),
                                       _ => (all2[d.pick(all2.len())], all2[d.pick(all2.len())]) };
            pair_ops!(&mut d, a, b, j2, valid2, pos2, contains_aabr, collides_with_aabr, collision_vector_with_aabr, into_rect, contains_rect, collides_with_rect, collision_vector_with_rect, rj2);
        }
    }
    // rectangles with NEGATIVE positions and odd extents (the grid above is non-negative and even): every rectangle
    // method must equal the box method on the converted value - centre (integer division!), containment of the corners
    if shard == 0 {
        for _ in 0..(if full { 4000 } else { 400 }) {
            let (x, y, z) = (d.rng.gen_range(-7..=7), d.rng.gen_range(-7..=7), d.rng.gen_range(-7..=7));
            let (w, h, dp) = (d.rng.gen_range(-3..=7), d.rng.gen_range(-3..=7), d.rng.gen_range(-3..=7));
            let r = Rect::<i32, i32>::new(x, y, w, h);
            let r3 = Rect3::<i32, i32>::new(x, y, z, w, h, dp);
            d.call("rect_vs_box", || json!({"how": "center", "pos": [x, y], "ext": [w, h]}), || { let (a, b) = (r.center(), r.into_aabr().center()); json!([[a.x, a.y], [b.x, b.y]]) });
            d.call("rect_vs_box", || json!({"how": "center", "pos": [x, y, z], "ext": [w, h, dp]}), || { let (a, b) = (r3.center(), r3.into_aabb().center()); json!([[a.x, a.y, a.z], [b.x, b.y, b.z]]) });
        }
    }
    // 3D: corners in {0,2,4}: all 729 boxes alone (shard 0), sampled points and pairs
    if shard == 0 {
        let ev3 = [0, 2, 4];
        let mut all3: Vec<B3> = vec![];
        for a in ev3 { for b in ev3 { for c in ev3 { for e in ev3 { for f in ev3 { for g in ev3 { all3.push(b3([a, b, c, e, f, g])); } } } } } }
        for a in all3.iter() {
            single3(&mut d, *a);
            for _ in 0..3 { let p = Vec3::new(d.rng.gen_range(0..=4), d.rng.gen_range(0..=4), d.rng.gen_range(0..=4)); point_ops3(&mut d, *a, p); }
        }
        let rj3 = |v: Vec3<i32>| json!([v.x, v.y, v.z]);
        let valid: Vec<B3> = all3.iter().cloned().filter(|b| valid3(*b)).collect();
        for _ in 0..(if full { 6000 } else { npairs }) {
            let (a, b) = (valid[d.pick(valid.len())], valid[d.pick(valid.len())]);
            pair_ops!(&mut d, a, b, j3, valid3, pos3, contains_aabb, collides_with_aabb, collision_vector_with_aabb, into_rect3, contains_rect3, collides_with_rect3, collision_vector_with_rect3, rj3);
        }
    }
    // floats: points just outside a box.  The box [-1,0]^n has its max corner at the origin, so a point at (delta, -1/2, ..)
    // is at distance exactly delta and (3 delta, 4 delta, ..) at 5 delta, for every power of two delta; logged: distance/expected * 2^20
    for k in [4i32, 10, 13, 20, 27, 33, 40, 60] {
        let r = |x: f64| if x.is_finite() { (x * 1048576.0).round() as i64 } else { -1 };
        let dl = 2f64.powi(-k);
        let b2 = Aabr { min: Vec2::new(-1f64, -1.0), max: Vec2::new(0f64, 0.0) };
        let b3 = Aabb { min: Vec3::new(-1f64, -1.0, -1.0), max: Vec3::new(0f64, 0.0, 0.0) };
        d.call("box_distance_f", || json!({"ty": "Aabr<f64>", "k": k, "where": "face"}), || json!(r(b2.distance_to_point(Vec2::new(dl, -0.5)) / dl)));
        d.call("box_distance_f", || json!({"ty": "Aabr<f64>", "k": k, "where": "corner"}), || json!(r(b2.distance_to_point(Vec2::new(3.0 * dl, 4.0 * dl)) / (5.0 * dl))));
        d.call("box_distance_f", || json!({"ty": "Aabb<f64>", "k": k, "where": "face"}), || json!(r(b3.distance_to_point(Vec3::new(-0.25, dl, -0.5)) / dl)));
        d.call("box_distance_f", || json!({"ty": "Aabb<f64>", "k": k, "where": "corner"}), || json!(r(b3.distance_to_point(Vec3::new(3.0 * dl, -0.5, 4.0 * dl)) / (5.0 * dl))));
        if k <= 40 {
            let dl = 2f32.powi(-k);
            let b2 = Aabr { min: Vec2::new(-1f32, -1.0), max: Vec2::new(0f32, 0.0) };
            let b3 = Aabb { min: Vec3::new(-1f32, -1.0, -1.0), max: Vec3::new(0f32, 0.0, 0.0) };
            d.call("box_distance_f", || json!({"ty": "Aabr<f32>", "k": k, "where": "face"}), || json!(r((b2.distance_to_point(Vec2::new(dl, -0.5)) / dl) as f64)));
            d.call("box_distance_f", || json!({"ty": "Aabb<f32>", "k": k, "where": "corner"}), || json!(r((b3.distance_to_point(Vec3::new(3.0 * dl, -0.5, 4.0 * dl)) / (5.0 * dl)) as f64)));
        }
    }
    d.finish(arg(args, "--summary"));
}

// ---------------------------------------------------------------------------
// C16

fn shapes_int(d: &mut Drv) {
    // disks and spheres on integer data through f32 / f64: decisions are exact (sqrt is monotone and exact on squares)
    let c: Vec<i32> = (0..3).map(|_| d.rng.gen_range(-6..=6)).collect();
    let r: i32 = d.rng.gen_range(0..=6);
    // a negative radius (a degenerate shape) contains nothing and the sum of radii may then be negative: no collision
    let rneg: i32 = d.rng.gen_range(-6..=2);
    // boundary-biased point: exactly on the circle when a Pythagorean offset fits, else anywhere near
    let offs = [(3, 4, 5), (5, 12, 13), (0, 1, 1), (6, 8, 10), (1, 1, 0), (2, 3, 0), (4, 4, 0)];
    let (ox, oy, _) = offs[d.pick(offs.len())];
    let sg = |d: &mut Drv, v: i32| if d.pick(2) == 0 { v } else { -v };
    let p: Vec<i32> = vec![c[0] + sg(d, ox), c[1] + sg(d, oy), c[2] + [0, 0, 1, 2][d.pick(4)]];
    let c2: Vec<i32> = vec![c[0] + sg(d, ox) * [1, 2][d.pick(2)], c[1] + sg(d, oy) * [1, 2][d.pick(2)], c[2]];
    let r2: i32 = d.rng.gen_range(0..=8);
    let f = |v: &[i32]| -> Vec2<f64> { Vec2::new(v[0] as f64, v[1] as f64) };
    let g = |v: &[i32]| -> Vec3<f32> { Vec3::new(v[0] as f32, v[1] as f32, v[2] as f32) };
    let (dk, dk2) = (Disk::new(f(&c), r as f64), Disk::new(f(&c2), r2 as f64));
    let (sp, sp2) = (Sphere::new(g(&c), r as f32), Sphere::new(g(&c2), r2 as f32));
    d.call("disk_contains", || json!({"ty": "Disk<f64>", "c": &c[..2], "r": r, "p": &p[..2]}), || json!(dk.contains_point(f(&p)) as i64));
    d.call("disk_contains", || json!({"ty": "Sphere<f32>", "c": c, "r": r, "p": p}), || json!(sp.contains_point(g(&p)) as i64));
    d.call("disk_collides", || json!({"ty": "Disk<f64>", "c": &c[..2], "r": r, "c2": &c2[..2], "r2": r2}), || json!(dk.collides_with_disk(dk2) as i64));
    d.call("disk_collides", || json!({"ty": "Sphere<f32>", "c": c, "r": r, "c2": c2, "r2": r2}), || json!(sp.collides_with_sphere(sp2) as i64));
    // point shapes: radius exactly 0 contains exactly its own centre (distance 0 <= 0), and nothing else
    { let (dp, sp0) = (Disk::<f64, f64>::point(f(&c)), Sphere::<f32, f32>::point(g(&c)));
      d.call("disk_contains", || json!({"ty": "Disk<f64>", "c": &c[..2], "r": 0, "p": &c[..2]}), || json!(dp.contains_point(f(&c)) as i64));
      d.call("disk_contains", || json!({"ty": "Sphere<f32>", "c": c, "r": 0, "p": c}), || json!(sp0.contains_point(g(&c)) as i64));
      d.call("disk_contains", || json!({"ty": "Disk<f64>", "c": &c[..2], "r": 0, "p": &p[..2]}), || json!(Disk::new(f(&c), 0f64).contains_point(f(&p)) as i64));
      d.call("disk_contains", || json!({"ty": "Disk<f64>", "c": &c[..2], "r": r, "p": &c[..2]}), || json!(dk.contains_point(f(&c)) as i64));
      d.call("disk_collides", || json!({"ty": "Disk<f64>", "c": &c[..2], "r": 0, "c2": &c[..2], "r2": 0}), || json!(dp.collides_with_disk(dp) as i64)); }
    { let (dn, sn) = (Disk::new(f(&c), rneg as f64), Sphere::new(g(&c), rneg as f32));
      d.call("disk_contains", || json!({"ty": "Disk<f64>", "c": &c[..2], "r": rneg, "p": &p[..2]}), || json!(dn.contains_point(f(&p)) as i64));
      d.call("disk_collides", || json!({"ty": "Disk<f64>", "c": &c[..2], "r": rneg, "c2": &c2[..2], "r2": r2}), || json!(dn.collides_with_disk(dk2) as i64));
      d.call("disk_collides", || json!({"ty": "Sphere<f32>", "c": c, "r": rneg, "c2": c2, "r2": r2 - 4}), || json!(sn.collides_with_sphere(Sphere::new(g(&c2), (r2 - 4) as f32)) as i64)); }
    let di = Disk::<i32, i32>::new(Vec2::new(c[0], c[1]), r);
    let si = Sphere::<i32, i32>::new(Vec3::new(c[0], c[1], c[2]), r);
    d.call("disk_box", || json!({"how": "aabr", "c": &c[..2], "r": r}), || j2(di.aabr()));
    d.call("disk_box", || json!({"how": "rect", "c": &c[..2], "r": r}), || j2(di.rect().into_aabr()));
    d.call("disk_box", || json!({"how": "aabb", "c": c, "r": r}), || j3(si.aabb()));
    d.call("disk_box", || json!({"how": "rect3", "c": c, "r": r}), || j3(si.rect3().into_aabb()));
    d.call("disk_diameter", || json!({"r": r}), || json!(di.diameter()));
    d.call("disk_diameter", || json!({"r": r}), || json!(si.diameter()));
    d.call("disk_diameter", || json!({"r": 1}), || json!(Disk::<i32, i32>::unit(Vec2::zero()).diameter() + Sphere::<i32, i32>::point(Vec3::zero()).diameter()));
    // segments on floats with non-dyadic coordinates: distance_to_point must be the distance to projected_point (also
    // for a query point ON the segment, where a Pythagoras-style shortcut cancels catastrophically); scaled by 2^16
    {
        let fr = |d: &mut Drv| d.rng.gen_range(-50..=50) as f32 / 10.0;
        let (s3, e3) = (Vec3::new(fr(d), fr(d), fr(d)), Vec3::new(fr(d), fr(d), fr(d)));
        let t = d.rng.gen_range(1..=9) as f32 / 10.0;
        let on = d.pick(2) == 0;
        let p3 = if on { s3 + (e3 - s3) * t } else { Vec3::new(fr(d), fr(d), fr(d)) };
        let sc = |x: f64| if x.is_finite() { (x * 65536.0).round() as i64 } else { -1 };
        let seg3 = LineSegment3 { start: s3, end: e3 };
        d.call("seg_distance_f", || json!({"ty": "f32/3", "on": on as i64}), || json!([sc(seg3.distance_to_point(p3) as f64), sc(seg3.projected_point(p3).distance(p3) as f64)]));
        let seg2 = LineSegment2 { start: Vec2::new(s3.x as f64, s3.y as f64), end: Vec2::new(e3.x as f64, e3.y as f64) };
        let p2 = Vec2::new(p3.x as f64, p3.y as f64);
        d.call("seg_distance_f", || json!({"ty": "f64/2", "on": on as i64}), || json!([sc(seg2.distance_to_point(p2)), sc(seg2.projected_point(p2).distance(p2))]));
    }
    // measures: coefficient * pi * r^power / den, scaled by 1000
    let k = |x: f64| (x * 1000.0).round() as i64;
    let rr = r as i64;
    d.call("disk_measure", || json!({"how": "circumference", "coef": 2, "den": 1, "rp": rr}), || json!(k(dk.circumference())));
    d.call("disk_measure", || json!({"how": "area", "coef": 1, "den": 1, "rp": rr * rr}), || json!(k(dk.area())));
    d.call("disk_measure", || json!({"how": "surface_area", "coef": 4, "den": 1, "rp": rr * rr}), || json!(k(Sphere::new(g(&c).map(|x| x as f64), r as f64).surface_area())));
    d.call("disk_measure", || json!({"how": "volume", "coef": 4, "den": 3, "rp": rr * rr * rr}), || json!(k(Sphere::new(g(&c).map(|x| x as f64), r as f64).volume())));
}

fn shapes_q(d: &mut Drv) {
    let v3 = |s: &[Q]| Vec3::new(s[0], s[1], s[2]);
    let si = |d: &mut Drv, n: usize| -> Vec<Q> { (0..n).map(|_| Q::int(d.rng.gen_range(-4..=4))).collect() };
    // segment projection: query before the start, beyond the end, inside, on the line, degenerate segment
    for dim in [2usize, 3] {
        let s = si(d, dim);
        let e: Vec<Q> = if d.pick(6) == 0 { s.clone() } else { si(d, dim) };
        let p: Vec<Q> = match d.pick(4) {
            0 => (0..dim).map(|i| s[i] + (e[i] - s[i]) * Q::frac(d.rng.gen_range(-4..=8), 4)).collect(),   // on the line
            _ => si(d, dim),
        };
        let arg = || json!({"s": evs(&s), "e": evs(&e), "p": evs(&p)});
        if dim == 2 {
            let seg = LineSegment2 { start: Vec2::new(s[0], s[1]), end: Vec2::new(e[0], e[1]) };
            let pp = Vec2::new(p[0], p[1]);
            d.call("seg_project", arg, || { let r = seg.projected_point(pp); evs(&[r.x, r.y]) });
            d.call("seg_project", arg, || { let r = LineSegment2::from(seg.into_range()).projected_point(pp); evs(&[r.x, r.y]) });
            d.call("seg_distance", arg, || ev(seg.distance_to_point(pp)));
        } else {
            let seg = LineSegment3 { start: Vec3::new(s[0], s[1], s[2]), end: Vec3::new(e[0], e[1], e[2]) };
            let pp = Vec3::new(p[0], p[1], p[2]);
            d.call("seg_project", arg, || { let r = seg.projected_point(pp); evs(&[r.x, r.y, r.z]) });
            d.call("seg_distance", arg, || ev(seg.distance_to_point(pp)));
        }
    }
    // distance from a point to a box (sqrt: only rational distances are conclusive)
    let mn = si(d, 2);
    let ext: Vec<Q> = (0..2).map(|_| Q::int(d.rng.gen_range(0..=4))).collect();
    let off = [(3, 4), (0, 2), (5, 12), (1, 0), (0, 0)][d.pick(5)];
    let p = vec![mn[0] + ext[0] + Q::int(off.0), mn[1] - Q::int(off.1)];
    let bx = Aabr { min: Vec2::new(mn[0], mn[1]), max: Vec2::new(mn[0] + ext[0], mn[1] + ext[1]) };
    d.call("box_distance", || json!({"a": {"min": evs(&mn), "max": evs(&[mn[0] + ext[0], mn[1] + ext[1]])}, "p": evs(&p)}), || ev(bx.distance_to_point(Vec2::new(p[0], p[1]))));
    for _ in 0..4 {
    // ray / triangle on a small integer grid: interior, edges, vertices, parallel, coplanar, behind the origin
    let tri: Vec<Vec<Q>> = (0..3).map(|_| (0..3).map(|_| Q::int(d.rng.gen_range(-2..=2))).collect()).collect();
    let o = si(d, 3);
    let dir: Vec<Q> = match d.pick(5) {
        // aim at a point of the triangle's plane with barycentric coordinates on a coarse grid (hits edges and vertices exactly)
        0 | 1 | 2 => { let (u, v) = (Q::frac(d.rng.gen_range(-1..=4), 4), Q::frac(d.rng.gen_range(-1..=4), 4));
                       (0..3).map(|i| tri[0][i] + (tri[1][i] - tri[0][i]) * u + (tri[2][i] - tri[0][i]) * v - o[i]).collect() }
        3 => (0..3).map(|i| tri[1][i] - tri[0][i]).collect(),      // parallel to an edge (parallel or coplanar)
        _ => si(d, 3),
    };
    let tj = Value::Array(tri.iter().map(|v| evs(v)).collect());
    d.call("ray_tri", || json!({"o": evs(&o), "dir": evs(&dir), "tri": tj}), || {
        match Ray::new(v3(&o), v3(&dir)).triangle_intersection([v3(&tri[0]), v3(&tri[1]), v3(&tri[2])]) { Some(t) => json!([ev(t)]), None => json!([]) }
    });
    }
    // tangency vector of two disks / spheres whose centre distance is rational
    let c = si(d, 3);
    let (offv, _) = pyth3(&mut d.rng);
    let c2: Vec<Q> = (0..3).map(|i| c[i] + offv[i]).collect();
    let (r, r2) = (Q::frac(d.rng.gen_range(0..=6), 2), Q::frac(d.rng.gen_range(0..=6), 2));
    d.call("disk_cvec", || json!({"c": evs(&c), "r": ev(r), "c2": evs(&c2), "r2": ev(r2)}),
           || { let v = Sphere::new(v3(&c), r).collision_vector_with_sphere(Sphere::new(v3(&c2), r2)); evs(&[v.x, v.y, v.z]) });
    let (o2, _) = (vec![Q::int([3, -3, 4, 0, 5][d.pick(5)]), Q::int([4, 4, -3, 2, 12][d.pick(5)])], 0);
    let l2 = o2[0] * o2[0] + o2[1] * o2[1];
    if l2.sqrt_exact().is_some() {
        let c2: Vec<Q> = vec![c[0] + o2[0], c[1] + o2[1]];
        d.call("disk_cvec", || json!({"c": evs(&c[..2]), "r": ev(r), "c2": evs(&c2), "r2": ev(r2)}),
               || { let v = Disk::new(Vec2::new(c[0], c[1]), r).collision_vector_with_disk(Disk::new(Vec2::new(c2[0], c2[1]), r2)); evs(&[v.x, v.y]) });
    }
}

pub fn drive_shapes(args: &[String]) {
    let n: usize = arg_or(args, "--n", "50").parse().unwrap();
    let seed: u64 = arg_or(args, "--seed", "1").parse().unwrap();
    let lane = arg_or(args, "--lane", "z");
    let mut d = Drv::new(&arg(args, "--out").expect("--out"), seed);
    if lane == "z" { for _ in 0..n { shapes_int(&mut d); } }
    else { set_pair_mode(true); for _ in 0..n { shapes_q(&mut d); } }
        d.finish(arg(args, "--summary"));
}
