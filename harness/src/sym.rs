//! Lane Sym: `Sym`, an element of the field of fractions of the free commutative ring
//! Z[x1, x2, ...] that drives vek's generic (`T: Real`) code on FREE SYMBOLS.
//!
//! vek is generic in its element type and stable Rust has no specialisation, so the value
//! a function returns on distinct free symbols *is* the polynomial (rational function) it
//! computes for every input in every commutative ring.  The drivers log that polynomial;
//! TLC recomputes it from the specification in the polynomial ring of `spec/VekPoly.tla`
//! (VekField with P = PPoly) and compares canonical forms - no sampling.
//!
//! A value is a fraction num/den of two polynomials (BTreeMap monomial -> i128 coefficient;
//! a monomial is a sorted list of (variable, exponent)).  Fractions are only lightly
//! normalised (zero numerator, constant denominators, equal denominators on addition);
//! equality is decided by cross-multiplication, so it is exact.  `sin`/`cos` of a plain
//! variable `t` are the paired symbols `sin#t`, `cos#t` (fresh variables, the same ones every
//! time), which is how the rotation code is followed for every angle.  Anything the free
//! ring cannot decide - an order comparison between symbols, a square root, a transcendental
//! of a compound argument - raises the same *inconclusive* panic as lane Q: the sample is
//! dropped and counted, never turned into a verdict.
//! On the TLC side a monomial is coded as a product of primes (variable k = k-th prime) and
//! must fit 31 bits together with every coefficient; `encv` refuses (inconclusive) otherwise.
use crate::q::inconclusive;
use num_traits::{Num, NumCast, One, ToPrimitive, Zero};
use std::cell::RefCell;
use std::cmp::Ordering;
use std::collections::BTreeMap;
use std::fmt;
use std::ops::*;

pub const PRIMES: [i128; 60] = [2, 3, 5, 7, 11, 13, 17, 19, 23, 29, 31, 37, 41, 43, 47, 53, 59, 61, 67, 71,
    73, 79, 83, 89, 97, 101, 103, 107, 109, 113, 127, 131, 137, 139, 149, 151, 157, 163, 167, 173,
    179, 181, 191, 193, 197, 199, 211, 223, 227, 229, 233, 239, 241, 251, 257, 263, 269, 271, 277, 281];

/// Angle symbols are numbered from ANGLE0: they only ever occur as arguments of sin/cos (which return ordinary
/// symbols) and have no TLC encoding - a result that still contains one is inconclusive.
pub const ANGLE0: u16 = 1000;
pub type Mono = Vec<(u16, u16)>;
pub type Poly = BTreeMap<Mono, i128>;

fn ck(o: Option<i128>) -> i128 { match o { Some(v) => v, None => inconclusive("sym coefficient overflow") } }
fn p_const(c: i128) -> Poly { let mut p = Poly::new(); if c != 0 { p.insert(vec![], c); } p }
fn p_var(k: u16) -> Poly { let mut p = Poly::new(); p.insert(vec![(k, 1)], 1); p }
fn p_is_const(p: &Poly) -> Option<i128> {
    if p.is_empty() { return Some(0); }
    if p.len() == 1 { if let Some(c) = p.get(&vec![]) { return Some(*c); } }
    None
}
fn p_add(a: &Poly, b: &Poly) -> Poly {
    let mut r = a.clone();
    for (m, c) in b {
        let e = r.entry(m.clone()).or_insert(0);
        *e = ck(e.checked_add(*c));
        if *e == 0 { r.remove(m); }
    }
    r
}
fn p_neg(a: &Poly) -> Poly { a.iter().map(|(m, c)| (m.clone(), -*c)).collect() }
fn m_mul(a: &Mono, b: &Mono) -> Mono {
    let (mut i, mut j, mut r) = (0, 0, Vec::with_capacity(a.len() + b.len()));
    while i < a.len() || j < b.len() {
        if j == b.len() || (i < a.len() && a[i].0 < b[j].0) { r.push(a[i]); i += 1; }
        else if i == a.len() || b[j].0 < a[i].0 { r.push(b[j]); j += 1; }
        else { r.push((a[i].0, a[i].1 + b[j].1)); i += 1; j += 1; }
    }
    r
}
fn p_mul(a: &Poly, b: &Poly) -> Poly {
    let mut r = Poly::new();
    if a.len() * b.len() > 200_000 { inconclusive("sym polynomial too large") }
    for (ma, ca) in a { for (mb, cb) in b {
        let m = m_mul(ma, mb);
        let e = r.entry(m).or_insert(0);
        *e = ck(e.checked_add(ck(ca.checked_mul(*cb))));
    } }
    r.retain(|_, c| *c != 0);
    r
}
fn p_eval(p: &Poly) -> f64 {
    // a fixed generic point, only used to order symbols when a driver explicitly asks for it
    p.iter().map(|(m, c)| m.iter().fold(*c as f64, |acc, (v, e)| acc * (0.37 + 0.618 * (*v as f64 * 0.7548).fract()).powi(*e as i32))).sum()
}

#[derive(Clone)]
struct Frac { n: Poly, d: Poly }
thread_local! {
    static ARENA: RefCell<Vec<Frac>> = RefCell::new(Vec::new());
    static NEXT_VAR: RefCell<u16> = RefCell::new(1);
    static TRIG: RefCell<BTreeMap<String, (u16, u16)>> = RefCell::new(BTreeMap::new());
    static NEXT_ANGLE: RefCell<u16> = RefCell::new(ANGLE0);
    static NAMES: RefCell<BTreeMap<u16, String>> = RefCell::new(BTreeMap::new());
}

/// A handle into the thread-local arena of fractions.
#[derive(Clone, Copy)]
pub struct Sym(u32);

fn mk(n: Poly, d: Poly) -> Sym {
    // light normalisation
    let (n, d) = if n.is_empty() { (n, p_const(1)) } else if let Some(c) = p_is_const(&d) {
        if c == 0 { panic!("Sym: division by zero") }
        if n.values().all(|x| x % c == 0) { (n.into_iter().map(|(m, x)| (m, x / c)).collect(), p_const(1)) }
        else if c < 0 { (p_neg(&n), p_const(-c)) } else { (n, d) }
    } else { (n, d) };
    ARENA.with(|a| { let mut a = a.borrow_mut(); a.push(Frac { n, d }); Sym((a.len() - 1) as u32) })
}
fn get(s: Sym) -> Frac { ARENA.with(|a| a.borrow()[s.0 as usize].clone()) }

/// Start a new group of records: variables are numbered from 1 again (the smallest primes on the
/// TLC side) and the arena is emptied.  Handles obtained before the call must not be used afterwards.
pub fn reset() {
    ARENA.with(|a| a.borrow_mut().clear());
    NEXT_VAR.with(|v| *v.borrow_mut() = 1);
    NEXT_ANGLE.with(|v| *v.borrow_mut() = ANGLE0);
    TRIG.with(|t| t.borrow_mut().clear());
    NAMES.with(|t| t.borrow_mut().clear());
}
pub fn vars_used() -> u16 { NEXT_VAR.with(|v| *v.borrow() - 1) }

impl Sym {
    pub fn int(c: i64) -> Sym { mk(p_const(c as i128), p_const(1)) }
    pub fn frac(n: i64, d: i64) -> Sym { mk(p_const(n as i128), p_const(d as i128)) }
    /// a fresh free symbol
    pub fn fresh(name: &str) -> Sym {
        let k = NEXT_VAR.with(|v| { let mut v = v.borrow_mut(); let k = *v; *v += 1; k });
        if k as usize > PRIMES.len() { inconclusive("too many symbols") }
        NAMES.with(|t| t.borrow_mut().insert(k, name.to_string()));
        mk(p_var(k), p_const(1))
    }
    /// a fresh angle symbol t: only sin/cos of t (and of rational multiples such as t/2) are ring elements
    pub fn angle() -> Sym {
        let k = NEXT_ANGLE.with(|v| { let mut v = v.borrow_mut(); let k = *v; *v += 1; k });
        mk(p_var(k), p_const(1))
    }
    fn is_angle_multiple(self) -> bool {
        let f = get(self);
        p_is_const(&f.d).is_some() && f.n.len() == 1 && f.n.keys().all(|m| m.len() == 1 && m[0].0 >= ANGLE0 && m[0].1 == 1)
    }
    fn var_index(self) -> Option<u16> {
        let f = get(self);
        if p_is_const(&f.d) != Some(1) || f.n.len() != 1 { return None; }
        let (m, c) = f.n.iter().next().unwrap();
        if *c == 1 && m.len() == 1 && m[0].1 == 1 { Some(m[0].0) } else { None }
    }
    /// (cos t, sin t) of a plain variable t as paired fresh symbols; of the constant 0 as (1, 0)
    pub fn cos_sin(self) -> (Sym, Sym) {
        if self.is_zero() { return (Sym::int(1), Sym::int(0)); }
        if !self.is_angle_multiple() { inconclusive("sin/cos of something that is not a rational multiple of an angle symbol") }
        let k = format!("{:?}", self);
        let known = TRIG.with(|t| t.borrow().get(&k).cloned());
        let (c, s) = match known { Some(p) => p, None => {
            let c = Sym::fresh(&format!("cos#{}", k)).var_index().unwrap();
            let s = Sym::fresh(&format!("sin#{}", k)).var_index().unwrap();
            TRIG.with(|t| t.borrow_mut().insert(k, (c, s)));
            (c, s)
        } };
        (mk(p_var(c), p_const(1)), mk(p_var(s), p_const(1)))
    }
    pub fn is_poly(self) -> bool { p_is_const(&get(self).d) == Some(1) }
    pub fn num(self) -> Sym { mk(get(self).n, p_const(1)) }
    pub fn den(self) -> Sym { mk(get(self).d, p_const(1)) }
    /// the TLC encoding of a polynomial: {"ply": [[coefficient, monomial as product of primes], ...]}
    pub fn enc_poly(self) -> serde_json::Value {
        let f = get(self);
        if p_is_const(&f.d) != Some(1) { inconclusive("a fraction where the specification expects a polynomial") }
        let mut terms = Vec::new();
        for (m, c) in &f.n {
            let mut g: i128 = 1;
            for (v, e) in m { if *v >= ANGLE0 { inconclusive("an angle symbol outside sin/cos") } for _ in 0..*e { g = g.checked_mul(PRIMES[*v as usize - 1]).unwrap_or(i128::MAX); if g >= (1 << 31) { inconclusive("monomial does not fit TLC's integers") } } }
            if c.abs() >= (1 << 30) { inconclusive("coefficient does not fit TLC's integers") }
            terms.push(serde_json::json!([*c as i64, g as i64]));
        }
        serde_json::json!({ "ply": terms })
    }
    fn approx(self) -> f64 { let f = get(self); p_eval(&f.n) / p_eval(&f.d) }
}

impl fmt::Debug for Sym {
    fn fmt(&self, f: &mut fmt::Formatter) -> fmt::Result {
        let fr = get(*self);
        let show = |p: &Poly| -> String {
            if p.is_empty() { return "0".into(); }
            p.iter().map(|(m, c)| { let mm: Vec<String> = m.iter().map(|(v, e)| if *e == 1 { format!("x{}", v) } else { format!("x{}^{}", v, e) }).collect();
                if mm.is_empty() { format!("{}", c) } else { format!("{}*{}", c, mm.join("*")) } }).collect::<Vec<_>>().join(" + ")
        };
        if p_is_const(&fr.d) == Some(1) { write!(f, "{}", show(&fr.n)) } else { write!(f, "({})/({})", show(&fr.n), show(&fr.d)) }
    }
}
impl fmt::Display for Sym { fn fmt(&self, f: &mut fmt::Formatter) -> fmt::Result { fmt::Debug::fmt(self, f) } }
impl PartialEq for Sym {
    fn eq(&self, o: &Sym) -> bool { let (a, b) = (get(*self), get(*o)); if a.d == b.d { a.n == b.n } else { p_mul(&a.n, &b.d) == p_mul(&b.n, &a.d) } }
}
impl PartialOrd for Sym {
    fn partial_cmp(&self, o: &Sym) -> Option<Ordering> {
        let (a, b) = (get(*self), get(*o));
        // constants are ordered exactly; symbols have no order
        match (p_is_const(&a.n), p_is_const(&a.d), p_is_const(&b.n), p_is_const(&b.d)) {
            (Some(an), Some(ad), Some(bn), Some(bd)) => Some((an * bd * ad.signum() * bd.signum()).cmp(&(bn * ad * ad.signum() * bd.signum()))),
            _ => inconclusive("order comparison between free symbols"),
        }
    }
}
impl Add for Sym { type Output = Sym; fn add(self, o: Sym) -> Sym {
    let (a, b) = (get(self), get(o));
    if a.n.is_empty() { return o; }
    if b.n.is_empty() { return self; }
    if a.d == b.d { mk(p_add(&a.n, &b.n), a.d) } else { mk(p_add(&p_mul(&a.n, &b.d), &p_mul(&b.n, &a.d)), p_mul(&a.d, &b.d)) }
} }
impl Neg for Sym { type Output = Sym; fn neg(self) -> Sym { let a = get(self); mk(p_neg(&a.n), a.d) } }
impl Sub for Sym { type Output = Sym; fn sub(self, o: Sym) -> Sym { self + (-o) } }
impl Mul for Sym { type Output = Sym; fn mul(self, o: Sym) -> Sym {
    let (a, b) = (get(self), get(o));
    // (n1/d1)*(n2/d2) with the cheap cancellations d1 == n2, d2 == n1
    if a.d == b.n && p_is_const(&a.d) != Some(1) { return mk(a.n, b.d); }
    if b.d == a.n && p_is_const(&b.d) != Some(1) { return mk(b.n, a.d); }
    mk(p_mul(&a.n, &b.n), p_mul(&a.d, &b.d))
} }
impl Div for Sym { type Output = Sym; fn div(self, o: Sym) -> Sym {
    let (a, b) = (get(self), get(o));
    if b.n.is_empty() { panic!("Sym: division by zero") }
    if a.n == b.n && a.d == b.d { return Sym::int(1); }
    mk(p_mul(&a.n, &b.d), p_mul(&a.d, &b.n))
} }
impl Rem for Sym { type Output = Sym; fn rem(self, _o: Sym) -> Sym { inconclusive("remainder of symbols") } }
macro_rules! assign { ($($tr:ident $f:ident $op:tt),+) => {$( impl $tr for Sym { fn $f(&mut self, o: Sym) { *self = *self $op o; } } )+} }
assign!(AddAssign add_assign +, SubAssign sub_assign -, MulAssign mul_assign *, DivAssign div_assign /, RemAssign rem_assign %);
macro_rules! refops { ($($tr:ident $f:ident $op:tt),+) => {$(
    impl<'a> $tr<Sym> for &'a Sym { type Output = Sym; fn $f(self, o: Sym) -> Sym { *self $op o } }
    impl<'a> $tr<&'a Sym> for Sym { type Output = Sym; fn $f(self, o: &'a Sym) -> Sym { self $op *o } }
    impl<'a, 'b> $tr<&'b Sym> for &'a Sym { type Output = Sym; fn $f(self, o: &'b Sym) -> Sym { *self $op *o } }
)+} }
refops!(Add add +, Sub sub -, Mul mul *, Div div /, Rem rem %);
impl<'a> Neg for &'a Sym { type Output = Sym; fn neg(self) -> Sym { -*self } }
impl Zero for Sym { fn zero() -> Sym { Sym::int(0) } fn is_zero(&self) -> bool { get(*self).n.is_empty() } }
impl One for Sym { fn one() -> Sym { Sym::int(1) } }
impl Default for Sym { fn default() -> Sym { Sym::int(0) } }
impl Num for Sym { type FromStrRadixErr = (); fn from_str_radix(s: &str, r: u32) -> Result<Sym, ()> { i64::from_str_radix(s, r).map(Sym::int).map_err(|_| ()) } }
impl ToPrimitive for Sym {
    fn to_i64(&self) -> Option<i64> { let f = get(*self); match (p_is_const(&f.n), p_is_const(&f.d)) { (Some(n), Some(d)) => Some((n / d) as i64), _ => None } }
    fn to_u64(&self) -> Option<u64> { self.to_i64().and_then(|v| if v >= 0 { Some(v as u64) } else { None }) }
    fn to_f64(&self) -> Option<f64> { Some(self.approx()) }
}
impl NumCast for Sym {
    fn from<T: ToPrimitive>(n: T) -> Option<Sym> {
        if let Some(i) = n.to_i64() { if n.to_f64().map_or(true, |f| f == i as f64) { return Some(Sym::int(i)); } }
        n.to_f64().and_then(|f| crate::q::from_f64_exact(f)).map(|q| mk(p_const(q.n), p_const(q.d)))
    }
}
impl From<u8> for Sym { fn from(v: u8) -> Sym { Sym::int(v as i64) } }
impl From<u16> for Sym { fn from(v: u16) -> Sym { Sym::int(v as i64) } }
impl From<i32> for Sym { fn from(v: i32) -> Sym { Sym::int(v as i64) } }
impl num_traits::MulAdd for Sym { type Output = Sym; fn mul_add(self, a: Sym, b: Sym) -> Sym { self * a + b } }
impl num_traits::MulAddAssign for Sym { fn mul_add_assign(&mut self, a: Sym, b: Sym) { *self = *self * a + b; } }
impl num_traits::Bounded for Sym { fn min_value() -> Sym { inconclusive("bounds of the free ring") } fn max_value() -> Sym { inconclusive("bounds of the free ring") } }
fn unsup(what: &str) -> ! { inconclusive(what) }
impl num_traits::real::Real for Sym {
    fn min_value() -> Sym { unsup("min_value") }
    fn min_positive_value() -> Sym { unsup("min_positive_value") }
    fn epsilon() -> Sym { mk(p_const(1), p_const(1i128 << 40)) }
    fn max_value() -> Sym { unsup("max_value") }
    fn floor(self) -> Sym { unsup("floor") }
    fn ceil(self) -> Sym { unsup("ceil") }
    fn round(self) -> Sym { unsup("round") }
    fn trunc(self) -> Sym { unsup("trunc") }
    fn fract(self) -> Sym { unsup("fract") }
    fn abs(self) -> Sym { if self < Sym::int(0) { -self } else { self } }
    fn signum(self) -> Sym { if self < Sym::int(0) { Sym::int(-1) } else { Sym::int(1) } }
    fn is_sign_positive(self) -> bool { self >= Sym::int(0) }
    fn is_sign_negative(self) -> bool { self < Sym::int(0) }
    fn mul_add(self, a: Sym, b: Sym) -> Sym { self * a + b }
    fn recip(self) -> Sym { Sym::int(1) / self }
    fn powi(self, n: i32) -> Sym { let mut r = Sym::int(1); for _ in 0..n.abs() { r = r * self; } if n < 0 { Sym::int(1) / r } else { r } }
    fn powf(self, n: Sym) -> Sym { match n.to_i64() { Some(k) if Sym::int(k) == n => self.powi(k as i32), _ => unsup("powf") } }
    fn sqrt(self) -> Sym {
        // constants that are squares of rationals (normalising a coordinate axis); anything else has no root in the ring
        let f = get(self);
        match (p_is_const(&f.n), p_is_const(&f.d)) {
            (Some(n), Some(d)) if n >= 0 && d > 0 => {
                let (rn, rd) = ((n as f64).sqrt().round() as i128, (d as f64).sqrt().round() as i128);
                if rn * rn == n && rd * rd == d { mk(p_const(rn), p_const(rd)) } else { unsup("sqrt of a non-square constant") }
            }
            _ => unsup("sqrt of a symbol"),
        }
    }
    fn exp(self) -> Sym { unsup("exp") }
    fn exp2(self) -> Sym { unsup("exp2") }
    fn ln(self) -> Sym { unsup("ln") }
    fn log(self, _b: Sym) -> Sym { unsup("log") }
    fn log2(self) -> Sym { unsup("log2") }
    fn log10(self) -> Sym { unsup("log10") }
    fn to_degrees(self) -> Sym { unsup("to_degrees") }
    fn to_radians(self) -> Sym { unsup("to_radians") }
    fn max(self, o: Sym) -> Sym { if self >= o { self } else { o } }
    fn min(self, o: Sym) -> Sym { if self <= o { self } else { o } }
    fn abs_sub(self, o: Sym) -> Sym { if self <= o { Sym::int(0) } else { self - o } }
    fn cbrt(self) -> Sym { unsup("cbrt") }
    fn hypot(self, _o: Sym) -> Sym { unsup("hypot") }
    fn sin(self) -> Sym { self.cos_sin().1 }
    fn cos(self) -> Sym { self.cos_sin().0 }
    fn tan(self) -> Sym { let (c, s) = self.cos_sin(); s / c }
    fn asin(self) -> Sym { unsup("asin") }
    fn acos(self) -> Sym { unsup("acos") }
    fn atan(self) -> Sym { unsup("atan") }
    fn atan2(self, _o: Sym) -> Sym { unsup("atan2") }
    fn sin_cos(self) -> (Sym, Sym) { let (c, s) = self.cos_sin(); (s, c) }
    fn exp_m1(self) -> Sym { unsup("exp_m1") }
    fn ln_1p(self) -> Sym { unsup("ln_1p") }
    fn sinh(self) -> Sym { unsup("sinh") }
    fn cosh(self) -> Sym { unsup("cosh") }
    fn tanh(self) -> Sym { unsup("tanh") }
    fn asinh(self) -> Sym { unsup("asinh") }
    fn acosh(self) -> Sym { unsup("acosh") }
    fn atanh(self) -> Sym { unsup("atanh") }
}
#[allow(non_snake_case)]
impl num_traits::FloatConst for Sym {
    fn PI() -> Sym { unsup("pi") } fn TAU() -> Sym { unsup("tau") }
    fn FRAC_PI_2() -> Sym { unsup("const") } fn FRAC_PI_3() -> Sym { unsup("const") } fn FRAC_PI_4() -> Sym { unsup("const") }
    fn FRAC_PI_6() -> Sym { unsup("const") } fn FRAC_PI_8() -> Sym { unsup("const") } fn FRAC_1_PI() -> Sym { unsup("const") }
    fn FRAC_2_PI() -> Sym { unsup("const") } fn FRAC_2_SQRT_PI() -> Sym { unsup("const") } fn E() -> Sym { unsup("const") }
    fn LN_10() -> Sym { unsup("const") } fn LN_2() -> Sym { unsup("const") } fn LOG10_E() -> Sym { unsup("const") }
    fn LOG2_E() -> Sym { unsup("const") } fn SQRT_2() -> Sym { unsup("const") } fn FRAC_1_SQRT_2() -> Sym { unsup("const") }
}
impl approx::AbsDiffEq for Sym {
    type Epsilon = Sym;
    fn default_epsilon() -> Sym { num_traits::real::Real::epsilon() }
    fn abs_diff_eq(&self, o: &Sym, _eps: Sym) -> bool { self == o }
}
impl approx::RelativeEq for Sym {
    fn default_max_relative() -> Sym { num_traits::real::Real::epsilon() }
    fn relative_eq(&self, o: &Sym, _eps: Sym, _max_rel: Sym) -> bool { self == o }
}
impl approx::UlpsEq for Sym {
    fn default_max_ulps() -> u32 { 4 }
    fn ulps_eq(&self, o: &Sym, _eps: Sym, _ulps: u32) -> bool { self == o }
}
impl vek::ops::Clamp for Sym {
    fn clamped(self, lower: Sym, upper: Sym) -> Sym { assert!(lower <= upper); vek::ops::partial_min(vek::ops::partial_max(self, lower), upper) }
}
impl vek::ops::IsBetween for Sym {
    type Output = bool;
    fn is_between(self, lower: Sym, upper: Sym) -> bool { assert!(lower <= upper); lower <= self && self <= upper }
}
impl vek::ops::Lerp<Sym> for Sym {
    type Output = Sym;
    fn lerp_unclamped_precise(from: Sym, to: Sym, factor: Sym) -> Sym { from * (Sym::int(1) - factor) + to * factor }
    fn lerp_unclamped(from: Sym, to: Sym, factor: Sym) -> Sym { factor * (to - from) + from }
}
impl<'a> vek::ops::Lerp<Sym> for &'a Sym {
    type Output = Sym;
    fn lerp_unclamped_precise(from: &Sym, to: &Sym, factor: Sym) -> Sym { vek::ops::Lerp::lerp_unclamped_precise(*from, *to, factor) }
    fn lerp_unclamped(from: &Sym, to: &Sym, factor: Sym) -> Sym { vek::ops::Lerp::lerp_unclamped(*from, *to, factor) }
}
impl vek::ops::ColorComponent for Sym { fn full() -> Sym { Sym::int(1) } }
