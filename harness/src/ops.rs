//! C17 (and integer C12) replay: the real vek range operations against the tables
//! TLC printed from spec/VekOps.tla (binding B3, spec -> code).
use crate::util::*;
use rand::{rngs::StdRng, Rng, SeedableRng};
use serde_json::json;
use std::fmt::Debug;
use std::num::Wrapping;
use vek::ops::{Clamp, IsBetween, Wrap};
use vek::*;

pub const PANIC: i64 = 999999;

pub trait WInt: Copy + PartialEq + Debug + 'static + Clamp + IsBetween<Output = bool> + Wrap {
    const BITS: u32;
    const SIGNED: bool;
    const NAME: &'static str;
    fn from_i128(v: i128) -> Self;
    fn to_i128(self) -> i128;
}
macro_rules! wint {
    ($($t:ty, $bits:expr, $signed:expr);+ $(;)?) => {$(
        impl WInt for $t {
            const BITS: u32 = $bits; const SIGNED: bool = $signed; const NAME: &'static str = stringify!($t);
            fn from_i128(v: i128) -> Self { v as $t }
            fn to_i128(self) -> i128 { self as i128 }
        }
        impl WInt for Wrapping<$t> {
            const BITS: u32 = $bits; const SIGNED: bool = $signed; const NAME: &'static str = concat!("Wrapping<", stringify!($t), ">");
            fn from_i128(v: i128) -> Self { Wrapping(v as $t) }
            fn to_i128(self) -> i128 { self.0 as i128 }
        }
    )+};
}
wint! { i8, 8, true; i16, 16, true; i32, 32, true; i64, 64, true; isize, 64, true;
        u8, 8, false; u16, 16, false; u32, 32, false; u64, 64, false; usize, 64, false }

#[derive(Clone, Copy, PartialEq, Eq, Debug)]
pub enum Fun { Clamped, IsBetween, WrappedBetween, Wrapped, PingPong }
impl Fun {
    fn parse(s: &str) -> Fun {
        match s { "clamped" => Fun::Clamped, "is_between" => Fun::IsBetween, "wrapped_between" => Fun::WrappedBetween,
                  "wrapped" => Fun::Wrapped, "pingpong" => Fun::PingPong, _ => panic!("unknown fn {}", s) }
    }
    fn name(self) -> &'static str {
        match self { Fun::Clamped => "clamped", Fun::IsBetween => "is_between", Fun::WrappedBetween => "wrapped_between",
                     Fun::Wrapped => "wrapped", Fun::PingPong => "pingpong" }
    }
}

/// Calls the real vek scalar operation; `None` = it panicked.  Several API aliases are
/// rotated through by `alias` so that each is exercised (they must all agree).
fn call<T: WInt>(f: Fun, x: T, lo: T, hi: T, alias: u32) -> Option<i128> {
    guarded(|| match f {
        Fun::Clamped => match alias % 4 {
            0 => x.clamped(lo, hi),
            1 => T::clamp(x, lo, hi),
            2 => x.clamped_to_inclusive_range(lo..=hi),
            _ => T::clamp_to_inclusive_range(x, lo..=hi),
        }.to_i128(),
        Fun::IsBetween => (match alias % 2 {
            0 => x.is_between(lo, hi),
            _ => x.is_between_inclusive_range_bounds(lo..=hi),
        }) as i128,
        Fun::WrappedBetween => x.wrapped_between(lo, hi).to_i128(),
        Fun::Wrapped => match alias % 2 { 0 => x.wrapped(hi), _ => T::wrap(x, hi) }.to_i128(),
        Fun::PingPong => x.pingpong(hi).to_i128(),
    })
}

struct Row { f: Fun, lo: i64, hi: i64, v: Vec<i64> }

fn fits<T: WInt>(v: i128) -> bool {
    let (mn, mx) = if T::SIGNED { (-(1i128 << (T::BITS - 1)), (1i128 << (T::BITS - 1)) - 1) } else { (0, (1i128 << T::BITS) - 1) };
    mn <= v && v <= mx
}

/// One table row against one integer type, inputs multiplied by 2^shift (shift = BITS-8
/// puts the 8-bit boundary cases at the range ends of the wide type; by the spec law
/// `homogeneous` (MC_Ops) the expected result is the table value times 2^shift).
fn run_row<T: WInt>(rep: &mut Report, row: &Row, signed: bool, shift: u32, stride: usize, alias: u32) {
    let min8: i64 = if signed { -128 } else { 0 };
    let k: i128 = 1i128 << shift;
    let (lo, hi) = (row.lo as i128 * k, row.hi as i128 * k);
    if !fits::<T>(lo) || !fits::<T>(hi) { return; }
    let mut i = 0usize;
    while i < 256 {
        let x8 = min8 + i as i64;
        let x = x8 as i128 * k;
        let e = row.v[i];
        let expect: Option<i128> = if e == PANIC { None } else if row.f == Fun::IsBetween { Some(e as i128) } else { Some(e as i128 * k) };
        let got = call::<T>(row.f, T::from_i128(x), T::from_i128(lo), T::from_i128(hi), alias + i as u32);
        rep.evals += 1;
        if got != expect {
            rep.mismatch(json!({"fn": row.f.name(), "ty": T::NAME, "x": x.to_string(), "lo": lo.to_string(), "hi": lo_hi_str(hi),
                "expected": expect.map(|v| v.to_string()).unwrap_or("panic".into()),
                "observed": got.map(|v| v.to_string()).unwrap_or("panic".into()),
                "key": format!("{}/{}", row.f.name(), if T::SIGNED {"signed"} else {"unsigned"}), "shift": shift}));
        }
        i += stride;
    }
}
fn lo_hi_str(v: i128) -> String { v.to_string() }

macro_rules! run_family {
    ($rep:expr, $row:expr, $signed:expr, $wide_stride:expr, $alias:expr; $t8:ty; $($t:ty),+) => {{
        run_row::<$t8>($rep, $row, $signed, 0, 1, $alias);
        run_row::<Wrapping<$t8>>($rep, $row, $signed, 0, 1, $alias);
        $(
            run_row::<$t>($rep, $row, $signed, 0, $wide_stride, $alias);
            run_row::<$t>($rep, $row, $signed, <$t as WInt>::BITS - 8, $wide_stride, $alias);
            run_row::<Wrapping<$t>>($rep, $row, $signed, 0, $wide_stride, $alias);
            run_row::<Wrapping<$t>>($rep, $row, $signed, <$t as WInt>::BITS - 8, $wide_stride, $alias);
        )+
    }};
}

#[derive(Clone, Copy)]
struct Lane { f: Fun, x: i64, lo: i64, hi: i64, e: i64 }

pub fn replay(args: &[String]) {
    let tables = arg(args, "--tables").expect("--tables");
    let out = arg(args, "--out").expect("--out");
    let signed = arg_or(args, "--signed", "1") == "1";
    let wide_stride: usize = arg_or(args, "--wide-stride", "7").parse().unwrap();
    let seed: u64 = arg_or(args, "--seed", "1").parse().unwrap();
    let vec_rounds: usize = arg_or(args, "--vec-rounds", "200").parse().unwrap();
    silence_panics();
    let mut rep = Report::new();
    let mut rng = StdRng::seed_from_u64(seed);
    let mut lanes: Vec<Lane> = vec![];
    let mut rows_keep: Vec<Row> = vec![];
    let mut nrow = 0u32;
    read_tlc_json_lines(&tables, |v| {
        let row = Row { f: Fun::parse(v["f"].as_str().unwrap()), lo: v["lo"].as_i64().unwrap(), hi: v["hi"].as_i64().unwrap(),
                        v: v["v"].as_array().unwrap().iter().map(|x| x.as_i64().unwrap()).collect() };
        assert_eq!(row.v.len(), 256);
        nrow += 1;
        rep.tables += 1;
        if row.v.iter().any(|&e| e != PANIC) { rep.nontrivial += 1; }
        if signed { run_family!(&mut rep, &row, true, wide_stride, nrow; i8; i16, i32, i64, isize); }
        else { run_family!(&mut rep, &row, false, wide_stride, nrow; u8; u16, u32, u64, usize); }
        // reservoir of lane samples for the vector lifts
        let min8: i64 = if signed { -128 } else { 0 };
        for _ in 0..2 {
            let i = rng.gen_range(0..256usize);
            let l = Lane { f: row.f, x: min8 + i as i64, lo: row.lo, hi: row.hi, e: row.v[i] };
            if lanes.len() < 200_000 { lanes.push(l); } else { let j = rng.gen_range(0..lanes.len()); lanes[j] = l; }
        }
        if rows_keep.len() < 4000 { rows_keep.push(row); } else if rng.gen_range(0..16) == 0 { let j = rng.gen_range(0..4000); rows_keep[j] = row; }
        if rep.samples.len() < 3 { rep.sample(json!({"table_row": {"fn": v["f"], "lo": v["lo"], "hi": v["hi"], "first8": &v["v"].as_array().unwrap()[..8]}})); }
    });
    if signed { vec_lifts::<i8>(&mut rep, &lanes, &rows_keep, &mut rng, vec_rounds, true); vec_lifts::<Wrapping<i8>>(&mut rep, &lanes, &rows_keep, &mut rng, vec_rounds / 2, true); }
    else { vec_lifts::<u8>(&mut rep, &lanes, &rows_keep, &mut rng, vec_rounds, false); vec_lifts::<Wrapping<u8>>(&mut rep, &lanes, &rows_keep, &mut rng, vec_rounds / 2, false); }
    rep.finish(&out);
}

/// Vector forms: per-element bounds (`Wrap<Vec<T>> for Vec<T>` ...) and scalar bounds
/// (`Wrap<T> for Vec<T>` ...), on every vector type; expected = the table entries.
fn vec_lifts<T: WInt>(rep: &mut Report, lanes: &[Lane], rows: &[Row], rng: &mut StdRng, rounds: usize, signed: bool) {
    if lanes.is_empty() { return; }
    let min8: i64 = if signed { -128 } else { 0 };
    macro_rules! one {
        ($V:ident, $n:expr, $name:expr) => {{
            for round in 0..rounds {
                // --- per-element bounds
                let f = lanes[rng.gen_range(0..lanes.len())].f;
                let allow_panic = round % 5 == 0;
                let mut pick: Vec<Lane> = vec![];
                let mut guard = 0;
                while pick.len() < $n && guard < 100000 {
                    guard += 1;
                    let l = lanes[rng.gen_range(0..lanes.len())];
                    if l.f == f && (allow_panic || l.e != PANIC) { pick.push(l); }
                }
                if pick.len() == $n {
                    let xs: [T; $n] = std::array::from_fn(|j| T::from_i128(pick[j].x as i128));
                    let los: [T; $n] = std::array::from_fn(|j| T::from_i128(pick[j].lo as i128));
                    let his: [T; $n] = std::array::from_fn(|j| T::from_i128(pick[j].hi as i128));
                    let (x, lo, hi) = ($V::<T>::from(xs), $V::<T>::from(los), $V::<T>::from(his));
                    let got: Option<Vec<i128>> = guarded(|| match f {
                        Fun::Clamped => x.clamped(lo, hi).into_array().iter().map(|e| e.to_i128()).collect(),
                        Fun::IsBetween => x.is_between(lo, hi).into_array().iter().map(|e| *e as i128).collect(),
                        Fun::WrappedBetween => x.wrapped_between(lo, hi).into_array().iter().map(|e| e.to_i128()).collect(),
                        Fun::Wrapped => x.wrapped(hi).into_array().iter().map(|e| e.to_i128()).collect(),
                        Fun::PingPong => x.pingpong(hi).into_array().iter().map(|e| e.to_i128()).collect(),
                    });
                    let expect: Option<Vec<i128>> = if pick.iter().any(|l| l.e == PANIC) { None } else { Some(pick.iter().map(|l| l.e as i128).collect()) };
                    rep.evals += 1;
                    if got != expect {
                        rep.mismatch(json!({"fn": f.name(), "ty": format!("{}<{}>", $name, T::NAME), "form": "per-element bounds",
                            "x": pick.iter().map(|l| l.x).collect::<Vec<_>>(), "lo": pick.iter().map(|l| l.lo).collect::<Vec<_>>(),
                            "hi": pick.iter().map(|l| l.hi).collect::<Vec<_>>(), "expected": format!("{:?}", expect), "observed": format!("{:?}", got),
                            "key": format!("{}/vector-lift", f.name())}));
                    }
                }
                // --- scalar bounds broadcast to every element
                let row = &rows[rng.gen_range(0..rows.len())];
                let idx: [usize; $n] = std::array::from_fn(|_| rng.gen_range(0..256usize));
                let xs: [T; $n] = std::array::from_fn(|j| T::from_i128((min8 + idx[j] as i64) as i128));
                let x = $V::<T>::from(xs);
                let (lo, hi) = (T::from_i128(row.lo as i128), T::from_i128(row.hi as i128));
                let got: Option<Vec<i128>> = guarded(|| match row.f {
                    Fun::Clamped => Clamp::<T>::clamped(x, lo, hi).into_array().iter().map(|e| e.to_i128()).collect(),
                    Fun::IsBetween => IsBetween::<T>::is_between(x, lo, hi).into_array().iter().map(|e| *e as i128).collect(),
                    Fun::WrappedBetween => Wrap::<T>::wrapped_between(x, lo, hi).into_array().iter().map(|e| e.to_i128()).collect(),
                    Fun::Wrapped => Wrap::<T>::wrapped(x, hi).into_array().iter().map(|e| e.to_i128()).collect(),
                    Fun::PingPong => Wrap::<T>::pingpong(x, hi).into_array().iter().map(|e| e.to_i128()).collect(),
                });
                let ev: Vec<i64> = idx.iter().map(|&i| row.v[i]).collect();
                let expect: Option<Vec<i128>> = if ev.iter().any(|&e| e == PANIC) { None } else { Some(ev.iter().map(|&e| e as i128).collect()) };
                rep.evals += 1;
                if got != expect {
                    rep.mismatch(json!({"fn": row.f.name(), "ty": format!("{}<{}>", $name, T::NAME), "form": "scalar bounds",
                        "x": idx.iter().map(|&i| min8 + i as i64).collect::<Vec<_>>(), "lo": row.lo, "hi": row.hi,
                        "expected": format!("{:?}", expect), "observed": format!("{:?}", got), "key": format!("{}/vector-lift", row.f.name())}));
                }
            }
        }};
    }
    for_all_vecs!(one);
}

// ---------------------------------------------------------------------------
// B2 driver: float and angle forms, logged for spec/Trace_Ops.tla
pub const INEXACT: i64 = 888888;
const INF: i64 = 1073741824;

trait Fl: Copy + PartialOrd + Debug + Clamp + IsBetween<Output = bool> + Wrap + std::ops::Sub<Output = Self> + std::ops::Add<Output = Self> + From<u16> + num_traits::FloatConst + num_traits::Zero + num_traits::One + std::ops::Neg<Output = Self> + 'static {
    const NAME: &'static str;
    fn of(x: i64, s: u32) -> Self;
    fn scaled(self, s: u32) -> i64;
    fn to_f64(self) -> f64;
    /// (self, target) pairs whose difference is EXACTLY half a turn in this float type
    fn half_turns() -> Vec<(Self, Self)> where Self: Sized;
}
macro_rules! fl { ($t:ty) => {
    impl Fl for $t {
        const NAME: &'static str = stringify!($t);
        fn of(x: i64, s: u32) -> Self { if x == INF { <$t>::INFINITY } else if x == -INF { <$t>::NEG_INFINITY } else { (x as $t) / ((1u64 << s) as $t) } }
        fn scaled(self, s: u32) -> i64 {
            if self == <$t>::INFINITY { return INF; } if self == <$t>::NEG_INFINITY { return -INF; }
            let v = self * ((1u64 << s) as $t);
            if v.fract() == 0.0 && v.abs() < 1e9 { v as i64 } else { INEXACT }
        }
        fn to_f64(self) -> f64 { self as f64 }
        fn half_turns() -> Vec<($t, $t)> {
            let pi = <$t as num_traits::FloatConst>::PI();
            vec![(0.0, pi), (-pi / 2.0, pi / 2.0), (pi, 0.0), (pi / 2.0, -pi / 2.0), (-pi, 0.0), (0.0, -pi), (pi / 4.0, pi / 4.0 + pi)]
        }
    }
}}
fl!(f32); fl!(f64);

fn drive_float<T: Fl>(out: &mut TraceOut, rng: &mut StdRng, n: usize) {
    for i in 0..n {
        let s: u32 = rng.gen_range(0..10);
        let big = T::NAME == "f64" && i % 4 == 0;
        let hi: i64 = match rng.gen_range(0..6) { 0 => 1, 1 => 1 << rng.gen_range(0..10), _ => rng.gen_range(1..1024) };
        let lo: i64 = if rng.gen_range(0..3) == 0 { 0 } else { rng.gen_range(0..hi.max(1)) };
        let qmax: i64 = if big { 1 << 16 } else { 1 << 9 };
        let x: i64 = match rng.gen_range(0..8) {
            0 => hi * rng.gen_range(-qmax..qmax),                 // exact multiples of upper
            1 => (hi - lo).max(1) * rng.gen_range(-qmax..qmax) + lo,
            2 => rng.gen_range(-3..4),
            3 => hi * rng.gen_range(-qmax..qmax) + [1, -1][rng.gen_range(0..2)], // next to a multiple
            _ => rng.gen_range(-(hi * qmax)..(hi * qmax)),
        };
        let op = ["clamped", "is_between", "wrapped", "wrapped_between", "pingpong", "delta_angle_degrees"][i % 6];
        let (fx, flo, fhi) = (T::of(x, s), T::of(lo, s), T::of(hi, s));
        let mut rec = json!({"op": op, "ty": T::NAME, "s": s, "x": x, "lo": lo, "hi": hi});
        let r: i64 = match op {
            "clamped" => {
                // also unordered / infinite operands
                let (x2, lo2, hi2) = match rng.gen_range(0..6) { 0 => (INF, lo, hi), 1 => (-INF, lo, hi), 2 => (x, hi, lo), 3 => (x, lo, lo), _ => (x, lo, hi) };
                rec["x"] = json!(x2); rec["lo"] = json!(lo2); rec["hi"] = json!(hi2);
                guarded(|| T::of(x2, s).clamped(T::of(lo2, s), T::of(hi2, s))).map(|v| v.scaled(s)).unwrap_or(PANIC)
            }
            "is_between" => {
                let (x2, lo2, hi2) = match rng.gen_range(0..6) { 0 => (INF, lo, hi), 1 => (x, hi, lo), 2 => (lo, lo, lo), 3 => (hi, lo, hi), _ => (x, lo, hi) };
                rec["x"] = json!(x2); rec["lo"] = json!(lo2); rec["hi"] = json!(hi2);
                guarded(|| T::of(x2, s).is_between(T::of(lo2, s), T::of(hi2, s))).map(|v| v as i64).unwrap_or(PANIC)
            }
            "wrapped" => {
                let hi2 = if rng.gen_range(0..12) == 0 { -hi * rng.gen_range(0..2) } else { hi };   // documented panic upper <= 0
                rec["hi"] = json!(hi2);
                guarded(|| fx.wrapped(T::of(hi2, s))).map(|v| v.scaled(s)).unwrap_or(PANIC)
            }
            "wrapped_between" => {
                let (lo2, hi2) = match rng.gen_range(0..12) { 0 => (hi, lo), 1 => (lo, lo), 2 => (-1 - lo, hi), _ => (lo, hi) };
                rec["lo"] = json!(lo2); rec["hi"] = json!(hi2);
                guarded(|| if i % 12 < 6 { fx.wrapped_between(T::of(lo2, s), T::of(hi2, s)) } else { Wrap::<T>::wrap_between(fx, T::of(lo2, s), T::of(hi2, s)) }).map(|v| v.scaled(s)).unwrap_or(PANIC)
            }
            "pingpong" => {
                let hi2 = if rng.gen_range(0..12) == 0 { -hi * rng.gen_range(0..2) } else { hi };
                rec["hi"] = json!(hi2);
                guarded(|| fx.pingpong(T::of(hi2, s))).map(|v| v.scaled(s)).unwrap_or(PANIC)
            }
            _ => {
                // degrees: self = x, target = hi (any sign); a full turn is 360 * 2^s
                let turn = 360i64 << s;
                let a: i64 = rng.gen_range(-4..5) * turn / 4 * rng.gen_range(0..2) + rng.gen_range(-(turn * 2)..(turn * 2)) * rng.gen_range(0..2);
                let b: i64 = match rng.gen_range(0..4) { 0 => a + turn / 2, 1 => a - turn / 2, 2 => a + turn / 2 + turn * rng.gen_range(-2..3), _ => rng.gen_range(-(turn * 2)..(turn * 2)) };
                rec["x"] = json!(a); rec["hi"] = json!(b); rec["turn"] = json!(turn); rec["lo"] = json!(0);
                guarded(|| Wrap::<T>::delta_angle_degrees(T::of(a, s), T::of(b, s))).map(|v| v.scaled(s)).unwrap_or(PANIC)
            }
        };
        rec["r"] = json!(r);
        out.emit(rec);
        // radians: compared with a slack (pi is irrational)
        if i % 6 == 5 {
            let a = rng.gen_range(-20.0f64..20.0); let b = rng.gen_range(-20.0f64..20.0);
            let (fa, fb) = (T::of((a * 65536.0) as i64, 16), T::of((b * 65536.0) as i64, 16));
            if let Some(d) = guarded(|| Wrap::<T>::delta_angle(fa, fb)) {
                let d = d.to_f64();
                let k = ((d - (fb.to_f64() - fa.to_f64())) / std::f64::consts::TAU).round() as i64;
                out.emit(json!({"op": "delta_angle", "ty": T::NAME, "s": 16, "x": (fa.to_f64() * 65536.0).round() as i64, "lo": 0,
                    "hi": (fb.to_f64() * 65536.0).round() as i64, "k": k, "r": (d * 65536.0).round() as i64}));
            }
            // exactly half a turn apart: the range is (-pi, pi], so the answer is +pi, never -pi
            for (fa, fb) in T::half_turns() {
                if let Some(d) = guarded(|| Wrap::<T>::delta_angle(fa, fb)) {
                    let d = d.to_f64();
                    let k = ((d - (fb.to_f64() - fa.to_f64())) / std::f64::consts::TAU).round() as i64;
                    out.emit(json!({"op": "delta_angle", "ty": T::NAME, "s": 16, "x": (fa.to_f64() * 65536.0).round() as i64, "lo": 0, "half": 1,
                        "hi": (fb.to_f64() * 65536.0).round() as i64, "k": k, "r": (d * 65536.0).round() as i64}));
                }
            }
            // the fixed-bound forms: clamp to [0,1] and [-1,1] (four aliases), wrap to [0, 2 pi) (two aliases)
            let one = 1i64 << s;
            for (k, (lo2, hi2)) in [(0i64, one), (0, one), (-one, one), (-one, one)].iter().enumerate() {
                let r = guarded(|| match k { 0 => fx.clamped01(), 1 => Clamp::<T>::clamp01(fx), 2 => fx.clamped_minus1_1(), _ => Clamp::<T>::clamp_minus1_1(fx) }).map(|v| v.scaled(s)).unwrap_or(PANIC);
                out.emit(json!({"op": "clamped", "ty": T::NAME, "s": s, "x": x, "lo": lo2, "hi": hi2, "r": r}));
            }
            for k in 0..2 {
                if let Some(w) = guarded(|| if k == 0 { Wrap::<T>::wrapped_2pi(fa) } else { Wrap::<T>::wrap_2pi(fa) }) {
                    let w = w.to_f64();
                    let kk = ((fa.to_f64() - w) / std::f64::consts::TAU).round() as i64;
                    out.emit(json!({"op": "wrap_2pi", "ty": T::NAME, "s": 16, "x": (fa.to_f64() * 65536.0).round() as i64, "lo": 0, "hi": 0, "k": kk, "r": (w * 65536.0).round() as i64}));
                }
            }
            // tiny negative input: inexact, only the closed range [0, upper] is demanded
            let tiny = T::of(-1, 9) ; let up = T::of(hi, s);
            if let Some(w) = guarded(|| { let t = tiny - T::of(0, 0); let t = t.to_f64() * 1e-30; let _ = t; T::of(-1, 9).wrapped(up) }) {
                let ok = w >= T::of(0, 0) && w <= up;
                out.emit(json!({"op": "in_range", "ty": T::NAME, "s": s, "x": -1, "lo": 0, "hi": hi, "r": ok as i64}));
            }
        }
    }
}

pub fn drive(args: &[String]) {
    let out = arg(args, "--out").expect("--out");
    let seed: u64 = arg_or(args, "--seed", "1").parse().unwrap();
    let n: usize = arg_or(args, "--n", "3000").parse().unwrap();
    silence_panics();
    let mut rng = StdRng::seed_from_u64(seed);
    let mut t = TraceOut::create(&out);
    drive_float::<f32>(&mut t, &mut rng, n);
    drive_float::<f64>(&mut t, &mut rng, n);
}
