//! C11: spatial vector functions on every spatial vector type, exact rationals logged as pairs
//! (ordered field): algebraic functions recomputed by TLC, magnitudes / normalisations as witnessed
//! square roots, angles as tokens, thresholds on floats.
use crate::alg::*;
use crate::q::Q;
use crate::util::*;
use rand::Rng;
use serde_json::{json, Value};
use vek::*;

/// n-vector with rational length: k*k entries equal to one unit value (or a Pythagorean triple), zeros
/// elsewhere, at random positions, scaled by a non-zero rational.  Returns (vector, length).
fn ratvec(d: &mut Drv, n: usize) -> (Vec<Q>, Q) {
    let mut v = vec![0i64; n];
    let len: i64;
    let mut pos: Vec<usize> = (0..n).collect();
    for i in (1..n).rev() { let j = d.rng.gen_range(0..=i); pos.swap(i, j); }
    let choice = d.pick(3);
    if n >= 3 && choice == 0 {
        let t = [(1, 2, 2, 3), (2, 3, 6, 7), (4, 4, 7, 9), (0, 3, 4, 5)][d.pick(4)];
        v[pos[0]] = t.0; v[pos[1]] = t.1; v[pos[2]] = t.2; len = t.3;
    } else if n >= 4 && choice == 1 {
        let k = (1..=8).filter(|k| k * k <= n).last().unwrap();
        for i in 0..k * k { v[pos[i]] = if d.pick(2) == 0 { 1 } else { -1 }; }
        len = k as i64;
    } else {
        let t = [(3, 4, 5), (4, 3, 5), (1, 0, 1), (0, 2, 2), (5, 12, 13)][d.pick(5)];
        v[pos[0]] = t.0; v[pos[1]] = t.1; len = t.2;
    }
    let s = Q::frac([1, 2, 3, 1, 5][d.pick(5)], [1, 2, 1, 3, 4][d.pick(5)]);
    let sg = if d.pick(2) == 0 { Q::int(-1) } else { Q::int(1) };
    (v.iter().map(|x| Q::int(*x) * s * sg).collect(), Q::int(len) * s)
}
fn smallints(d: &mut Drv, n: usize) -> Vec<Q> { (0..n).map(|_| Q::int(d.rng.gen_range(-4..=4))).collect() }

fn generic(d: &mut Drv) {
    macro_rules! one {
        ($V:ident, $n:expr, $name:expr) => {{
            let (a, b, c) = (smallints(d, $n), smallints(d, $n), smallints(d, $n));
            let (va, vb, vc) = ($V::<Q>::from_slice(&a), $V::<Q>::from_slice(&b), $V::<Q>::from_slice(&c));
            let o = |v: $V<Q>| evs(&v.into_iter().collect::<Vec<Q>>());
            let ab = || json!({"ty": $name, "a": evs(&a), "b": evs(&b)});
            d.call("v_dot", ab, || ev(va.dot(vb)));
            d.call("v_mag2", || json!({"ty": $name, "a": evs(&a)}), || ev(va.magnitude_squared()));
            d.call("v_dist2", ab, || ev(va.distance_squared(vb)));
            // reflection about a rational unit normal, and about an arbitrary vector (the formula is stated for any n)
            let (nv, nl) = ratvec(d, $n);
            let unit: Vec<Q> = nv.iter().map(|x| *x / nl).collect();
            d.call("v_reflect", || json!({"ty": $name, "a": evs(&a), "n": evs(&unit), "unit": 1}), || o(va.reflected($V::<Q>::from_slice(&unit))));
            d.call("v_reflect", || json!({"ty": $name, "a": evs(&a), "n": evs(&b), "unit": 0}), || o(va.reflected(vb)));
            // magnitude family on vectors of rational length
            let (r, len) = ratvec(d, $n);
            let vr = $V::<Q>::from_slice(&r);
            let (r2, _) = ratvec(d, $n);
            let vr2 = $V::<Q>::from_slice(&r2);
            let diff: Vec<Q> = r.iter().zip(&r2).map(|(x, y)| *x - *y).collect();
            d.call("v_mag", || json!({"ty": $name, "how": "magnitude", "a": evs(&r)}), || ev(vr.magnitude()));
            d.call("v_mag", || json!({"ty": $name, "how": "distance", "a": evs(&diff)}), || ev(vr.distance(vr2)));
            let nrm = |how: &str| json!({"ty": $name, "how": how, "a": evs(&r)});
            d.call("v_norm", || nrm("normalized"), || json!({"v": o(vr.normalized()), "m": ev(len)}));
            d.call("v_norm", || nrm("normalize"), || { let mut x = vr; x.normalize(); json!({"v": o(x), "m": ev(len)}) });
            d.call("v_norm", || nrm("normalized_and_get_magnitude"), || { let (x, m) = vr.normalized_and_get_magnitude(); json!({"v": o(x), "m": ev(m)}) });
            d.call("v_norm", || nrm("normalize_and_get_magnitude"), || { let mut x = vr; let m = x.normalize_and_get_magnitude(); json!({"v": o(x), "m": ev(m)}) });
            d.call("v_norm", || nrm("try_normalized"), || match vr.try_normalized() { Some(x) => json!({"v": o(x), "m": ev(len)}), None => json!({"v": [], "m": ev(Q::int(0))}) });
            // predicates: is_normalized / is_approx_zero / is_magnitude_close_to
            let unit2: Vec<Q> = r.iter().map(|x| *x / len).collect();
            let p = |how: &str, v: &[Q], x: Q| json!({"ty": $name, "how": how, "a": evs(v), "x": ev(x)});
            d.call("v_pred", || p("is_normalized", &unit2, Q::int(1)), || json!($V::<Q>::from_slice(&unit2).is_normalized() as i64));
            d.call("v_pred", || p("is_normalized", &r, Q::int(1)), || json!(vr.is_normalized() as i64));
            d.call("v_pred", || p("is_approx_zero", &r, Q::int(0)), || json!(vr.is_approx_zero() as i64));
            d.call("v_pred", || p("is_approx_zero", &vec![Q::int(0); $n], Q::int(0)), || json!($V::<Q>::zero().is_approx_zero() as i64));
            d.call("v_pred", || p("is_magnitude_close_to", &r, len), || json!(vr.is_magnitude_close_to(len) as i64));
            d.call("v_pred", || p("is_magnitude_close_to", &r, len + Q::int(1)), || json!(vr.is_magnitude_close_to(len + Q::int(1)) as i64));
            // face_forward: sign of reference . incident negative / zero / positive
            let ff = |i: &[Q], rf: &[Q]| json!({"ty": $name, "a": evs(&a), "i": evs(i), "r": evs(rf)});
            let neg_c: Vec<Q> = c.iter().map(|x| -*x).collect();
            let mut ortho = vec![Q::int(0); $n]; ortho[0] = c[1]; ortho[1] = -c[0];
            d.call("v_face", || ff(&c, &c), || o(va.face_forward(vc, vc)));
            d.call("v_face", || ff(&c, &neg_c), || o(va.face_forward(vc, $V::<Q>::from_slice(&neg_c))));
            d.call("v_face", || ff(&c, &ortho), || o(va.face_forward(vc, $V::<Q>::from_slice(&ortho))));
            d.call("v_face", || ff(&b, &c), || o(va.face_forward(vb, vc)));
            // angle between: b2 = a2 rotated by a token angle in a coordinate plane, both with rational length
            let (a2, _) = ratvec(d, $n);
            // magnitudes stay within TLC's 32-bit integers: the (12/13, 5/13) base only up to the second multiple
            let bi = d.rng.gen_range(0..2u8);
            let k = if bi == 0 { d.rng.gen_range(0..=3i64) } else { d.rng.gen_range(0..=2i64) };
            let (i0, i1) = { let i = d.pick($n); let mut j = d.pick($n); if j == i { j = (i + 1) % $n; } (i, j) };
            let (cs, sn) = Q::angle(bi, k).cos_sin();
            let mut b2 = a2.clone();
            b2[i0] = cs * a2[i0] - sn * a2[i1]; b2[i1] = sn * a2[i0] + cs * a2[i1];
            let mu = Q::frac(d.rng.gen_range(1..=3), 2);
            let b2: Vec<Q> = b2.iter().map(|x| *x * mu).collect();
            d.call("v_angle", || json!({"ty": $name, "a": evs(&a2), "b": evs(&b2), "deg": 0}), || crate::xform_token(($V::<Q>::from_slice(&a2)).angle_between($V::<Q>::from_slice(&b2))));
            // degrees: right / straight / zero angles
            let perp = { let mut p = vec![Q::int(0); $n]; p[i0] = -a2[i1]; p[i1] = a2[i0]; if p.iter().all(|x| x.n == 0) { p[i0] = Q::int(0); p[i1] = Q::int(0); } p };
            let opp: Vec<Q> = a2.iter().map(|x| -*x * mu).collect();
            d.call("v_angle", || json!({"ty": $name, "a": evs(&a2), "b": evs(&opp), "deg": 1}), || ev(($V::<Q>::from_slice(&a2)).angle_between_degrees($V::<Q>::from_slice(&opp))));
            d.call("v_angle", || json!({"ty": $name, "a": evs(&a2), "b": evs(&a2), "deg": 1}), || ev(($V::<Q>::from_slice(&a2)).angle_between_degrees($V::<Q>::from_slice(&a2))));
            if a2[i0].n != 0 || a2[i1].n != 0 {
                let mut a3 = vec![Q::int(0); $n]; a3[i0] = a2[i0]; a3[i1] = a2[i1];
                if let Some(l3) = (a3[i0] * a3[i0] + a3[i1] * a3[i1]).sqrt_exact() { let _ = l3;
                    d.call("v_angle", || json!({"ty": $name, "a": evs(&a3), "b": evs(&perp), "deg": 1}), || ev(($V::<Q>::from_slice(&a3)).angle_between_degrees($V::<Q>::from_slice(&perp))));
                }
            }
            // refraction: unit normal n, unit tangent t (orthogonal), incidence (c1, s1), transmission (c2, s2), eta = s2 / s1
            if $n >= 2 {
                let (nn, nl) = ratvec(d, $n);
                let un: Vec<Q> = nn.iter().map(|x| *x / nl).collect();
                // a unit tangent orthogonal to un inside a coordinate plane where un has support, else any other axis
                let nzs: Vec<usize> = (0..$n).filter(|i| un[*i].n != 0).collect();
                let mut ut = vec![Q::int(0); $n];
                if nzs.len() >= 2 {
                    let (p, q) = (nzs[0], nzs[1]);
                    let h2 = un[p] * un[p] + un[q] * un[q];
                    if let Some(h) = h2.sqrt_exact() { ut[p] = -un[q] / h; ut[q] = un[p] / h; }   // else: no rational tangent in that plane, skip
                } else { let p = nzs[0]; ut[(p + 1) % $n] = Q::int(1); }
                if !ut.iter().all(|x| x.n == 0) {
                    let (c1, s1) = Q::angle(d.rng.gen_range(0..2u8), d.rng.gen_range(1..=2i64)).cos_sin();
                    let total = d.pick(4) == 0;
                    // transmitted angle: a token, or exactly 90 degrees (critical incidence, k = 0: still refracted, grazing)
                    let (c2, s2) = if d.pick(4) == 0 { (Q::int(0), Q::int(1)) } else { Q::angle(d.rng.gen_range(0..2u8), d.rng.gen_range(0..=2i64)).cos_sin() };
                    let eta = if total { Q::int(3) / s1.max_q(Q::frac(1, 2)) } else { s2 / s1 };
                    let inc: Vec<Q> = (0..$n).map(|i| -c1 * un[i] + s1 * ut[i]).collect();
                    d.call("v_refract", || json!({"ty": $name, "i": evs(&inc), "n": evs(&un), "eta": ev(eta), "rootk": ev(if total { Q::int(0) } else { c2 })}),
                           || o($V::<Q>::from_slice(&inc).refracted($V::<Q>::from_slice(&un), eta)));
                }
            }
        }};
    }
    macro_rules! spatial { ($m:ident) => { $m!(Vec2, 2, "Vec2"); $m!(Vec3, 3, "Vec3"); $m!(Vec4, 4, "Vec4"); $m!(Vec8, 8, "Vec8"); $m!(Vec16, 16, "Vec16");
        $m!(Vec32, 32, "Vec32"); $m!(Vec64, 64, "Vec64"); $m!(Extent2, 2, "Extent2"); $m!(Extent3, 3, "Extent3"); } }
    spatial!(one);
}

fn specific(d: &mut Drv) {
    // cross product (Vec3), determine_side / triangle areas (Vec2), homogenisation (Vec4)
    let (a, b) = (smallints(d, 3), smallints(d, 3));
    let (va, vb) = (Vec3::new(a[0], a[1], a[2]), Vec3::new(b[0], b[1], b[2]));
    d.call("v_cross", || json!({"a": evs(&a), "b": evs(&b)}), || { let c = va.cross(vb); evs(&[c.x, c.y, c.z]) });
    let (p, q, r) = (smallints(d, 2), smallints(d, 2), smallints(d, 2));
    let (vp, vq, vr) = (Vec2::new(p[0], p[1]), Vec2::new(q[0], q[1]), Vec2::new(r[0], r[1]));
    let tri = |how: &str| json!({"how": how, "a": evs(&p), "b": evs(&q), "c": evs(&r)});
    d.call("v_side", || tri("determine_side"), || ev(vr.determine_side(vp, vq)));
    d.call("v_side", || tri("signed_triangle_area"), || ev(Vec2::signed_triangle_area(vp, vq, vr)));
    d.call("v_side", || tri("triangle_area"), || ev(Vec2::triangle_area(vp, vq, vr)));
    // integer element types: the area is exact whenever it is an integer (odd products included)
    for _ in 0..4 {
        let g = |d: &mut Drv| -> [i64; 2] { [d.rng.gen_range(-7..=7), d.rng.gen_range(-7..=7)] };
        let (a, b, c) = (g(d), g(d), g(d));
        let ti = |how: &str, ty: &str| json!({"how": how, "ty": ty, "a": a, "b": b, "c": c});
        let (a32, b32, c32) = (Vec2::new(a[0] as i32, a[1] as i32), Vec2::new(b[0] as i32, b[1] as i32), Vec2::new(c[0] as i32, c[1] as i32));
        let (a64, b64, c64) = (Vec2::new(a[0], a[1]), Vec2::new(b[0], b[1]), Vec2::new(c[0], c[1]));
        d.call("v_side_i", || ti("determine_side", "i32"), || json!(c32.determine_side(a32, b32)));
        d.call("v_side_i", || ti("signed_triangle_area", "i32"), || json!(Vec2::signed_triangle_area(a32, b32, c32)));
        d.call("v_side_i", || ti("triangle_area", "i32"), || json!(Vec2::triangle_area(a32, b32, c32)));
        d.call("v_side_i", || ti("signed_triangle_area", "i64"), || json!(Vec2::signed_triangle_area(a64, b64, c64)));
        d.call("v_side_i", || ti("triangle_area", "i64"), || json!(Vec2::triangle_area(a64, b64, c64)));
    }
    // collinear points: zero area
    let m: Vec<Q> = vec![p[0] + (q[0] - p[0]) * Q::int(2), p[1] + (q[1] - p[1]) * Q::int(2)];
    d.call("v_side", || json!({"how": "determine_side", "a": evs(&p), "b": evs(&q), "c": evs(&m)}), || ev(Vec2::new(m[0], m[1]).determine_side(vp, vq)));
    let h = { let mut h = smallints(d, 4); h[3] = nzq(&mut d.rng); h };
    let vh = Vec4::new(h[0], h[1], h[2], h[3]);
    d.call("v_homog", || json!({"how": "homogenized", "a": evs(&h)}), || { let x = vh.homogenized(); evs(&[x.x, x.y, x.z, x.w]) });
    d.call("v_homog", || json!({"how": "homogenize", "a": evs(&h)}), || { let mut x = vh; x.homogenize(); evs(&[x.x, x.y, x.z, x.w]) });
    let pt = [h[0], h[1], h[2], Q::int(1)];
    let dir = [h[0], h[1], h[2], Q::int(0)];
    d.call("v_homog", || json!({"how": "is_point", "a": evs(&pt)}), || json!(Vec4::new(pt[0], pt[1], pt[2], pt[3]).is_point() as i64));
    d.call("v_homog", || json!({"how": "is_point", "a": evs(&dir)}), || json!(Vec4::new(dir[0], dir[1], dir[2], dir[3]).is_point() as i64));
    d.call("v_homog", || json!({"how": "is_direction", "a": evs(&dir)}), || json!(Vec4::new(dir[0], dir[1], dir[2], dir[3]).is_direction() as i64));
    d.call("v_homog", || json!({"how": "is_direction", "a": evs(&h)}), || json!(vh.is_direction() as i64));
    d.call("v_homog", || json!({"how": "is_homogeneous", "a": evs(&pt)}), || json!(Vec4::new(pt[0], pt[1], pt[2], pt[3]).is_homogeneous() as i64));
    d.call("v_homog", || json!({"how": "is_homogeneous", "a": evs(&[h[0], h[1], h[2], Q::int(2)])}), || json!(Vec4::new(h[0], h[1], h[2], Q::int(2)).is_homogeneous() as i64));
    // spherical interpolation of 3D vectors: a rational orthonormal frame gives a unit axis and a unit vector
    // orthogonal to it; from = lambda * that vector, to = mu * lambda * R(axis, k*phi) * it, factor j/k
    {
        let fr = rot_of_quat(&unitquat(&mut d.rng, 1));
        let axis: Vec<Q> = (0..3).map(|i| fr[i][0]).collect();
        let fl = Q::frac(d.rng.gen_range(1..=4), [1, 2][d.pick(2)]);
        let from: Vec<Q> = (0..3).map(|i| fr[i][1] * fl).collect();
        let bi = d.rng.gen_range(0..2u8);
        let k = if bi == 0 { d.rng.gen_range(1..=4i64) } else { d.rng.gen_range(1..=2i64) };
        let (cs, sn) = Q::angle(bi, k).cos_sin();
        let w = [axis[1] * from[2] - axis[2] * from[1], axis[2] * from[0] - axis[0] * from[2], axis[0] * from[1] - axis[1] * from[0]];
        let mu = Q::frac(d.rng.gen_range(1..=4), 2);
        let to: Vec<Q> = (0..3).map(|i| (from[i] * cs + w[i] * sn) * mu).collect();
        let j = d.rng.gen_range(-1..=k + 1);
        let t = Q::frac(j, k);
        let arg = |form: &str, clamped: i64| json!({"form": form, "clamped": clamped, "from": evs(&from), "to": evs(&to), "axis": evs(&axis), "b": bi + 1, "k": k, "t": [j, k], "fl": ev(fl), "mu": ev(mu)});
        let (vf, vt) = (Vec3::new(from[0], from[1], from[2]), Vec3::new(to[0], to[1], to[2]));
        let o3 = |v: Vec3<Q>| evs(&[v.x, v.y, v.z]);
        d.call("v_slerp", || arg("inherent", 0), || o3(Vec3::slerp_unclamped(vf, vt, t)));
        d.call("v_slerp", || arg("trait", 0), || o3(<Vec3<Q> as vek::ops::Slerp<Q>>::slerp_unclamped(vf, vt, t)));
        d.call("v_slerp", || arg("inherent", 1), || o3(Vec3::slerp(vf, vt, t)));
    }
}

/// try_normalized thresholds on floats: refused only for (near-)zero vectors
fn thresholds(d: &mut Drv) {
    for (cls, mag) in [("zero", 0.0f64), ("tiny", 1e-30), ("tiny", 1e-22), ("normal", 1e-3), ("normal", 1.0), ("normal", 1e6)] {
        let v3 = Vec3::new(mag as f32 * 0.6, 0.0, mag as f32 * 0.8);
        d.call("v_try", || json!({"ty": "Vec3<f32>", "class": cls}), || json!(v3.try_normalized().map(|n| ((n.magnitude() - 1.0).abs() < 1e-5) as i64).unwrap_or(-1)));
        let v8 = Vec8::new(mag * 0.6, 0.0, 0.0, mag * 0.8, 0.0, 0.0, 0.0, 0.0);
        d.call("v_try", || json!({"ty": "Vec8<f64>", "class": cls}), || json!(v8.try_normalized().map(|n| ((n.magnitude() - 1.0).abs() < 1e-12) as i64).unwrap_or(-1)));
    }
}

/// angle_between on floats does not depend on the LENGTHS of the vectors: multiples of 45 degrees between vectors that
/// are both very short, ordinary, or both very long (their squared lengths still finite, the product of the squared
/// lengths not); logged as round(angle * 2^16)
fn float_angles(d: &mut Drv) {
    let dirs: [(f64, f64); 5] = [(1.0, 0.0), (1.0, 1.0), (0.0, 1.0), (-1.0, 1.0), (-1.0, 0.0)];
    let sc = |x: f64| if x.is_finite() { (x * 65536.0).round() as i64 } else { -1 };
    for (k, (x, y)) in dirs.iter().enumerate() {
        for mag in [1e-12f64, 1e-3, 1.0, 3e9, 1e10] {
            let (m, xx, yy) = (mag as f32, *x as f32, *y as f32);
            d.call("v_angle_f", || json!({"ty": "Vec2<f32>", "eighths": k, "mag": format!("{:e}", mag)}), || json!(sc(Vec2::new(m, 0.0).angle_between(Vec2::new(xx * m, yy * m)) as f64)));
            d.call("v_angle_f", || json!({"ty": "Vec3<f32>", "eighths": k, "mag": format!("{:e}", mag)}), || json!(sc(Vec3::new(0.0, m, 0.0).angle_between(Vec3::new(0.0, xx * m, yy * m)) as f64)));
            d.call("v_angle_f", || json!({"ty": "Vec8<f32>", "eighths": k, "mag": format!("{:e}", mag)}), || json!(sc(Vec8::new(0.0, 0.0, m, 0.0, 0.0, 0.0, 0.0, 0.0).angle_between(Vec8::new(0.0, 0.0, xx * m, 0.0, 0.0, 0.0, 0.0, yy * m)) as f64)));
        }
        for mag in [1e-90f64, 1.0, 1e80] {
            d.call("v_angle_f", || json!({"ty": "Vec4<f64>", "eighths": k, "mag": format!("{:e}", mag)}), || json!(sc(Vec4::new(mag, 0.0, 0.0, 0.0).angle_between(Vec4::new(x * mag, 0.0, y * mag, 0.0)))));
            d.call("v_angle_f", || json!({"ty": "Extent2<f64>", "eighths": k, "mag": format!("{:e}", mag)}), || json!(sc(vek::Extent2::new(mag, 0.0).angle_between(vek::Extent2::new(x * mag, y * mag)))));
        }
    }
}

pub fn drive_spatial(args: &[String]) {
    let n: usize = arg_or(args, "--n", "10").parse().unwrap();
    let seed: u64 = arg_or(args, "--seed", "1").parse().unwrap();
    let mut d = Drv::new(&arg(args, "--out").expect("--out"), seed);
    set_pair_mode(true);
    thresholds(&mut d);
    float_angles(&mut d);
    for _ in 0..n { generic(&mut d); for _ in 0..4 { specific(&mut d); } }
    d.finish(arg(args, "--summary"));
}
