//! Drivers for projection matrices (C08) and viewport projection / unprojection / picking (C10):
//! calls of the real vek API on exact rationals, logged for validation by spec/Trace_Proj.tla.
use crate::alg::*;
use crate::mat::{em, MatT};
use crate::q::Q;
use crate::util::*;
use rand::Rng;
use serde_json::{json, Value};
use vek::mat::repr_c::column_major as cm;
use vek::mat::repr_c::row_major as rm;
use vek::{FrustumPlanes, Rect, Vec2, Vec3};

fn posq(d: &mut Drv) -> Q { Q::frac(d.rng.gen_range(1..=9), [1, 1, 2, 3, 4][d.pick(5)]) }
/// an off-centre view volume: l != r, b != t, 0 < n < f
fn planes(d: &mut Drv) -> (FrustumPlanes<Q>, Value) {
    let l = smallq(&mut d.rng);
    let b = smallq(&mut d.rng);
    let (w, h) = (posq(d), posq(d));
    // sometimes mirrored (right < left): the statement only asks left != right
    let (r, t) = if d.pick(6) == 0 { (l - w, b - h) } else { (l + w, b + h) };
    let n = posq(d);
    let f = n + posq(d);
    // exact ties: a volume that is symmetric about one axis only, or about both (left + right = 0 with bottom + top /= 0, ...)
    let (l, r, b, t) = match d.pick(8) { 0 => (-w, w, b, t), 1 => (l, r, -h, h), 2 => (-w, w, -h, h), 3 => (w, -w, b, t), _ => (l, r, b, t) };
    // the clip volume does not depend on the unit of length: very small and very large view rectangles / depth ranges
    // (a guard that compares an extent with an absolute epsilon is wrong for them)
    let p2 = |k: i32| if k >= 0 { Q::new(1i128 << k, 1) } else { Q::new(1, 1i128 << (-k)) };
    let (kxy, kz): (i32, i32) = [(0, 0), (0, 0), (0, 0), (-45, -45), (-45, 0), (0, -45), (20, 20), (-50, 12)][d.pick(8)];
    let (l, r, b, t, n, f) = (l * p2(kxy), r * p2(kxy), b * p2(kxy), t * p2(kxy), n * p2(kz), f * p2(kz));
    let v = json!({"l": ev(l), "r": ev(r), "b": ev(b), "t": ev(t), "n": ev(n), "f": ev(f)});
    (FrustumPlanes { left: l, right: r, bottom: b, top: t, near: n, far: f }, v)
}

macro_rules! projections {
    ($d:expr, $m:ident) => {{
        let d: &mut Drv = $d;
        type M = $m::Mat4<Q>;
        let lay = <M as MatT<Q>>::LAY;
        let (o, ov) = planes(d);
        let a = |hand: &str, depth: &str| json!({"hand": hand, "depth": depth, "o": ov.clone(), "lay": lay});
        d.call("ortho_xy", || a("", ""), || em(&M::orthographic_without_depth_planes(o)));
        d.call("ortho", || a("lh", "zo"), || em(&M::orthographic_lh_zo(o)));
        d.call("ortho", || a("lh", "no"), || em(&M::orthographic_lh_no(o)));
        d.call("ortho", || a("rh", "zo"), || em(&M::orthographic_rh_zo(o)));
        d.call("ortho", || a("rh", "no"), || em(&M::orthographic_rh_no(o)));
        d.call("frustum", || a("lh", "zo"), || em(&M::frustum_lh_zo(o)));
        d.call("frustum", || a("lh", "no"), || em(&M::frustum_lh_no(o)));
        d.call("frustum", || a("rh", "zo"), || em(&M::frustum_rh_zo(o)));
        d.call("frustum", || a("rh", "no"), || em(&M::frustum_rh_no(o)));
        // field of view as an angle token 2*hk*phi_b (the half angle is then a token too)
        let b = d.rng.gen_range(0..4u8);
        let hk: i64 = if b == 0 { d.rng.gen_range(1..=3) } else { d.rng.gen_range(1..=2) };
        let fov = Q::angle(b, 2 * hk);
        let (aspect, width, height) = (posq(d), posq(d), posq(d));
        let n = posq(d);
        let f = n + posq(d);
        let eps = Q::frac(d.rng.gen_range(0..=3), [8, 16, 1024][d.pick(3)]);
        let p = |hand: &str, depth: &str| json!({"hand": hand, "depth": depth, "b": b + 1, "hk": hk, "aspect": ev(aspect), "n": ev(n), "f": ev(f), "lay": lay});
        d.call("persp", || p("rh", "zo"), || em(&M::perspective_rh_zo(fov, aspect, n, f)));
        d.call("persp", || p("lh", "zo"), || em(&M::perspective_lh_zo(fov, aspect, n, f)));
        d.call("persp", || p("rh", "no"), || em(&M::perspective_rh_no(fov, aspect, n, f)));
        d.call("persp", || p("lh", "no"), || em(&M::perspective_lh_no(fov, aspect, n, f)));
        let pf = |hand: &str, depth: &str| json!({"hand": hand, "depth": depth, "b": b + 1, "hk": hk, "width": ev(width), "height": ev(height), "n": ev(n), "f": ev(f), "lay": lay});
        d.call("persp_fov", || pf("rh", "zo"), || em(&M::perspective_fov_rh_zo(fov, width, height, n, f)));
        d.call("persp_fov", || pf("lh", "zo"), || em(&M::perspective_fov_lh_zo(fov, width, height, n, f)));
        d.call("persp_fov", || pf("rh", "no"), || em(&M::perspective_fov_rh_no(fov, width, height, n, f)));
        d.call("persp_fov", || pf("lh", "no"), || em(&M::perspective_fov_lh_no(fov, width, height, n, f)));
        let pi = |hand: &str, e: Q| json!({"hand": hand, "b": b + 1, "hk": hk, "aspect": ev(aspect), "n": ev(n), "eps": ev(e), "lay": lay});
        d.call("inf_persp", || pi("rh", eps), || em(&M::tweaked_infinite_perspective_rh(fov, aspect, n, eps)));
        d.call("inf_persp", || pi("lh", eps), || em(&M::tweaked_infinite_perspective_lh(fov, aspect, n, eps)));
        d.call("inf_persp", || pi("rh", Q::int(0)), || em(&M::infinite_perspective_rh(fov, aspect, n)));
        d.call("inf_persp", || pi("lh", Q::int(0)), || em(&M::infinite_perspective_lh(fov, aspect, n)));
    }};
}

pub fn drive_proj(args: &[String]) {
    let n: usize = arg_or(args, "--n", "30").parse().unwrap();
    let seed: u64 = arg_or(args, "--seed", "1").parse().unwrap();
    let mut d = Drv::new(&arg(args, "--out").expect("--out"), seed);
    for _ in 0..n { projections!(&mut d, rm); projections!(&mut d, cm); }
    d.finish(arg(args, "--summary"));
}

// ---------------------------------------------------------------------------
// C10

fn smallmat(d: &mut Drv) -> Vec<Vec<Q>> {
    (0..4).map(|_| (0..4).map(|_| if d.pick(3) == 0 { Q::int(0) } else { Q::int(d.rng.gen_range(-3..=3)) }).collect()).collect()
}
/// model-view / projection pairs: general small-integer matrices, or a real rigid view and a real projection
fn mv_proj(d: &mut Drv) -> (Vec<Vec<Q>>, Vec<Vec<Q>>) {
    if d.pick(2) == 0 {
        // general matrices; often with exact ties that "look" orthographic / affine without being so: a bottom-right element
        // equal to 1 next to a non-trivial last row (a combined view-projection), or a last row 0 0 0 1 on one side only
        let (mut a, mut b) = (smallmat(d), smallmat(d));
        match d.pick(4) {
            0 => { a[3][3] = Q::int(1); b[3][3] = Q::int(1); if b[3][2] == Q::int(0) { b[3][2] = Q::int(-1); } }
            1 => { a[3] = vec![Q::int(0), Q::int(0), Q::int(0), Q::int(1)]; b[3][3] = Q::int(1); if b[3][2] == Q::int(0) { b[3][2] = Q::int(2); } }
            _ => {}
        }
        return (a, b);
    }
    let r = rot3(&mut d.rng);
    let t: Vec<Q> = (0..3).map(|_| Q::int(d.rng.gen_range(-3..=3))).collect();
    let mv = trs4(&r, &[Q::int(1); 3], &t);
    let (o, _) = planes(d);
    let pj = match d.pick(4) { 0 => rm::Mat4::frustum_rh_no(o), 1 => rm::Mat4::frustum_rh_zo(o), 2 => rm::Mat4::orthographic_rh_no(o), _ => rm::Mat4::orthographic_lh_zo(o) };
    // homogeneous coordinates: a projection matrix scaled by any non-zero constant projects identically (clip w becomes tiny or
    // huge but not zero) - the perspective divide must not be guarded by an absolute threshold
    let k = [Q::int(1), Q::int(1), Q::int(1), Q::int(1), Q::new(1, 1i128 << 45), Q::new(-1, 1i128 << 42)][d.pick(6)];
    let pj: Vec<Vec<Q>> = MatT::rows(&pj).iter().map(|row: &Vec<Q>| row.iter().map(|x| *x * k).collect()).collect();
    (mv, pj)
}

macro_rules! viewport {
    ($d:expr, $m:ident) => {{
        let d: &mut Drv = $d;
        type M = $m::Mat4<Q>;
        let lay = <M as MatT<Q>>::LAY;
        let (mv, pj) = mv_proj(d);
        let (mvm, pjm) = (M::from_rows(&mv), M::from_rows(&pj));
        let vp = Rect::new(smallq(&mut d.rng), smallq(&mut d.rng), posq(d) * Q::int(10), posq(d) * Q::int(10));
        let vpv = json!({"x": ev(vp.x), "y": ev(vp.y), "w": ev(vp.w), "h": ev(vp.h)});
        let obj: Vec<Q> = d.vecn(3);
        let a = |depth: &str, p: &[Q]| json!({"depth": depth, "lay": lay, "p": evs(p), "mv": evm(&mv), "proj": evm(&pj), "vp": vpv.clone()});
        let o3 = Vec3::new(obj[0], obj[1], obj[2]);
        d.call("project", || a("no", &obj), || { let r = M::world_to_viewport_no(o3, mvm, pjm, vp); evs(&[r.x, r.y, r.z]) });
        d.call("project", || a("zo", &obj), || { let r = M::world_to_viewport_zo(o3, mvm, pjm, vp); evs(&[r.x, r.y, r.z]) });
        // unproject an arbitrary window point, and the projection of obj (round trip through the real code)
        let win: Vec<Q> = vec![vp.x + vp.w * Q::frac(d.rng.gen_range(0..=4), 4), vp.y + vp.h * Q::frac(d.rng.gen_range(0..=4), 4), Q::frac(d.rng.gen_range(-2..=4), 4)];
        let w3 = Vec3::new(win[0], win[1], win[2]);
        d.call("unproject", || a("no", &win), || { let r = M::viewport_to_world_no(w3, mvm, pjm, vp); evs(&[r.x, r.y, r.z]) });
        d.call("unproject", || a("zo", &win), || { let r = M::viewport_to_world_zo(w3, mvm, pjm, vp); evs(&[r.x, r.y, r.z]) });
        d.call("roundtrip", || a("no", &obj), || { let w = M::world_to_viewport_no(o3, mvm, pjm, vp); let r = M::viewport_to_world_no(w, mvm, pjm, vp); evs(&[r.x, r.y, r.z]) });
        d.call("roundtrip", || a("zo", &obj), || { let w = M::world_to_viewport_zo(o3, mvm, pjm, vp); let r = M::viewport_to_world_zo(w, mvm, pjm, vp); evs(&[r.x, r.y, r.z]) });
        // picking region
        let c = [vp.x + vp.w * Q::frac(d.rng.gen_range(0..=8), 8), vp.y + vp.h * Q::frac(d.rng.gen_range(0..=8), 8)];
        let dl = [posq(d), posq(d)];
        d.call("pick", || json!({"lay": lay, "c": evs(&c), "d": evs(&dl), "vp": vpv.clone()}), || em(&M::picking_region(Vec2::new(c[0], c[1]), Vec2::new(dl[0], dl[1]), vp)));
    }};
}

pub fn drive_viewport(args: &[String]) {
    let n: usize = arg_or(args, "--n", "30").parse().unwrap();
    let seed: u64 = arg_or(args, "--seed", "1").parse().unwrap();
    let mut d = Drv::new(&arg(args, "--out").expect("--out"), seed);
    for _ in 0..n { viewport!(&mut d, rm); viewport!(&mut d, cm); }
    d.finish(arg(args, "--summary"));
}
