//! C18 replay (binding B1, spec -> code): behaviours of spec/VekIter.tla, generated from
//! TLC's dumped state graph so that every transition of every dimension is covered, are
//! stepped through the real `IntoIter<Tracked>` of every vector type of that dimension;
//! after each step the returned element, the length reports, the set of elements read
//! and the set of elements destroyed are compared with the specification state.
use crate::tracked::*;
use crate::util::*;
use serde_json::{json, Value};
use std::collections::hash_map::DefaultHasher;
use std::hash::{Hash, Hasher};
use vek::*;

struct Step { act: String, ret_kind: String, ret_val: i64, reads: Vec<u32>, live_after: Vec<u32> }
struct Case { n: usize, steps: Vec<Step> }

fn parse_case(v: &Value) -> Case {
    let steps = v["steps"].as_array().unwrap().iter().map(|s| Step {
        act: s["a"].as_str().unwrap().to_string(),
        ret_kind: s["ret"][0].as_str().unwrap().to_string(),
        ret_val: s["ret"][1].as_i64().unwrap(),
        reads: s["reads"].as_array().unwrap().iter().map(|x| x.as_u64().unwrap() as u32).collect(),
        live_after: s["live"].as_array().unwrap().iter().map(|x| x.as_u64().unwrap() as u32).collect(),
    }).collect();
    Case { n: v["n"].as_u64().unwrap() as usize, steps }
}

pub fn replay(args: &[String]) {
    let cases_path = arg(args, "--cases").expect("--cases");
    let out = arg(args, "--out").expect("--out");
    silence_panics();
    let mut rep = Report::new();
    let mut cases: Vec<Case> = vec![];
    read_tlc_json_lines(&cases_path, |v| cases.push(parse_case(&v)));
    let mut observe_exact = 0u64;
    let mut observe_total = 0u64;
    macro_rules! one {
        ($V:ident, $n:expr, $name:expr) => {{
            for (ci, c) in cases.iter().enumerate() {
                if c.n != $n { continue; }
                rep.tables += 1;
                log_clear();
                let arr: [Tracked; $n] = std::array::from_fn(|i| Tracked::new(i as u32 + 1));
                let v = $V::<Tracked>::from(arr);
                let conv = log_take();
                if !drops(&conv).is_empty() || !reads(&conv).is_empty() {
                    rep.mismatch(json!({"ty": $name, "case": ci, "step": -1, "what": "From<[T;N]> dropped or read elements", "key": "conversion/from_array"}));
                }
                let mut it = Some(v.into_iter());
                let pre = log_take();
                if !drops(&pre).is_empty() || !reads(&pre).is_empty() {
                    rep.mismatch(json!({"ty": $name, "case": ci, "step": -1, "what": "into_iter dropped or read elements", "key": "iter/into_iter"}));
                }
                let mut held: Vec<Tracked> = vec![];
                let mut all_drops: Vec<u32> = vec![];
                let mut bad: Option<Value> = None;
                for (si, s) in c.steps.iter().enumerate() {
                    rep.evals += 1;
                    let r = guarded(|| -> Result<(), String> {
                        match s.act.as_str() {
                            "NextSome" | "NextNone" | "BackSome" | "BackNone" => {
                                let itr = it.as_mut().unwrap();
                                let got = if s.act.starts_with("Next") { itr.next() } else { itr.next_back() };
                                let gid = got.as_ref().map(|t| t.id as i64);
                                let exp = if s.ret_kind == "some" { Some(s.ret_val) } else { None };
                                if let Some(t) = got { held.push(t); }
                                let ev = log_take();
                                all_drops.extend(drops(&ev));
                                if gid != exp { return Err(format!("{} returned {:?}, spec {:?}", s.act, gid, exp)); }
                                if !drops(&ev).is_empty() { return Err(format!("{} destroyed {:?}", s.act, drops(&ev))); }
                                if !reads(&ev).is_empty() { return Err(format!("{} read {:?}", s.act, reads(&ev))); }
                            }
                            "Len" => {
                                let itr = it.as_ref().unwrap();
                                let (l, sh) = (itr.len() as i64, itr.size_hint());
                                if l != s.ret_val || sh != (s.ret_val as usize, Some(s.ret_val as usize)) {
                                    return Err(format!("len()={} size_hint()={:?}, spec {}", l, sh, s.ret_val));
                                }
                            }
                            "ObserveLive" => {
                                let itr = it.as_ref().unwrap();
                                for kind in 0..3 {
                                    log_clear();
                                    match kind {
                                        0 => { let _ = format!("{:?}", itr); }
                                        1 => { let _ = itr == itr; }
                                        _ => { let mut h = DefaultHasher::new(); itr.hash(&mut h); let _ = h.finish(); }
                                    }
                                    let ev = log_take();
                                    let rd = reads(&ev);
                                    observe_total += 1;
                                    if rd == s.reads { observe_exact += 1; }
                                    if let Some(x) = rd.iter().find(|i| !s.reads.contains(i)) {
                                        return Err(format!("{} read moved-out element {} (live: {:?})", ["Debug", "PartialEq", "Hash"][kind], x, s.reads));
                                    }
                                    if !drops(&ev).is_empty() { return Err("observation destroyed elements".into()); }
                                }
                            }
                            "Drop" => {
                                log_clear();
                                let live_before: Vec<u32> = if si == 0 { (1..=$n as u32).collect() } else { c.steps[si - 1].live_after.clone() };
                                drop(it.take());
                                let ev = log_take();
                                let mut d = drops(&ev); d.sort();
                                all_drops.extend(d.iter());
                                if d != live_before { return Err(format!("Drop destroyed {:?}, spec {:?}", d, live_before)); }
                                if d.len() as i64 != s.ret_val { return Err("drop count".into()); }
                            }
                            a => return Err(format!("unknown action {}", a)),
                        }
                        Ok(())
                    });
                    let err = match r { None => Some("panic".to_string()), Some(Err(e)) => Some(e), Some(Ok(())) => None };
                    if let Some(e) = err {
                        bad = Some(json!({"ty": $name, "n": $n, "case": ci, "step": si, "action": s.act, "what": e,
                            "path": c.steps[..=si].iter().map(|x| x.act.clone()).collect::<Vec<_>>(),
                            "key": if s.act == "ObserveLive" { "iter/observe-reads-moved" } else { "iter/step" }}));
                        break;
                    }
                }
                // end of behaviour: release what the caller still holds; every element must have
                // been destroyed exactly once overall (no leak, no double drop)
                log_clear();
                if bad.is_none() {
                    let r = guarded(|| { drop(it.take()); drop(std::mem::take(&mut held)); });
                    let ev = log_take();
                    all_drops.extend(drops(&ev));
                    all_drops.sort();
                    let want: Vec<u32> = (1..=$n as u32).collect();
                    if r.is_none() || all_drops != want {
                        bad = Some(json!({"ty": $name, "n": $n, "case": ci, "step": c.steps.len(), "action": "end",
                            "what": format!("elements destroyed overall {:?}, expected each of 1..{} once", all_drops, $n),
                            "path": c.steps.iter().map(|x| x.act.clone()).collect::<Vec<_>>(), "key": "iter/ownership"}));
                    }
                } else {
                    // leave the iterator alone after a mismatch (its state is unknown): leak it
                    std::mem::forget(it.take());
                    std::mem::forget(std::mem::take(&mut held));
                    log_clear();
                }
                if let Some(b) = bad { rep.mismatch(b); }
                else if rep.samples.len() < 2 && c.steps.len() > 3 { rep.sample(json!({"ty": $name, "behaviour": c.steps.iter().map(|x| x.act.clone()).collect::<Vec<_>>() })); }
            }
        }};
    }
    for_all_vecs!(one);
    rep.nontrivial = cases.len() as u64;
    rep.notes.push(format!("observe_exact={} observe_total={}", observe_exact, observe_total));
    rep.finish(&out);
}

/// Element with an identity (reported on every read) and a separate value (what `==` compares), for
/// comparing two iterators: equal-length windows at different cursors may be equal or not.
struct Tv { id: u32, val: u32 }
impl PartialEq for Tv { fn eq(&self, o: &Self) -> bool { log_read(self.id); log_read(o.id); self.val == o.val } }

/// C18 replay of spec/VekIterPair.tla: each case is a pair of cursor states <<start, end>> of two
/// iterators over vectors of dimension n; both are brought to their state with front / back pulls on
/// every vector type of that dimension, then compared in both orders with == and !=.  The result must
/// be the specification's `EqExpected` and every element read must be live in its iterator.
pub fn replay_pair(args: &[String]) {
    let cases_path = arg(args, "--cases").expect("--cases");
    let out = arg(args, "--out").expect("--out");
    silence_panics();
    let mut rep = Report::new();
    let mut cases: Vec<(usize, [usize; 2], [usize; 2], bool)> = vec![];
    let mut seen = std::collections::HashSet::new();
    read_tlc_json_lines(&cases_path, |v| {
        let g = |k: &str, i: usize| v[k][i].as_u64().unwrap() as usize;
        let c = (v["n"].as_u64().unwrap() as usize, [g("a", 0), g("a", 1)], [g("b", 0), g("b", 1)], v["eq"].as_i64().unwrap() == 1);
        if seen.insert((c.0, c.1, c.2)) { cases.push(c); }
    });
    macro_rules! one {
        ($V:ident, $n:expr, $name:expr) => {{
            for (n, a, b, eq) in cases.iter() {
                if *n != $n { continue; }
                rep.tables += 1;
                let mk = |base: u32, c: &[usize; 2]| {
                    let arr: [Tv; $n] = std::array::from_fn(|i| Tv { id: base + i as u32 + 1, val: ((i + 1) % 2) as u32 });
                    let mut it = $V::<Tv>::from(arr).into_iter();
                    for _ in 0..c[0] { it.next(); }
                    for _ in 0..($n - c[1]) { it.next_back(); }
                    it
                };
                let (ia, ib) = (mk(0, a), mk(100, b));
                let live: Vec<u32> = (a[0] + 1..=a[1]).map(|i| i as u32).chain((b[0] + 1..=b[1]).map(|i| 100 + i as u32)).collect();
                const FORMS: [&str; 4] = ["a==b", "b==a", "a!=b", "b!=a"];
                for form in 0..4 {
                    log_clear();
                    let got = guarded(|| match form { 0 => ia == ib, 1 => ib == ia, 2 => !(ia != ib), _ => !(ib != ia) });
                    let rd = reads(&log_take());
                    rep.evals += 1;
                    let stray = rd.iter().find(|i| !live.contains(i));
                    if got != Some(*eq) || stray.is_some() {
                        let what = if let Some(x) = stray { format!("comparison read moved-out element {} (live: {:?})", x, live) }
                                   else { format!("comparison returned {:?}, the remaining sequences are {}", got, if *eq { "equal" } else { "different" }) };
                        rep.mismatch(json!({"ty": $name, "n": $n, "a": a, "b": b, "form": FORMS[form], "what": what,
                            "key": if stray.is_some() { "iter/compare-reads-moved" } else { "iter/compare-result" }}));
                        break;
                    }
                }
                if rep.samples.len() < 2 && a != b && a[1] - a[0] == b[1] - b[0] && a[1] > a[0] + 1 { rep.sample(json!({"ty": $name, "a": a, "b": b, "eq": eq})); }
            }
        }};
    }
    for_all_vecs!(one);
    rep.nontrivial = cases.iter().filter(|c| c.1 != c.2 && c.1[1] - c.1[0] == c.2[1] - c.2[0]).count() as u64;
    rep.finish(&out);
}
