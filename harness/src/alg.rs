//! Shared machinery of the algebraic drivers (binding B2, code -> spec).
//! A driver calls the real vek API on generated operands of some *lane* (element type)
//! and logs one ndjson record per call, after the call returned: the operands and the
//! projected result, each number encoded as an element of the ring the TLA+ side
//! computes in (residue mod P for exact rationals, the integer itself for integer lanes).
use crate::q::{self, Q};
use crate::util::*;
use rand::{rngs::StdRng, Rng, SeedableRng};
use serde_json::{json, Map, Value};
use std::fmt::Debug;

pub trait Lane: Copy + PartialEq + Debug + 'static {
    const NAME: &'static str;
    /// true: values are logged as residues in Z_P (validated with P = 46337); false: as integers (P = 0)
    const FIELD: bool;
    fn from_i(v: i64) -> Self;
    fn enc(self) -> i64;
    fn gen(rng: &mut StdRng) -> Self;
    fn encv(self) -> Value { json!(self.enc()) }
}
impl Lane for Q {
    const NAME: &'static str = "q";
    const FIELD: bool = true;
    fn from_i(v: i64) -> Q { Q::int(v) }
    fn enc(self) -> i64 { match self.residue() { Some(r) => r, None => q::inconclusive("denominator vanishes mod P") } }
    fn encv(self) -> Value { if pair_mode() { pairq(self) } else { json!(self.enc()) } }
    fn gen(rng: &mut StdRng) -> Q {
        let n = rng.gen_range(-9..=9);
        let d = [1, 1, 1, 1, 2, 3, 4, 5][rng.gen_range(0..8)];
        Q::frac(n, d)
    }
}
impl Lane for crate::sym::Sym {
    const NAME: &'static str = "sym";
    const FIELD: bool = true;
    fn from_i(v: i64) -> Self { crate::sym::Sym::int(v) }
    fn enc(self) -> i64 { panic!("a symbolic value has no integer code") }
    fn encv(self) -> Value { self.enc_poly() }
    /// a fresh free symbol: every generated operand entry is a distinct variable
    fn gen(_rng: &mut StdRng) -> Self { crate::sym::Sym::fresh("x") }
}
/// Shape descriptor of a logged value that contains polynomials of the symbolic lane ({"ply": ..} objects):
/// {"t":"P"} a polynomial, {"t":"L","e":[..]} a list with one descriptor per element, {"t":"R","f":{..}} an object
/// (fields without polynomials are left out), {"t":"K"} anything else (kept as it is).  None: no polynomial inside.
fn poly_shape(v: &Value) -> Option<Value> {
    match v {
        Value::Object(m) if m.contains_key("ply") => Some(json!({"t": "P"})),
        Value::Object(m) => {
            let mut f = Map::new();
            for (k, x) in m.iter() { if let Some(d) = poly_shape(x) { f.insert(k.clone(), d); } }
            if f.is_empty() { None } else { Some(json!({"t": "R", "f": f})) }
        }
        Value::Array(a) => {
            let ds: Vec<Option<Value>> = a.iter().map(poly_shape).collect();
            if ds.iter().all(|d| d.is_none()) { None } else { Some(json!({"t": "L", "e": ds.into_iter().map(|d| d.unwrap_or(json!({"t": "K"}))).collect::<Vec<_>>()})) }
        }
        _ => None,
    }
}
/// Records of the symbolic lane carry `shp`, the shape descriptor of the whole record, so that the trace
/// specification can decode the polynomials (VekField!DecodeRec) before the ordinary actions are evaluated.
fn add_shape(m: &mut Map<String, Value>) {
    if let Some(d) = poly_shape(&Value::Object(m.clone())) { m.insert("shp".into(), d); }
}
macro_rules! int_lane { ($($t:ty, $name:expr);+) => {$(
    impl Lane for $t {
        const NAME: &'static str = $name;
        const FIELD: bool = false;
        fn from_i(v: i64) -> $t { v as $t }
        fn enc(self) -> i64 { self as i64 }
        fn gen(rng: &mut StdRng) -> $t { rng.gen_range(-6..=6) as $t }
    }
)+} }
int_lane!(i64, "i64"; i32, "i32");
macro_rules! float_lane { ($($t:ty, $name:expr);+) => {$(
    impl Lane for $t {
        const NAME: &'static str = $name;
        const FIELD: bool = false;
        fn from_i(v: i64) -> $t { v as $t }
        fn enc(self) -> i64 { if self.fract() != 0.0 || self.abs() > 1.0e9 { q::inconclusive("float result is not a small integer") } self as i64 }
        fn gen(rng: &mut StdRng) -> $t { rng.gen_range(-6..=6) as $t }
    }
)+} }
float_lane!(f64, "f64"; f32, "f32");

thread_local! { static PAIRS: std::cell::Cell<bool> = std::cell::Cell::new(false); }
/// Switches the encoding of exact rationals from residues mod P (validated with P = 46337) to
/// exact pairs [n, d] (validated over the ordered field of rationals, P = -1).
pub fn set_pair_mode(on: bool) { PAIRS.with(|p| p.set(on)); }
pub fn pair_mode() -> bool { PAIRS.with(|p| p.get()) }
/// exact pair [n, d] of a plain rational; both must fit TLC's 32-bit integers comfortably
pub fn pairq(q: Q) -> Value {
    if !q.is_plain() { q::inconclusive("pair of a non-plain value") }
    if q.n.abs() > 30000 || q.d > 30000 { q::inconclusive("rational too large for the TLC side") }
    json!([q.n as i64, q.d as i64])
}
pub fn ev<T: Lane>(v: T) -> Value { v.encv() }
pub fn evs<T: Lane>(v: &[T]) -> Value { Value::Array(v.iter().map(|x| x.encv()).collect()) }
pub fn evm<T: Lane>(m: &[Vec<T>]) -> Value { Value::Array(m.iter().map(|r| evs(r)).collect()) }

/// Zero patterns for structured operands: 0 dense, 1 diagonal, 2 upper triangular, 3 affine (last row 0..0 1),
/// 4 a single non-zero row.  Products of structured operands take "fast paths" a dense operand never reaches.
pub fn pattern<T: Lane>(p: u8, m: Vec<Vec<T>>) -> Vec<Vec<T>> {
    let n = m.len();
    (0..n).map(|i| (0..n).map(|j| {
        let keep = match p { 1 => i == j, 2 => i <= j, 3 => i + 1 < n, 4 => i == 0, _ => true };
        if keep { m[i][j] } else if p == 3 && i + 1 == n { T::from_i((j + 1 == n) as i64) } else { T::from_i(0) }
    }).collect()).collect()
}
pub struct Drv {
    pub pat: (u8, u8),
    pub out: TraceOut,
    pub rng: StdRng,
    pub inconclusive: u64,
    pub panics: u64,
    pub per_op: std::collections::BTreeMap<String, u64>,
}
impl Drv {
    pub fn new(path: &str, seed: u64) -> Drv {
        silence_panics();
        Drv { pat: (0, 0), out: TraceOut::create(path), rng: StdRng::seed_from_u64(seed), inconclusive: 0, panics: 0, per_op: Default::default() }
    }
    /// One call of the code under test.  `args` encodes the operands (a JSON object), `f` runs
    /// vek and encodes the projected result.  A panic of vek is data (`pan` = 1); a panic raised
    /// by the exact lane itself (`Q:inconclusive`) drops the sample and is counted.
    pub fn call(&mut self, op: &str, args: impl FnOnce() -> Value, f: impl FnOnce() -> Value) {
        q::take_inconclusive();
        let a = match guarded(args) { Some(v) => v, None => { q::take_inconclusive(); self.inconclusive += 1; return; } };
        let r = guarded(f);
        let inc = q::take_inconclusive();
        let mut m: Map<String, Value> = match a { Value::Object(m) => m, _ => panic!("args must be an object") };
        m.insert("op".into(), json!(op));
        match r {
            Some(v) => { m.insert("pan".into(), json!(0)); m.insert("obs".into(), v); }
            None if inc > 0 => { self.inconclusive += 1; return; }
            None => { self.panics += 1; m.insert("pan".into(), json!(1)); m.insert("obs".into(), json!(0)); }
        }
        add_shape(&mut m);
        *self.per_op.entry(op.to_string()).or_insert(0) += 1;
        self.out.emit(Value::Object(m));
    }
    pub fn finish(self, summary_path: Option<String>) {
        let s = json!({"events": self.out.n, "inconclusive": self.inconclusive, "panics": self.panics, "per_op": self.per_op});
        drop(self.out);
        if let Some(p) = summary_path { std::fs::write(p, serde_json::to_string(&s).unwrap()).unwrap(); }
        println!("{}", s);
    }
    pub fn vecn<T: Lane>(&mut self, n: usize) -> Vec<T> { (0..n).map(|_| T::gen(&mut self.rng)).collect() }
    pub fn matn<T: Lane>(&mut self, n: usize) -> Vec<Vec<T>> { (0..n).map(|_| self.vecn(n)).collect() }
    pub fn pick(&mut self, n: usize) -> usize { self.rng.gen_range(0..n) }
}

// ---------------------------------------------------------------------------
// generators of structured exact operands

/// A rational rotation matrix from a random non-zero integer quaternion (w,x,y,z):
/// R = (1/n) * [[w²+x²-y²-z², 2(xy-wz), 2(xz+wy)], ...], n = w²+x²+y²+z².
pub fn rot3(rng: &mut StdRng) -> Vec<Vec<Q>> {
    loop {
        let (w, x, y, z): (i64, i64, i64, i64) = (rng.gen_range(-3..=3), rng.gen_range(-3..=3), rng.gen_range(-3..=3), rng.gen_range(-3..=3));
        let n = w * w + x * x + y * y + z * z;
        if n == 0 { continue; }
        let f = |v: i64| Q::frac(v, n);
        return vec![
            vec![f(w * w + x * x - y * y - z * z), f(2 * (x * y - w * z)), f(2 * (x * z + w * y))],
            vec![f(2 * (x * y + w * z)), f(w * w - x * x + y * y - z * z), f(2 * (y * z - w * x))],
            vec![f(2 * (x * z - w * y)), f(2 * (y * z + w * x)), f(w * w - x * x - y * y + z * z)],
        ];
    }
}
/// small rational, never zero
pub fn nzq(rng: &mut StdRng) -> Q {
    let n = [1, 2, 3, 4, 5, 7][rng.gen_range(0..6)];
    let d = [1, 1, 2, 3, 4, 8][rng.gen_range(0..6)];
    let s = if rng.gen_range(0..2) == 0 { -1 } else { 1 };
    Q::frac(s * n, d)
}
/// scale factor: usually in +-{1/8..8}, sometimes tiny but far from negligible (2^-6 .. 2^-19; the
/// code under test treats a squared axis length <= epsilon = 2^-40 as degenerate)
pub fn scaleq(rng: &mut StdRng) -> Q {
    if rng.gen_range(0..4) == 0 {
        let k = [6u32, 10, 15, 19][rng.gen_range(0..4)];
        let s = if rng.gen_range(0..2) == 0 { -1 } else { 1 };
        Q::new(s * [1i128, 3, 5][rng.gen_range(0..3)], 1i128 << k)
    } else { nzq(rng) }
}
pub fn smallq(rng: &mut StdRng) -> Q { Q::frac(rng.gen_range(-9..=9), [1, 1, 1, 2, 3, 4][rng.gen_range(0..6)]) }
/// 4x4 [R*diag(s) | t ; 0 0 0 1]
pub fn trs4(r: &[Vec<Q>], s: &[Q], t: &[Q]) -> Vec<Vec<Q>> {
    let mut m = vec![vec![Q::int(0); 4]; 4];
    for i in 0..3 { for j in 0..3 { m[i][j] = r[i][j] * s[j]; } m[i][3] = t[i]; }
    m[3][3] = Q::int(1);
    m
}

/// Integer vectors with integer length (Pythagorean triples/quadruples), randomly permuted, signed
/// and scaled by a non-zero rational; returns (vector, its length).
pub fn pyth3(rng: &mut StdRng) -> (Vec<Q>, Q) {
    const T: [(i64, i64, i64, i64); 12] = [(1, 0, 0, 1), (0, 3, 4, 5), (1, 2, 2, 3), (2, 3, 6, 7), (1, 4, 8, 9), (4, 4, 7, 9),
        (2, 6, 9, 11), (6, 6, 7, 11), (3, 4, 12, 13), (2, 10, 11, 15), (0, 5, 12, 13), (0, 0, 2, 2)];
    let (a, b, c, l) = T[rng.gen_range(0..T.len())];
    let mut v = [a, b, c];
    for i in (1..3).rev() { let j = rng.gen_range(0..=i); v.swap(i, j); }
    for x in v.iter_mut() { if rng.gen_range(0..2) == 0 { *x = -*x; } }
    let k = Q::frac([1, 1, 2, 3, 5][rng.gen_range(0..5)], [1, 1, 2, 3, 4][rng.gen_range(0..5)]);
    (v.iter().map(|x| Q::int(*x) * k).collect(), Q::int(l) * k)
}
/// A rational unit quaternion (x, y, z, w) = p*p / N(p) for a random non-zero integer quaternion p.
pub fn unitquat(rng: &mut StdRng, range: i64) -> Vec<Q> {
    loop {
        let (w, x, y, z): (i64, i64, i64, i64) = (rng.gen_range(-range..=range), rng.gen_range(-range..=range), rng.gen_range(-range..=range), rng.gen_range(-range..=range));
        let n = w * w + x * x + y * y + z * z;
        if n == 0 { continue; }
        // p*p = (w^2 - |v|^2, 2 w v)
        return vec![Q::frac(2 * w * x, n), Q::frac(2 * w * y, n), Q::frac(2 * w * z, n), Q::frac(w * w - x * x - y * y - z * z, n)];
    }
}
/// rotation matrix of a unit quaternion (x,y,z,w), computed by the harness for operand generation only
pub fn rot_of_quat(q: &[Q]) -> Vec<Vec<Q>> {
    let (x, y, z, w) = (q[0], q[1], q[2], q[3]);
    let two = Q::int(2); let one = Q::int(1);
    vec![vec![one - two * (y * y + z * z), two * (x * y - z * w), two * (x * z + y * w)],
         vec![two * (x * y + z * w), one - two * (x * x + z * z), two * (y * z - x * w)],
         vec![two * (x * z - y * w), two * (y * z + x * w), one - two * (x * x + y * y)]]
}
