//! Matrix drivers (C01 products, C06 determinants/inverses): calls of the real vek matrix API
//! on both storage layouts, logged for validation by spec/Trace_Mat.tla.
use crate::alg::*;
use crate::q::Q;
use crate::sym::Sym;
use crate::util::*;
use num_traits::{One, Zero};
use serde_json::{json, Value};
use vek::mat::repr_c::column_major as cm;
use vek::mat::repr_c::row_major as rm;
use vek::{Vec2, Vec3, Vec4};

/// Uniform access to the six matrix types: built by the layout-agnostic constructor `new`
/// (arguments in reading order), read back through `m[(i, j)]`.
pub trait MatT<T: Copy>: Copy {
    const N: usize;
    const LAY: &'static str;
    fn from_rows(r: &[Vec<T>]) -> Self;
    fn rows(&self) -> Vec<Vec<T>>;
}
macro_rules! impl_matt {
    ($m:ident, $lay:expr, $M:ident, $n:expr, $($i:expr, $j:expr);+) => {
        impl<T: Copy> MatT<T> for $m::$M<T> {
            const N: usize = $n;
            const LAY: &'static str = $lay;
            fn from_rows(r: &[Vec<T>]) -> Self { $m::$M::new($(r[$i][$j]),+) }
            fn rows(&self) -> Vec<Vec<T>> { (0..$n).map(|i| (0..$n).map(|j| self[(i, j)]).collect()).collect() }
        }
    };
}
impl_matt!(rm, "r", Mat2, 2, 0,0;0,1;1,0;1,1);
impl_matt!(cm, "c", Mat2, 2, 0,0;0,1;1,0;1,1);
impl_matt!(rm, "r", Mat3, 3, 0,0;0,1;0,2;1,0;1,1;1,2;2,0;2,1;2,2);
impl_matt!(cm, "c", Mat3, 3, 0,0;0,1;0,2;1,0;1,1;1,2;2,0;2,1;2,2);
impl_matt!(rm, "r", Mat4, 4, 0,0;0,1;0,2;0,3;1,0;1,1;1,2;1,3;2,0;2,1;2,2;2,3;3,0;3,1;3,2;3,3);
impl_matt!(cm, "c", Mat4, 4, 0,0;0,1;0,2;0,3;1,0;1,1;1,2;1,3;2,0;2,1;2,2;2,3;3,0;3,1;3,2;3,3);

pub trait VecT<T: Copy>: Copy {
    fn from_s(s: &[T]) -> Self;
    fn to_v(&self) -> Vec<T>;
}
impl<T: Copy> VecT<T> for Vec2<T> { fn from_s(s: &[T]) -> Self { Vec2::new(s[0], s[1]) } fn to_v(&self) -> Vec<T> { vec![self.x, self.y] } }
impl<T: Copy> VecT<T> for Vec3<T> { fn from_s(s: &[T]) -> Self { Vec3::new(s[0], s[1], s[2]) } fn to_v(&self) -> Vec<T> { vec![self.x, self.y, self.z] } }
impl<T: Copy> VecT<T> for Vec4<T> { fn from_s(s: &[T]) -> Self { Vec4::new(s[0], s[1], s[2], s[3]) } fn to_v(&self) -> Vec<T> { vec![self.x, self.y, self.z, self.w] } }

pub fn em<T: Lane, M: MatT<T>>(m: &M) -> Value { evm(&m.rows()) }

/// C01: every product / element-wise operator form of one size, for one lane, on both layouts.
macro_rules! products {
    ($d:expr, $T:ty, $M:ident, $V:ident, $n:expr, $withdiv:expr) => {{
        let d: &mut Drv = $d;
        type R = rm::$M<$T>;
        type C = cm::$M<$T>;
        let a: Vec<Vec<$T>> = pattern(d.pat.0, d.matn($n));
        let b: Vec<Vec<$T>> = pattern(d.pat.1, d.matn($n));
        let v: Vec<$T> = d.vecn($n);
        let s: $T = <$T as Lane>::gen(&mut d.rng);
        let (ar, ac, br, bc) = (R::from_rows(&a), C::from_rows(&a), R::from_rows(&b), C::from_rows(&b));
        let vv = <$V<$T>>::from_s(&v);
        let lane = <$T as Lane>::NAME;
        let ab = || json!({"a": evm(&a), "b": evm(&b), "lane": lane});
        // matrix * matrix, four layout pairs
        d.call("mul_mm", || { let mut o = ab(); o["lay"] = json!("rr"); o }, || em(&(ar * br)));
        d.call("mul_mm", || { let mut o = ab(); o["lay"] = json!("cc"); o }, || em(&(ac * bc)));
        d.call("mul_mm", || { let mut o = ab(); o["lay"] = json!("rc"); o }, || em(&(ar * bc)));
        d.call("mul_mm", || { let mut o = ab(); o["lay"] = json!("cr"); o }, || em(&(ac * br)));
        d.call("mul_mm", || { let mut o = ab(); o["lay"] = json!("rr="); o }, || { let mut m = ar; m *= br; em(&m) });
        d.call("mul_mm", || { let mut o = ab(); o["lay"] = json!("cc="); o }, || { let mut m = ac; m *= bc; em(&m) });
        // matrix * column vector, row vector * matrix
        let av = || json!({"a": evm(&a), "v": evs(&v), "lane": lane});
        d.call("mul_mv", || { let mut o = av(); o["lay"] = json!("r"); o }, || evs(&(ar * vv).to_v()));
        d.call("mul_mv", || { let mut o = av(); o["lay"] = json!("c"); o }, || evs(&(ac * vv).to_v()));
        d.call("mul_vm", || { let mut o = av(); o["lay"] = json!("r"); o }, || evs(&(vv * ar).to_v()));
        d.call("mul_vm", || { let mut o = av(); o["lay"] = json!("c"); o }, || evs(&(vv * ac).to_v()));
        // scalar forms
        let as_ = || json!({"a": evm(&a), "s": ev(s), "lane": lane});
        d.call("mul_ms", || { let mut o = as_(); o["lay"] = json!("r"); o }, || em(&(ar * s)));
        d.call("mul_ms", || { let mut o = as_(); o["lay"] = json!("c"); o }, || em(&(ac * s)));
        d.call("mul_ms", || { let mut o = as_(); o["lay"] = json!("r="); o }, || { let mut m = ar; m *= s; em(&m) });
        d.call("mul_ms", || { let mut o = as_(); o["lay"] = json!("c="); o }, || { let mut m = ac; m *= s; em(&m) });
        d.call("add_ms", || { let mut o = as_(); o["lay"] = json!("r"); o }, || em(&(ar + s)));
        d.call("add_ms", || { let mut o = as_(); o["lay"] = json!("c="); o }, || { let mut m = ac; m += s; em(&m) });
        d.call("sub_ms", || { let mut o = as_(); o["lay"] = json!("c"); o }, || em(&(ac - s)));
        d.call("sub_ms", || { let mut o = as_(); o["lay"] = json!("r="); o }, || { let mut m = ar; m -= s; em(&m) });
        // element-wise matrix forms
        d.call("add_mm", || { let mut o = ab(); o["lay"] = json!("r"); o }, || em(&(ar + br)));
        d.call("add_mm", || { let mut o = ab(); o["lay"] = json!("c="); o }, || { let mut m = ac; m += bc; em(&m) });
        d.call("sub_mm", || { let mut o = ab(); o["lay"] = json!("c"); o }, || em(&(ac - bc)));
        d.call("sub_mm", || { let mut o = ab(); o["lay"] = json!("r="); o }, || { let mut m = ar; m -= br; em(&m) });
        d.call("mulw_mm", || { let mut o = ab(); o["lay"] = json!("r"); o }, || em(&ar.mul_memberwise(br)));
        d.call("mulw_mm", || { let mut o = ab(); o["lay"] = json!("c"); o }, || em(&ac.mul_memberwise(bc)));
        d.call("neg_m", || json!({"a": evm(&a), "lane": lane, "lay": "r"}), || em(&(-ar)));
        d.call("neg_m", || json!({"a": evm(&a), "lane": lane, "lay": "c"}), || em(&(-ac)));
        if $withdiv {
            // element-wise division (and remainder on the integer lanes) needs non-zero divisors
            let nz = |x: $T| if x == <$T as Lane>::from_i(0) { <$T as Lane>::from_i(3) } else { x };
            let b2: Vec<Vec<$T>> = b.iter().map(|r| r.iter().map(|x| nz(*x)).collect()).collect();
            let s2 = nz(s);
            let (b2r, b2c) = (R::from_rows(&b2), C::from_rows(&b2));
            let ab2 = || json!({"a": evm(&a), "b": evm(&b2), "lane": lane});
            let as2 = || json!({"a": evm(&a), "s": ev(s2), "lane": lane});
            d.call("div_mm", || { let mut o = ab2(); o["lay"] = json!("r"); o }, || em(&(ar / b2r)));
            d.call("div_mm", || { let mut o = ab2(); o["lay"] = json!("c="); o }, || { let mut m = ac; m /= b2c; em(&m) });
            d.call("div_ms", || { let mut o = as2(); o["lay"] = json!("c"); o }, || em(&(ac / s2)));
            d.call("div_ms", || { let mut o = as2(); o["lay"] = json!("r="); o }, || { let mut m = ar; m /= s2; em(&m) });
            if !<$T as Lane>::FIELD {
                d.call("rem_mm", || { let mut o = ab2(); o["lay"] = json!("c"); o }, || em(&(ac % b2c)));
                d.call("rem_mm", || { let mut o = ab2(); o["lay"] = json!("r="); o }, || { let mut m = ar; m %= b2r; em(&m) });
                d.call("rem_ms", || { let mut o = as2(); o["lay"] = json!("r"); o }, || em(&(ar % s2)));
                d.call("rem_ms", || { let mut o = as2(); o["lay"] = json!("c="); o }, || { let mut m = ac; m %= s2; em(&m) });
            }
        }
        // neutral elements
        let nn = || json!({"n": $n, "lane": lane});
        d.call("identity", || { let mut o = nn(); o["lay"] = json!("r"); o }, || em(&R::identity()));
        d.call("identity", || { let mut o = nn(); o["lay"] = json!("c"); o }, || em(&C::identity()));
        d.call("identity", || { let mut o = nn(); o["lay"] = json!("r1"); o }, || em(&<R as One>::one()));
        d.call("identity", || { let mut o = nn(); o["lay"] = json!("c1"); o }, || em(&<C as One>::one()));
        d.call("identity", || { let mut o = nn(); o["lay"] = json!("rd"); o }, || em(&R::default()));
        d.call("identity", || { let mut o = nn(); o["lay"] = json!("cd"); o }, || em(&C::default()));
        d.call("zero", || { let mut o = nn(); o["lay"] = json!("r"); o }, || em(&R::zero()));
        d.call("zero", || { let mut o = nn(); o["lay"] = json!("c"); o }, || em(&<C as Zero>::zero()));
        // is_zero on a matrix that is zero except possibly in one random position
        let (zi, zj) = (d.pick($n), d.pick($n));
        let zval: $T = if d.pick(2) == 0 { <$T as Lane>::from_i(0) } else { s };
        let mut z = vec![vec![<$T as Lane>::from_i(0); $n]; $n];
        z[zi][zj] = zval;
        d.call("is_zero", || json!({"a": evm(&z), "lane": lane, "lay": "r"}), || json!(R::from_rows(&z).is_zero() as i64));
        d.call("is_zero", || json!({"a": evm(&z), "lane": lane, "lay": "c"}), || json!(C::from_rows(&z).is_zero() as i64));
    }};
}

/// The Vec4-as-2x2-matrix helper products (src/vec.rs vec_impl_mat2_via_vec4).
fn mat2_helpers<T: Lane + std::ops::Add<Output = T> + std::ops::Mul<Output = T> + std::ops::Sub<Output = T>>(d: &mut Drv) {
    let a: Vec<T> = d.vecn(4);
    let b: Vec<T> = d.vecn(4);
    let (va, vb) = (Vec4::<T>::from_s(&a), Vec4::<T>::from_s(&b));
    let args = |h: &str| json!({"a": evs(&a), "b": evs(&b), "h": h, "lane": T::NAME});
    d.call("mat2h", || args("rows_mul"), || evs(&va.mat2_rows_mul(vb).to_v()));
    d.call("mat2h", || args("rows_adj_mul"), || evs(&va.mat2_rows_adj_mul(vb).to_v()));
    d.call("mat2h", || args("rows_mul_adj"), || evs(&va.mat2_rows_mul_adj(vb).to_v()));
    d.call("mat2h", || args("cols_mul"), || evs(&va.mat2_cols_mul(vb).to_v()));
    d.call("mat2h", || args("cols_adj_mul"), || evs(&va.mat2_cols_adj_mul(vb).to_v()));
    d.call("mat2h", || args("cols_mul_adj"), || evs(&va.mat2_cols_mul_adj(vb).to_v()));
}

pub fn drive_products(args: &[String]) {
    let n: usize = arg_or(args, "--n", "30").parse().unwrap();
    let seed: u64 = arg_or(args, "--seed", "1").parse().unwrap();
    let lane = arg_or(args, "--lane", "q");
    let mut d = Drv::new(&arg(args, "--out").expect("--out"), seed);
    // every third round uses structured operands (diagonal / triangular / affine / single row on either side)
    const PATS: [(u8, u8); 9] = [(0, 0), (1, 0), (0, 1), (1, 1), (2, 1), (0, 3), (3, 3), (4, 0), (1, 2)];
    let rounds = if lane == "sym" { n * PATS.len() } else { n };
    for round in 0..rounds {
        d.pat = if lane == "sym" { PATS[round % PATS.len()] } else if round % 3 == 2 { PATS[1 + (round / 3) % (PATS.len() - 1)] } else { (0, 0) };
        match lane.as_str() {
            "sym" => {
                // free symbols: every recorded result is the polynomial the code computes for all inputs
                crate::sym::reset(); products!(&mut d, Sym, Mat2, Vec2, 2, false);
                crate::sym::reset(); products!(&mut d, Sym, Mat3, Vec3, 3, false);
                crate::sym::reset(); products!(&mut d, Sym, Mat4, Vec4, 4, false);
                crate::sym::reset(); mat2_helpers::<Sym>(&mut d);
            }
            "q" => {
                products!(&mut d, Q, Mat2, Vec2, 2, true);
                products!(&mut d, Q, Mat3, Vec3, 3, true);
                products!(&mut d, Q, Mat4, Vec4, 4, true);
                mat2_helpers::<Q>(&mut d);
            }
            _ => {
                products!(&mut d, i64, Mat2, Vec2, 2, true);
                products!(&mut d, i32, Mat3, Vec3, 3, true);
                products!(&mut d, i64, Mat4, Vec4, 4, true);
                products!(&mut d, f64, Mat2, Vec2, 2, false);
                products!(&mut d, f32, Mat3, Vec3, 3, false);
                products!(&mut d, f64, Mat4, Vec4, 4, false);
                mat2_helpers::<i64>(&mut d);
                mat2_helpers::<f32>(&mut d);
            }
        }
    }
    d.finish(arg(args, "--summary"));
}

// ---------------------------------------------------------------------------
// C06: determinants and the three inverse functions

macro_rules! dets {
    ($d:expr, $T:ty, $M:ident, $n:expr) => {{
        let d: &mut Drv = $d;
        let a: Vec<Vec<$T>> = d.matn($n);
        let lane = <$T as Lane>::NAME;
        let (ar, ac) = (rm::$M::<$T>::from_rows(&a), cm::$M::<$T>::from_rows(&a));
        d.call("det", || json!({"a": evm(&a), "lane": lane, "lay": "r"}), || ev(ar.determinant()));
        d.call("det", || json!({"a": evm(&a), "lane": lane, "lay": "c"}), || ev(ac.determinant()));
        // after a transposition and a layout change (the abstract operand is then a^T resp. a)
        d.call("det", || json!({"a": evm(&rm::$M::<$T>::from_rows(&a).transposed().rows()), "lane": lane, "lay": "rT"}), || ev(ar.transposed().determinant()));
        d.call("det", || json!({"a": evm(&a), "lane": lane, "lay": "r>c"}), || ev(cm::$M::<$T>::from(ar).determinant()));
        d.call("det", || json!({"a": evm(&a), "lane": lane, "lay": "c>r"}), || ev(rm::$M::<$T>::from(ac).determinant()));
    }};
}

fn inverses(d: &mut Drv) {
    type R = rm::Mat4<Q>;
    type C = cm::Mat4<Q>;
    // general inverse: random small rational matrices; every third one sparse / structured
    let k = d.pick(5);
    let a: Vec<Vec<Q>> = match k {
        0 => { let r = rot3(&mut d.rng); let s: Vec<Q> = (0..3).map(|_| nzq(&mut d.rng)).collect(); let t: Vec<Q> = (0..3).map(|_| smallq(&mut d.rng)).collect(); trs4(&r, &s, &t) }
        1 => { let mut m: Vec<Vec<Q>> = d.matn(4); for i in 0..4 { for j in 0..4 { if d.pick(3) == 0 { m[i][j] = Q::int(0); } } } m }
        // exactly affine (last row 0 0 0 1) but with a general 3x3 block (shear, product of non-uniform scales and rotations)
        2 => pattern(3, d.matn(4)),
        _ => d.matn(4),
    };
    let (ar, ac) = (R::from_rows(&a), C::from_rows(&a));
    let arg = |lay: &str| json!({"a": evm(&a), "lane": "q", "lay": lay});
    d.call("inv", || arg("r"), || em(&ar.inverted()));
    d.call("inv", || arg("c"), || em(&ac.inverted()));
    d.call("inv", || arg("r="), || { let mut m = ar; m.invert(); em(&m) });
    d.call("inv", || arg("c="), || { let mut m = ac; m.invert(); em(&m) });
    // rigid: rotation + translation
    let r = rot3(&mut d.rng);
    let t: Vec<Q> = (0..3).map(|_| smallq(&mut d.rng)).collect();
    let one = [Q::int(1); 3];
    let g = trs4(&r, &one, &t);
    let (gr, gc) = (R::from_rows(&g), C::from_rows(&g));
    let arg = |lay: &str| json!({"a": evm(&g), "lane": "q", "lay": lay});
    d.call("inv_rigid", || arg("r"), || em(&gr.inverted_affine_transform_no_scale()));
    d.call("inv_rigid", || arg("c"), || em(&gc.inverted_affine_transform_no_scale()));
    d.call("inv_rigid", || arg("r="), || { let mut m = gr; m.invert_affine_transform_no_scale(); em(&m) });
    d.call("inv_rigid", || arg("c="), || { let mut m = gc; m.invert_affine_transform_no_scale(); em(&m) });
    // the general and the affine inverse agree on rigid matrices too
    d.call("inv", || arg("r/rigid"), || em(&gr.inverted()));
    d.call("inv_affine", || arg("c/rigid"), || em(&gc.inverted_affine_transform()));
    // affine: translation * rotation * scale, scales in +-{1/8 .. 8}
    let s: Vec<Q> = (0..3).map(|_| scaleq(&mut d.rng)).collect();
    let h = trs4(&r, &s, &t);
    let (hr, hc) = (R::from_rows(&h), C::from_rows(&h));
    let arg = |lay: &str| json!({"a": evm(&h), "lane": "q", "lay": lay});
    d.call("inv_affine", || arg("r"), || em(&hr.inverted_affine_transform()));
    d.call("inv_affine", || arg("c"), || em(&hc.inverted_affine_transform()));
    d.call("inv_affine", || arg("r="), || { let mut m = hr; m.invert_affine_transform(); em(&m) });
    d.call("inv_affine", || arg("c="), || { let mut m = hc; m.invert_affine_transform(); em(&m) });
    d.call("inv", || arg("c/trs"), || em(&hc.inverted()));
}

/// The general 4x4 inverse on 16 free symbols: every entry the code returns is a fraction of polynomials; they are
/// brought to the form N / D (one common denominator D, as the code produces it) and logged as the polynomial matrix N
/// and the polynomial D.  TLC checks the rational-function identity A*N = N*A = D*I with D # 0, i.e. N/D is the
/// two-sided inverse of A wherever it exists - for every matrix at once.  The rigid fast inverse involves no division
/// and is compared with the specification's formula on a symbolic [R|t; 0 0 0 1].
fn inverses_sym(d: &mut Drv) {
    type R = rm::Mat4<Sym>;
    type C = cm::Mat4<Sym>;
    let split = |m: Vec<Vec<Sym>>| -> Value {
        let den = m[0][0].den();
        let mut num = vec![];
        for row in m.iter() { let mut r = vec![]; for e in row.iter() {
            // e = n/d; with a common denominator D: numerator n * (D/d), only the case d == D or d == 1 occurs
            if e.den() == den { r.push(e.num()); } else if e.is_poly() { r.push(*e * den); } else { crate::q::inconclusive("no common denominator") }
        } num.push(r); }
        json!({"num": evm(&num), "den": ev(den)})
    };
    crate::sym::reset();
    let a: Vec<Vec<Sym>> = d.matn(4);
    let (ar, ac) = (R::from_rows(&a), C::from_rows(&a));
    let arg = |lay: &str| json!({"a": evm(&a), "lane": "sym", "lay": lay});
    d.call("inv_sym", || arg("r"), || split(ar.inverted().rows()));
    d.call("inv_sym", || arg("c"), || split(ac.inverted().rows()));
    d.call("inv_sym", || arg("r="), || { let mut m = ar; m.invert(); split(m.rows()) });
    d.call("inv_sym", || arg("c="), || { let mut m = ac; m.invert(); split(m.rows()) });
    // sparse symbolic matrices (zeros in fixed places change which products vanish, not the identity)
    for pat in 0..3 {
        crate::sym::reset();
        let z = Sym::int(0);
        let b: Vec<Vec<Sym>> = (0..4).map(|i| (0..4).map(|j| match pat {
            0 => if i == 3 { Sym::int((j == 3) as i64) } else { Sym::fresh("x") },            // affine
            1 => if i > j { z } else { Sym::fresh("x") },                                       // upper triangular
            _ => if (i + j) % 2 == 1 { z } else { Sym::fresh("x") },                            // checkerboard
        }).collect()).collect();
        let (br, bc) = (R::from_rows(&b), C::from_rows(&b));
        let arg = |lay: &str| json!({"a": evm(&b), "lane": "sym", "lay": lay});
        d.call("inv_sym", || arg("r"), || split(br.inverted().rows()));
        d.call("inv_sym", || arg("c"), || split(bc.inverted().rows()));
    }
    crate::sym::reset();
    let mut g: Vec<Vec<Sym>> = d.matn(4);
    for j in 0..4 { g[3][j] = Sym::int((j == 3) as i64); }
    let (gr, gc) = (R::from_rows(&g), C::from_rows(&g));
    let arg = |lay: &str| json!({"a": evm(&g), "lane": "sym", "lay": lay});
    d.call("inv_rigid_sym", || arg("r"), || em(&gr.inverted_affine_transform_no_scale()));
    d.call("inv_rigid_sym", || arg("c"), || em(&gc.inverted_affine_transform_no_scale()));
    d.call("inv_rigid_sym", || arg("r="), || { let mut m = gr; m.invert_affine_transform_no_scale(); em(&m) });
    d.call("inv_rigid_sym", || arg("c="), || { let mut m = gc; m.invert_affine_transform_no_scale(); em(&m) });
}

pub fn drive_detinv(args: &[String]) {
    let n: usize = arg_or(args, "--n", "30").parse().unwrap();
    let seed: u64 = arg_or(args, "--seed", "1").parse().unwrap();
    let lane = arg_or(args, "--lane", "q");
    let mut d = Drv::new(&arg(args, "--out").expect("--out"), seed);
    for _ in 0..n {
        match lane.as_str() {
            "sym" => {
                crate::sym::reset(); dets!(&mut d, Sym, Mat2, 2);
                crate::sym::reset(); dets!(&mut d, Sym, Mat3, 3);
                crate::sym::reset(); dets!(&mut d, Sym, Mat4, 4);
                inverses_sym(&mut d);
            }
            "q" => {
                dets!(&mut d, Q, Mat2, 2); dets!(&mut d, Q, Mat3, 3); dets!(&mut d, Q, Mat4, 4);
                inverses(&mut d);
            }
            _ => {
                dets!(&mut d, i64, Mat2, 2); dets!(&mut d, i32, Mat3, 3); dets!(&mut d, i64, Mat4, 4);
                dets!(&mut d, f64, Mat2, 2); dets!(&mut d, f32, Mat3, 3); dets!(&mut d, f64, Mat4, 4);
            }
        }
    }
    d.finish(arg(args, "--summary"));
}
