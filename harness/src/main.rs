//! vh — conformance harness binding the TLA+ specification in /verif/spec to the real
//! vek source in /repo (path dependency, rebuilt from the working tree).
//!   vh replay <area> ...   spec -> code: run vek on tables/behaviours emitted by TLC
//!   vh drive  <area> ...   code -> spec: run vek on generated programs, log ndjson traces
#[macro_use]
mod util;
mod ops;
mod tracked;
mod iter;
mod tuples;
mod own;
mod q;
mod sym;
mod symdrv;
mod alg;
mod mat;
mod xform;
mod proj;
mod lerp;
mod bezier;
mod term;
mod vecs;
mod vconv;
mod spatial;
mod geom;
mod matprog;
mod numlift;
mod pixel;

/// an angle value as a list of tokens (shared by the drivers)
pub fn xform_token(a: q::Q) -> serde_json::Value { xform::token_of(a) }

fn main() {
    let args: Vec<String> = std::env::args().collect();
    if args.len() < 3 { eprintln!("usage: vh replay|drive <area> [options]"); std::process::exit(2); }
    let rest = &args[3..];
    match (args[1].as_str(), args[2].as_str()) {
        ("replay", "ops") => ops::replay(rest),
        ("replay", "iter") => iter::replay(rest),
        ("replay", "iterpair") => iter::replay_pair(rest),
        ("drive", "ops") => ops::drive(rest),
        ("drive", "own") => own::drive(rest),
        ("drive", "sym") => symdrv::drive_sym(rest),
        ("drive", "products") => mat::drive_products(rest),
        ("drive", "detinv") => mat::drive_detinv(rest),
        ("drive", "rot") => xform::drive_rot(rest),
        ("drive", "quat") => xform::drive_quat(rest),
        ("drive", "affine") => xform::drive_affine(rest),
        ("drive", "view") => xform::drive_view(rest),
        ("replay", "lerp") => lerp::replay(rest),
        ("drive", "lerp") => lerp::drive_lerp(rest),
        ("drive", "slerp") => lerp::drive_slerp(rest),
        ("drive", "bezier") => bezier::drive_bezier(rest),
        ("drive", "bezext") => bezier::drive_bezext(rest),
        ("drive", "bezlen") => bezier::drive_bezlen(rest),
        ("replay", "num") => numlift::replay(rest),
        ("drive", "numcast") => numlift::drive_numcast(rest),
        ("drive", "matprog") => matprog::drive_matprog(rest),
        ("drive", "boxes") => geom::drive_boxes(rest),
        ("drive", "shapes") => geom::drive_shapes(rest),
        ("drive", "spatial") => spatial::drive_spatial(rest),
        ("drive", "vconv") => vconv::drive_vconv(rest),
        ("drive", "vecops") => vecs::drive_vecops(rest),
        ("drive", "vecfold") => vecs::drive_vecfold(rest),
        ("drive", "vecreal") => vecs::drive_vecreal(rest),
        ("drive", "proj") => proj::drive_proj(rest),
        ("drive", "viewport") => proj::drive_viewport(rest),
        (a, b) => { eprintln!("unknown command {} {}", a, b); std::process::exit(2); }
    }
}
