//! C20: numeric lifts.  `replay num`: the checked / wrapping / saturating / overflowing / Euclidean
//! operations lifted to vectors against the scalar tables TLC printed from VekLift (binding B3):
//! each table entry is placed in one lane position of a vector of some type (all 13 types and all
//! lane positions in rotation), the other lanes hold fixed harmless values.  `drive numcast`: casts
//! (as_, numcast, az), Zero / One / is_zero, Inv, and the approx-equality lifts, logged for
//! validation by spec/Trace_Num.tla.
use crate::alg::*;
use crate::util::*;
use az::{Cast, CheckedCast, OverflowingCast, SaturatingCast, WrappingCast};
use num_traits::ops::euclid::{CheckedEuclid, Euclid};
use num_traits::ops::overflowing::{OverflowingAdd, OverflowingMul, OverflowingSub};
use num_traits::ops::saturating::{SaturatingAdd, SaturatingMul, SaturatingSub};
use num_traits::ops::wrapping::{WrappingAdd, WrappingMul, WrappingNeg, WrappingSub};
use num_traits::{CheckedAdd, CheckedDiv, CheckedMul, CheckedNeg, CheckedRem, CheckedSub, One, Zero};
use rand::Rng;
use serde_json::{json, Value};
use vek::*;

const NONE: i64 = 999999;

struct Row { fam: String, op: String, x: i64, v: Vec<i64>, f: Vec<i64> }

/// One table entry on one vector type / lane: returns (lane values or None, flag) of the lifted operation.
macro_rules! lifted {
    ($V:ident, $n:expr, $t:ty, $fam:expr, $op:expr, $lane:expr, $lane2:expr, $x:expr, $y:expr, $fx:expr, $fy:expr) => {{
        let mut a: [$t; $n] = [$fx as $t; $n];
        let mut b: [$t; $n] = [$fy as $t; $n];
        a[$lane] = $x as $t; b[$lane] = $y as $t;
        if let Some(l2) = $lane2 { a[l2] = $x as $t; b[l2] = $y as $t; }
        let (va, vb) = ($V::<$t>::from(a), $V::<$t>::from(b));
        let arr = |v: $V<$t>| -> Vec<i64> { v.into_array().iter().map(|e| *e as i64).collect() };
        let r: Option<(Option<Vec<i64>>, i64)> = guarded(|| match ($fam, $op) {
            ("checked", "add") => (va.checked_add(&vb).map(arr), 0), ("checked", "sub") => (va.checked_sub(&vb).map(arr), 0),
            ("checked", "mul") => (va.checked_mul(&vb).map(arr), 0), ("checked", "div") => (va.checked_div(&vb).map(arr), 0),
            ("checked", "rem") => (va.checked_rem(&vb).map(arr), 0), ("checked", "neg") => (va.checked_neg().map(arr), 0),
            ("checked", "div_euclid") => (va.checked_div_euclid(&vb).map(arr), 0), ("checked", "rem_euclid") => (va.checked_rem_euclid(&vb).map(arr), 0),
            ("wrapping", "add") => (Some(arr(va.wrapping_add(&vb))), 0), ("wrapping", "sub") => (Some(arr(va.wrapping_sub(&vb))), 0),
            ("wrapping", "mul") => (Some(arr(va.wrapping_mul(&vb))), 0), ("wrapping", "neg") => (Some(arr(va.wrapping_neg())), 0),
            ("saturating", "add") => (Some(arr(SaturatingAdd::saturating_add(&va, &vb))), 0), ("saturating", "sub") => (Some(arr(SaturatingSub::saturating_sub(&va, &vb))), 0),
            ("saturating", "mul") => (Some(arr(SaturatingMul::saturating_mul(&va, &vb))), 0),
            ("overflowing", "add") => { let (v, f) = va.overflowing_add(&vb); (Some(arr(v)), f as i64) }
            ("overflowing", "sub") => { let (v, f) = va.overflowing_sub(&vb); (Some(arr(v)), f as i64) }
            ("overflowing", "mul") => { let (v, f) = va.overflowing_mul(&vb); (Some(arr(v)), f as i64) }
            ("plain", "div_euclid") => (Some(arr(va.div_euclid(&vb))), 0), ("plain", "rem_euclid") => (Some(arr(va.rem_euclid(&vb))), 0),
            (f, o) => panic!("unknown {} {}", f, o),
        });
        r
    }};
}

fn scalar_fixed(fam: &str, op: &str, fx: i64, fy: i64, signed: bool) -> i64 {
    // the fixed lanes hold (fx, fy) = small values for which every operation is exact
    let r = match op { "add" => fx + fy, "sub" => fx - fy, "mul" => fx * fy, "div" => fx / fy, "rem" => fx % fy, "neg" => -fx,
                       "div_euclid" => fx.div_euclid(fy), "rem_euclid" => fx.rem_euclid(fy), _ => unreachable!() };
    let _ = (fam, signed);
    r
}

pub fn replay(args: &[String]) {
    let tables = arg(args, "--tables").expect("--tables");
    let out = arg(args, "--out").expect("--out");
    let signed = arg_or(args, "--signed", "1") == "1";
    let stride: usize = arg_or(args, "--stride", "1").parse().unwrap();
    silence_panics();
    let mut rep = Report::new();
    let min8: i64 = if signed { -128 } else { 0 };
    let mut combo = 0usize;     // rotates through (vector type, lane)
    read_tlc_json_lines(&tables, |v| {
        let row = Row { fam: v["fam"].as_str().unwrap().into(), op: v["op"].as_str().unwrap().into(), x: v["x"].as_i64().unwrap(),
                        v: v["v"].as_array().unwrap().iter().map(|e| e.as_i64().unwrap()).collect(), f: v["f"].as_array().unwrap().iter().map(|e| e.as_i64().unwrap()).collect() };
        rep.tables += 1;
        if row.v.iter().any(|e| *e == NONE) || row.f.iter().any(|e| *e == 1) { rep.nontrivial += 1; }
        if rep.samples.len() < 3 { rep.sample(json!({"table_row": {"fam": row.fam, "op": row.op, "x": row.x, "first8": &row.v[..8]}})); }
        // fixed lanes: (3, 2) for signed, (7, 2) for unsigned ("neg" on unsigned: lanes 0 so that -0 = 0 is exact)
        let (fx, fy): (i64, i64) = if row.op == "neg" && !signed { (0, 2) } else if signed { (3, 2) } else { (7, 2) };
        let fixed = scalar_fixed(&row.fam, &row.op, fx, fy, signed);
        let mut i = rep.tables as usize % stride;
        while i < 256 {
            let y = min8 + i as i64;
            combo += 1;
            macro_rules! go {
                ($V:ident, $n:expr, $name:expr, $t:ty) => {{
                    let lane = (combo / 13) % $n;
                    // every fourth entry occupies two lane positions at once (two failing / overflowing lanes must still
                    // give None / a set flag)
                    let lane2: Option<usize> = if combo % 4 == 0 { Some((lane + 1 + (combo / 52) % ($n - 1)) % $n) } else { None };
                    let got = lifted!($V, $n, $t, row.fam.as_str(), row.op.as_str(), lane, lane2, row.x, y, fx, fy);
                    let e = row.v[i];
                    let expect: Option<(Option<Vec<i64>>, i64)> = if row.fam == "plain" && e == NONE { None }     // the unchecked form panics
                        else if e == NONE { Some((None, 0)) }
                        else { let mut w = vec![fixed; $n]; w[lane] = e; if let Some(l2) = lane2 { w[l2] = e; } Some((Some(w), row.f[i])) };
                    rep.evals += 1;
                    if got != expect {
                        rep.mismatch(json!({"ty": format!("{}<{}>", $name, stringify!($t)), "fam": row.fam, "op": row.op, "lane": lane, "lane2": format!("{:?}", lane2), "x": row.x, "y": y,
                            "expected": format!("{:?}", expect), "observed": format!("{:?}", got), "key": format!("lift/{}_{}", row.fam, row.op)}));
                    }
                }};
            }
            macro_rules! pick { ($t:ty) => { match combo % 13 {
                0 => go!(Vec2, 2, "Vec2", $t), 1 => go!(Vec3, 3, "Vec3", $t), 2 => go!(Vec4, 4, "Vec4", $t), 3 => go!(Vec8, 8, "Vec8", $t), 4 => go!(Vec16, 16, "Vec16", $t),
                5 => go!(Vec32, 32, "Vec32", $t), 6 => go!(Vec64, 64, "Vec64", $t), 7 => go!(Extent2, 2, "Extent2", $t), 8 => go!(Extent3, 3, "Extent3", $t),
                9 => go!(Rgb, 3, "Rgb", $t), 10 => go!(Rgba, 4, "Rgba", $t), 11 => go!(Uv, 2, "Uv", $t), _ => go!(Uvw, 3, "Uvw", $t) } } }
            if signed { pick!(i8) } else { pick!(u8) }
            i += stride;
        }
    });
    rep.finish(&out);
}

// ---------------------------------------------------------------------------
// B2: casts, Zero/One, Inv, approx lifts

fn casts(d: &mut Drv) {
    // values around every boundary of the 8- and 16-bit target types
    const POOL: [i32; 22] = [-70000, -32769, -32768, -32767, -129, -128, -127, -1, 0, 1, 127, 128, 129, 255, 256, 257, 32767, 32768, 65535, 65536, 70000, 5];
    macro_rules! one {
        ($V:ident, $n:expr, $name:expr) => {{
            let src: Vec<i32> = (0..$n).map(|_| if d.pick(3) == 0 { POOL[d.pick(POOL.len())] } else { d.rng.gen_range(-100..=100) }).collect();
            let v = $V::<i32>::from_slice(&src);
            macro_rules! to {
                ($t:ty, $bits:expr, $signed:expr) => {{
                    let arg = |how: &str| json!({"ty": $name, "how": how, "bits": $bits, "signed": $signed, "a": src});
                    let o = |x: $V<$t>| json!(x.into_iter().map(|e| e as i64).collect::<Vec<_>>());
                    d.call("cast", || arg("as"), || o(v.as_::<$t>()));
                    d.call("cast", || arg("numcast"), || v.numcast::<$t>().map(o).unwrap_or(json!([])));
                    d.call("cast", || arg("az_wrapping"), || o(v.wrapping_as::<$t>()));
                    d.call("cast", || arg("az_wrapping"), || o(WrappingCast::<$V<$t>>::wrapping_cast(v)));
                    d.call("cast", || arg("az_saturating"), || o(v.saturating_as::<$t>()));
                    d.call("cast", || arg("az_saturating"), || o(SaturatingCast::<$V<$t>>::saturating_cast(v)));
                    d.call("cast", || arg("az_checked"), || v.checked_as::<$t>().map(o).unwrap_or(json!([])));
                    d.call("cast", || arg("az_checked"), || CheckedCast::<$V<$t>>::checked_cast(v).map(o).unwrap_or(json!([])));
                    d.call("cast", || arg("az_overflowing"), || { let (x, f) = v.overflowing_as::<$t>(); json!({"v": o(x), "f": f as i64}) });
                    d.call("cast", || arg("az_overflowing"), || { let (x, f) = OverflowingCast::<$V<$t>>::overflowing_cast(v); json!({"v": o(x), "f": f as i64}) });
                    // az / unwrapped_as panic when a value does not fit (debug assertions are on in the harness profile)
                    d.call("cast", || arg("az_unwrapped"), || guarded(|| o(v.unwrapped_as::<$t>())).unwrap_or(json!([])));
                    d.call("cast", || arg("az_unwrapped"), || guarded(|| o(v.az::<$t>())).unwrap_or(json!([])));
                    d.call("cast", || arg("az_unwrapped"), || guarded(|| o(Cast::<$V<$t>>::cast(v))).unwrap_or(json!([])));
                }};
            }
            to!(i8, 8, 1); to!(u8, 8, 0); to!(i16, 16, 1); to!(u16, 16, 0);
        }};
    }
    for_all_vecs!(one);
    // matrices (both layouts) and shapes: element casts
    use vek::mat::repr_c::column_major as cm;
    use vek::mat::repr_c::row_major as rm;
    let src: Vec<i32> = (0..16).map(|_| if d.pick(4) == 0 { POOL[d.pick(POOL.len())] } else { d.rng.gen_range(-100..=100) }).collect();
    macro_rules! mat {
        ($M:ident, $n:expr, $lay:expr, $m:ident) => {{
            let rows: Vec<Vec<i32>> = (0..$n).map(|i| (0..$n).map(|j| src[i * $n + j]).collect()).collect();
            let m = <$m::$M<i32> as crate::mat::MatT<i32>>::from_rows(&rows);
            let flat: Vec<i32> = rows.concat();
            let o = |x: $m::$M<u8>| json!((0..$n).flat_map(|i| (0..$n).map(move |j| (i, j))).map(|(i, j)| x[(i, j)] as i64).collect::<Vec<_>>());
            d.call("cast", || json!({"ty": format!("Mat{}{}", $n, $lay), "how": "as", "bits": 8, "signed": 0, "a": flat}), || o(m.as_::<u8>()));
            d.call("cast", || json!({"ty": format!("Mat{}{}", $n, $lay), "how": "numcast", "bits": 8, "signed": 0, "a": flat}), || m.numcast::<u8>().map(o).unwrap_or(json!([])));
        }};
    }
    mat!(Mat2, 2, "r", rm); mat!(Mat2, 2, "c", cm); mat!(Mat3, 3, "r", rm); mat!(Mat3, 3, "c", cm); mat!(Mat4, 4, "r", rm); mat!(Mat4, 4, "c", cm);
    let s = &src[..6];
    let j = |v: &[i8]| json!(v.iter().map(|e| *e as i64).collect::<Vec<_>>());
    d.call("cast", || json!({"ty": "Aabr", "how": "as", "bits": 8, "signed": 1, "a": &s[..4]}), || { let b: Aabr<i8> = Aabr { min: Vec2::new(s[0], s[1]), max: Vec2::new(s[2], s[3]) }.as_(); j(&[b.min.x, b.min.y, b.max.x, b.max.y]) });
    d.call("cast", || json!({"ty": "Aabb", "how": "as", "bits": 8, "signed": 1, "a": s}), || { let b: Aabb<i8> = Aabb { min: Vec3::new(s[0], s[1], s[2]), max: Vec3::new(s[3], s[4], s[5]) }.as_(); j(&[b.min.x, b.min.y, b.min.z, b.max.x, b.max.y, b.max.z]) });
    d.call("cast", || json!({"ty": "Rect", "how": "as", "bits": 8, "signed": 1, "a": &s[..4]}), || { let r: Rect<i8, i8> = Rect::new(s[0], s[1], s[2], s[3]).as_(); j(&[r.x, r.y, r.w, r.h]) });
    d.call("cast", || json!({"ty": "Rect3", "how": "as", "bits": 8, "signed": 1, "a": s}), || { let r: Rect3<i8, i8> = Rect3::new(s[0], s[1], s[2], s[3], s[4], s[5]).as_(); j(&[r.x, r.y, r.z, r.w, r.h, r.d]) });
    d.call("cast", || json!({"ty": "LineSegment2", "how": "as", "bits": 8, "signed": 1, "a": &s[..4]}), || { let l: LineSegment2<i8> = LineSegment2 { start: Vec2::new(s[0], s[1]), end: Vec2::new(s[2], s[3]) }.as_(); j(&[l.start.x, l.start.y, l.end.x, l.end.y]) });
    d.call("cast", || json!({"ty": "LineSegment3", "how": "as", "bits": 8, "signed": 1, "a": s}), || { let l: LineSegment3<i8> = LineSegment3 { start: Vec3::new(s[0], s[1], s[2]), end: Vec3::new(s[3], s[4], s[5]) }.as_(); j(&[l.start.x, l.start.y, l.start.z, l.end.x, l.end.y, l.end.z]) });
}

fn zero_one(d: &mut Drv) {
    macro_rules! one {
        ($V:ident, $n:expr, $name:expr) => {{
            let kind = d.pick(3);
            let mut a = vec![0i32; $n];
            if kind > 0 { let i = d.pick($n); a[i] = if kind == 1 { 1 } else { -3 }; }
            d.call("zero_one", || json!({"ty": $name, "how": "is_zero", "a": a}), || json!([Zero::is_zero(&$V::<i32>::from_slice(&a)) as i64]));
            d.call("zero_one", || json!({"ty": $name, "how": "zero", "a": vec![0; $n]}), || json!(<$V<i32> as Zero>::zero().into_iter().map(|e| e as i64).collect::<Vec<_>>()));
            // feature bytemuck: the all-zero value, and the value seen as plain bytes and back (no padding, element order)
            d.call("zero_one", || json!({"ty": $name, "how": "zero", "a": vec![0; $n]}), || json!(<$V<i32> as bytemuck::Zeroable>::zeroed().into_iter().map(|e| e as i64).collect::<Vec<_>>()));
            { let w: Vec<i32> = (0..$n).map(|i| 7 + 3 * i as i32).collect();
              d.call("zero_one", || json!({"ty": $name, "how": "zero", "a": w}), || { let v = $V::<i32>::from_slice(&w); let by: &[u8] = bytemuck::bytes_of(&v); let back: &[i32] = bytemuck::cast_slice(by); json!(back.iter().map(|e| *e as i64).collect::<Vec<_>>()) }); }
            d.call("zero_one", || json!({"ty": $name, "how": "one", "a": vec![1; $n]}), || json!(<$V<i32> as One>::one().into_iter().map(|e| e as i64).collect::<Vec<_>>()));
            // reciprocal per element on exact binary fractions
            let p: Vec<f64> = (0..$n).map(|_| [1.0, 2.0, -4.0, 0.5, 8.0, -0.25][d.pick(6)]).collect();
            d.call("zero_one", || json!({"ty": $name, "how": "inv", "a": p.iter().map(|x| (x * 64.0) as i64).collect::<Vec<_>>()}),
                   || json!(num_traits::Inv::inv($V::<f64>::from_slice(&p)).into_iter().map(|e| (e * 64.0) as i64).collect::<Vec<_>>()));
        }};
    }
    for_all_vecs!(one);
    // matrices (both layouts) and the quaternion: all elements zero
    macro_rules! zm { ($M:ty, $name:expr, $n:expr) => {{
        d.call("zero_one", || json!({"ty": $name, "how": "zero", "a": vec![0; $n]}), || json!(<$M as bytemuck::Zeroable>::zeroed().into_row_array().iter().map(|e| *e as i64).collect::<Vec<_>>()));
        d.call("zero_one", || json!({"ty": $name, "how": "zero", "a": vec![0; $n]}), || json!(<$M as Zero>::zero().into_row_array().iter().map(|e| *e as i64).collect::<Vec<_>>()));
        // is_zero = all elements zero: the zero matrix, one non-zero element anywhere (every other stored line is then
        // entirely zero), one zero element in an otherwise non-zero matrix, a single non-zero line
        for kind in 0..4 {
            let mut a = vec![if kind == 2 { 5i32 } else { 0 }; $n];
            let i = d.pick($n);
            match kind { 0 => {}, 1 => a[i] = [1, -3][d.pick(2)], 2 => a[i] = 0, _ => { let side = if $n == 4 { 2 } else if $n == 9 { 3 } else { 4 }; let r = d.pick(side); for c in 0..side { a[r * side + c] = 7; } } }
            d.call("zero_one", || json!({"ty": $name, "how": "is_zero", "a": a}), || { let mut it = a.iter().cloned(); let m = <$M>::zero().map(|_| it.next().unwrap()); json!([Zero::is_zero(&m) as i64]) });
        }
    }} }
    zm!(vek::mat::repr_c::row_major::Mat2<i32>, "Mat2R", 4); zm!(vek::mat::repr_c::column_major::Mat2<i32>, "Mat2C", 4);
    zm!(vek::mat::repr_c::row_major::Mat3<i32>, "Mat3R", 9); zm!(vek::mat::repr_c::column_major::Mat3<i32>, "Mat3C", 9);
    zm!(vek::mat::repr_c::row_major::Mat4<i32>, "Mat4R", 16); zm!(vek::mat::repr_c::column_major::Mat4<i32>, "Mat4C", 16);
    d.call("zero_one", || json!({"ty": "Quaternion", "how": "zero", "a": vec![0; 4]}), || { let q = <Quaternion<i32> as bytemuck::Zeroable>::zeroed(); json!([q.x as i64, q.y as i64, q.z as i64, q.w as i64]) });
}

/// approx lifts: the lifted predicate must be the conjunction of the scalar predicate over corresponding elements
fn approx_lifts(d: &mut Drv) {
    use approx::{AbsDiffEq, RelativeEq, UlpsEq};
    let classes: [f32; 16] = [0.0, -0.0, 1.0, 1.0 + f32::EPSILON, 1.0 + 1e-3, 1e30, f32::INFINITY, f32::NEG_INFINITY, f32::NAN, 1e-40, -1.0, 100.0, 100.00001, 3.0e-8, 100.0005, 1.000005];
    // values close to x on either side of the absolute / relative / ulps thresholds used below
    let near = |d: &mut Drv, x: f32| -> f32 {
        if x == 0.0 { [-0.0, 1e-40, 3.0e-8, 5.0e-7, 2.0e-6][d.pick(5)] }
        else if x.is_finite() { x * [1.0 + f32::EPSILON, 1.0 + 3.0 * f32::EPSILON, 1.0 + 8.0 * f32::EPSILON, 1.000005, 1.00002, 1.0000005, 1.0005, 1.005][d.pick(8)] }
        else { x }
    };
    // (epsilon, max_relative) pairs far apart in both orders, so that a swapped or shared tolerance shows
    let (eps, rel): (f32, f32) = [(1e-6, 1e-5), (1e-6, 1e-2), (1e-2, 1e-6)][d.pick(3)];
    macro_rules! one {
        ($V:ident, $n:expr, $name:expr) => {{
            let a: Vec<f32> = (0..$n).map(|_| classes[d.pick(classes.len())]).collect();
            let mut b = a.clone();
            // differ in zero, one or two lane positions
            for _ in 0..d.pick(3) { let i = d.pick($n); b[i] = if d.pick(2) == 0 { near(d, a[i]) } else { classes[d.pick(classes.len())] }; }
            let (va, vb) = ($V::<f32>::from_slice(&a), $V::<f32>::from_slice(&b));
            let bits = |v: &[f32]| json!(v.iter().map(|x| x.to_bits() as i64).collect::<Vec<_>>());
            let el = |f: &dyn Fn(f32, f32) -> bool| json!(a.iter().zip(&b).map(|(x, y)| f(*x, *y) as i64).collect::<Vec<_>>());
            d.call("approx", || json!({"ty": $name, "kind": "abs_diff", "a": bits(&a), "b": bits(&b), "elems": el(&|x, y| x.abs_diff_eq(&y, 1e-6))}), || json!(va.abs_diff_eq(&vb, 1e-6) as i64));
            d.call("approx", || json!({"ty": $name, "kind": "relative", "a": bits(&a), "b": bits(&b), "elems": el(&|x, y| x.relative_eq(&y, eps, rel))}), || json!(va.relative_eq(&vb, eps, rel) as i64));
            d.call("approx", || json!({"ty": $name, "kind": "ulps", "a": bits(&a), "b": bits(&b), "elems": el(&|x, y| x.ulps_eq(&y, 1e-6, 4))}), || json!(va.ulps_eq(&vb, 1e-6, 4) as i64));
            d.call("approx", || json!({"ty": $name, "kind": "abs_diff/default", "a": bits(&a), "b": bits(&b), "elems": el(&|x, y| x.abs_diff_eq(&y, f32::default_epsilon()))}), || json!(va.abs_diff_eq(&vb, <$V<f32> as AbsDiffEq>::default_epsilon()) as i64));
        }};
    }
    for_all_vecs!(one);
    use vek::mat::repr_c::column_major as cm;
    use vek::mat::repr_c::row_major as rm;
    macro_rules! mat {
        ($M:ident, $n:expr, $m:ident, $lay:expr) => {{
            let a: Vec<Vec<f32>> = (0..$n).map(|_| (0..$n).map(|_| classes[d.pick(classes.len())]).collect()).collect();
            let mut b = a.clone();
            for _ in 0..d.pick(3) { let (i, j) = (d.pick($n), d.pick($n)); b[i][j] = if d.pick(2) == 0 { near(d, a[i][j]) } else { classes[d.pick(classes.len())] }; }
            let (ma, mb) = (<$m::$M<f32> as crate::mat::MatT<f32>>::from_rows(&a), <$m::$M<f32> as crate::mat::MatT<f32>>::from_rows(&b));
            let (fa, fb): (Vec<f32>, Vec<f32>) = (a.concat(), b.concat());
            let bits = |v: &[f32]| json!(v.iter().map(|x| x.to_bits() as i64).collect::<Vec<_>>());
            let el = |f: &dyn Fn(f32, f32) -> bool| json!(fa.iter().zip(&fb).map(|(x, y)| f(*x, *y) as i64).collect::<Vec<_>>());
            let ty = format!("Mat{}{}", $n, $lay);
            d.call("approx", || json!({"ty": ty, "kind": "abs_diff", "a": bits(&fa), "b": bits(&fb), "elems": el(&|x, y| x.abs_diff_eq(&y, 1e-6))}), || json!(ma.abs_diff_eq(&mb, 1e-6) as i64));
            d.call("approx", || json!({"ty": ty, "kind": "relative", "a": bits(&fa), "b": bits(&fb), "elems": el(&|x, y| x.relative_eq(&y, eps, rel))}), || json!(ma.relative_eq(&mb, eps, rel) as i64));
            d.call("approx", || json!({"ty": ty, "kind": "ulps", "a": bits(&fa), "b": bits(&fb), "elems": el(&|x, y| x.ulps_eq(&y, 1e-6, 4))}), || json!(ma.ulps_eq(&mb, 1e-6, 4) as i64));
        }};
    }
    mat!(Mat2, 2, rm, "r"); mat!(Mat2, 2, cm, "c"); mat!(Mat3, 3, rm, "r"); mat!(Mat3, 3, cm, "c"); mat!(Mat4, 4, rm, "r"); mat!(Mat4, 4, cm, "c");
    for lane in 0..4usize {
    let a: Vec<f32> = (0..4).map(|_| [1.0f32, 100.0, 100.0, 0.0, 1e30][d.pick(5)]).collect();
    let mut b = a.clone();
    b[lane] = if d.pick(4) == 0 { classes[d.pick(classes.len())] } else { near(d, a[lane]) };
    let (qa, qb) = (Quaternion::from_xyzw(a[0], a[1], a[2], a[3]), Quaternion::from_xyzw(b[0], b[1], b[2], b[3]));
    let bits = |v: &[f32]| json!(v.iter().map(|x| x.to_bits() as i64).collect::<Vec<_>>());
    let el = |f: &dyn Fn(f32, f32) -> bool| json!(a.iter().zip(&b).map(|(x, y)| f(*x, *y) as i64).collect::<Vec<_>>());
    d.call("approx", || json!({"ty": "Quaternion", "kind": "abs_diff", "a": bits(&a), "b": bits(&b), "elems": el(&|x, y| x.abs_diff_eq(&y, 1e-6))}), || json!(qa.abs_diff_eq(&qb, 1e-6) as i64));
    d.call("approx", || json!({"ty": "Quaternion", "kind": "relative", "a": bits(&a), "b": bits(&b), "elems": el(&|x, y| x.relative_eq(&y, eps, rel))}), || json!(qa.relative_eq(&qb, eps, rel) as i64));
    d.call("approx", || json!({"ty": "Quaternion", "kind": "ulps", "a": bits(&a), "b": bits(&b), "elems": el(&|x, y| x.ulps_eq(&y, 1e-6, 4))}), || json!(qa.ulps_eq(&qb, 1e-6, 4) as i64));
    }
}

pub fn drive_numcast(args: &[String]) {
    let n: usize = arg_or(args, "--n", "10").parse().unwrap();
    let seed: u64 = arg_or(args, "--seed", "1").parse().unwrap();
    let mut d = Drv::new(&arg(args, "--out").expect("--out"), seed);
    for _ in 0..n { casts(&mut d); zero_one(&mut d); for _ in 0..4 { approx_lifts(&mut d); } }
    d.finish(arg(args, "--summary"));
}

