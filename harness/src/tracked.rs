//! `Tracked`: an ownership-tracking element type.  Every creation, destruction and read
//! (formatting, comparison, hashing, cloning) of an element is appended to a
//! thread-local event log, so that the harness can tell whether a container moved each
//! element exactly once and never touched a moved-out one (C18).  The payload is a plain
//! integer, so even a stale bit-copy read is harmless to this process.
use std::cell::RefCell;
use std::fmt;
use std::hash::{Hash, Hasher};

#[derive(Clone, Copy, PartialEq, Eq, Debug)]
pub enum Ev { New(u32), Drop(u32), Read(u32) }

thread_local! { static LOG: RefCell<Vec<Ev>> = RefCell::new(Vec::new()); }

pub fn log_take() -> Vec<Ev> { LOG.with(|l| std::mem::take(&mut *l.borrow_mut())) }
pub fn log_clear() { LOG.with(|l| l.borrow_mut().clear()); }
fn push(e: Ev) { LOG.with(|l| l.borrow_mut().push(e)); }
/// records a read of element `id` (for element types defined elsewhere)
pub fn log_read(id: u32) { push(Ev::Read(id)); }

pub struct Tracked { pub id: u32 }
impl Tracked {
    pub fn new(id: u32) -> Self { push(Ev::New(id)); Tracked { id } }
}
impl Default for Tracked { fn default() -> Self { Tracked::new(0) } }
impl Drop for Tracked { fn drop(&mut self) { push(Ev::Drop(self.id)); } }
impl fmt::Debug for Tracked {
    fn fmt(&self, f: &mut fmt::Formatter) -> fmt::Result { push(Ev::Read(self.id)); write!(f, "T{}", self.id) }
}
impl fmt::Display for Tracked {
    fn fmt(&self, f: &mut fmt::Formatter) -> fmt::Result { push(Ev::Read(self.id)); write!(f, "T{}", self.id) }
}
impl PartialEq for Tracked {
    fn eq(&self, o: &Self) -> bool { push(Ev::Read(self.id)); push(Ev::Read(o.id)); self.id == o.id }
}
impl Eq for Tracked {}
impl Hash for Tracked {
    fn hash<H: Hasher>(&self, h: &mut H) { push(Ev::Read(self.id)); self.id.hash(h) }
}

pub fn drops(ev: &[Ev]) -> Vec<u32> { ev.iter().filter_map(|e| if let Ev::Drop(i) = e { Some(*i) } else { None }).collect() }
pub fn reads(ev: &[Ev]) -> Vec<u32> {
    let mut v: Vec<u32> = ev.iter().filter_map(|e| if let Ev::Read(i) = e { Some(*i) } else { None }).collect();
    v.sort(); v.dedup(); v
}
