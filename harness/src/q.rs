//! Lane Rat: `Q`, an exact number type that drives vek's generic (`T: Real`) code.
//!
//! A value is `c * u` with `c` an exact rational (i128/i128, normalised) and `u` a unit:
//! `One` (plain rational), `Pi`, or `Phi(b)` — the angle whose (cos, sin) is the b-th
//! Pythagorean pair of `BASES`.  Angles are therefore *tokens*: `sin`, `cos`, `tan` of an
//! integer multiple of `Phi(b)` (or of a multiple of pi/2) are exact rationals, `acos` of a
//! registered cosine returns the token again, so rotations, half-angle quaternions and slerp
//! are evaluated with no rounding at all.  Anything that cannot be represented exactly
//! (non-square `sqrt`, transcendental of an unregistered argument, i128 overflow) raises an
//! *inconclusive* panic that the driver tells apart from a panic of the code under test.
//! `P` is the prime of the field the TLA+ side computes in; values are logged as residues.
use num_traits::{Num, NumCast, One, ToPrimitive, Zero};
use std::cell::Cell;
use std::cmp::Ordering;
use std::fmt;
use std::ops::*;

pub const P: i128 = 46337;
/// (cos, sin) numerators over a common denominator: BASES[b] = (c, s, h) means cos=c/h, sin=s/h.
pub const BASES: [(i128, i128, i128); 4] = [(4, 3, 5), (12, 5, 13), (40, 9, 41), (15, 8, 17)];

#[derive(Clone, Copy, PartialEq, Eq, Debug, Hash)]
pub enum Unit { One, Pi, Phi(u8), /// a rational linear combination of Pi and the Phi(b), interned in MIXES
    Mix(u16) }
/// coefficients of (Pi, Phi(0), .., Phi(3)), each a normalised rational (n, d)
pub type Combo = [(i128, i128); 5];
thread_local! { static MIXES: std::cell::RefCell<Vec<Combo>> = std::cell::RefCell::new(Vec::new()); }
fn intern(c: Combo) -> u16 {
    MIXES.with(|m| {
        let mut m = m.borrow_mut();
        if let Some(i) = m.iter().position(|x| *x == c) { return i as u16; }
        m.push(c);
        (m.len() - 1) as u16
    })
}
fn combo_of(i: u16) -> Combo { MIXES.with(|m| m.borrow()[i as usize]) }

#[derive(Clone, Copy)]
pub struct Q { pub n: i128, pub d: i128, pub u: Unit }

thread_local! {
    static INCONCLUSIVE: Cell<u32> = Cell::new(0);
}
/// Raised for situations the exact lane cannot decide; counted, never a verdict.
pub fn inconclusive(why: &str) -> ! {
    INCONCLUSIVE.with(|c| c.set(c.get() + 1));
    panic!("Q:inconclusive:{}", why)
}
pub fn take_inconclusive() -> u32 { INCONCLUSIVE.with(|c| c.replace(0)) }
thread_local! { static STRICT_DIV: Cell<bool> = Cell::new(false); }
/// When on, a division by zero inside the code under test is an outcome of that code (a float
/// would become NaN/inf) and is logged as a failed call; when off (default) the sample is dropped
/// as inconclusive (drivers whose generators may produce singular inputs).
pub fn set_strict_div(on: bool) { STRICT_DIV.with(|c| c.set(on)); }

fn gcd(mut a: i128, mut b: i128) -> i128 {
    a = a.abs(); b = b.abs();
    while b != 0 { let t = a % b; a = b; b = t; }
    a
}
fn ck(o: Option<i128>) -> i128 { match o { Some(v) => v, None => inconclusive("overflow") } }
fn mul(a: i128, b: i128) -> i128 { ck(a.checked_mul(b)) }
fn add(a: i128, b: i128) -> i128 { ck(a.checked_add(b)) }

impl Q {
    pub fn new(n: i128, d: i128) -> Q {
        if d == 0 { inconclusive("division by zero") }
        let g = gcd(n, d);
        let s = if d < 0 { -1 } else { 1 };
        if g == 0 { Q { n: 0, d: 1, u: Unit::One } } else { Q { n: s * (n / g), d: s * (d / g), u: Unit::One } }
    }
    pub fn int(n: i64) -> Q { Q { n: n as i128, d: 1, u: Unit::One } }
    pub fn frac(n: i64, d: i64) -> Q { Q::new(n as i128, d as i128) }
    fn with(self, u: Unit) -> Q { if self.n == 0 { Q { u: Unit::One, ..self } } else { Q { u, ..self } } }
    /// the angle k * Phi(b)
    pub fn angle(b: u8, k: i64) -> Q { Q::int(k).with(Unit::Phi(b)) }
    pub fn pi_mul(n: i64, d: i64) -> Q { Q::frac(n, d).with(Unit::Pi) }
    /// an angle value as coefficients of (Pi, Phi(0..3)); None for plain numbers
    pub fn combo(self) -> Option<Combo> {
        let mut c: Combo = [(0, 1); 5];
        match self.u {
            Unit::One => { if self.n == 0 { return Some(c); } return None; }
            Unit::Pi => c[0] = (self.n, self.d),
            Unit::Phi(b) => c[1 + b as usize] = (self.n, self.d),
            Unit::Mix(i) => { let base = combo_of(i); for k in 0..5 { let q = Q::new(base[k].0, base[k].1) * Q::new(self.n, self.d); c[k] = (q.n, q.d); } }
        }
        Some(c)
    }
    fn from_combo(c: Combo) -> Q {
        let nz: Vec<usize> = (0..5).filter(|k| c[*k].0 != 0).collect();
        match nz.len() {
            0 => Q::int(0),
            1 => { let k = nz[0]; Q { n: c[k].0, d: c[k].1, u: if k == 0 { Unit::Pi } else { Unit::Phi((k - 1) as u8) } } }
            _ => Q { n: 1, d: 1, u: Unit::Mix(intern(c)) },
        }
    }
    pub fn is_plain(self) -> bool { self.u == Unit::One }
    pub fn is_int(self) -> bool { self.u == Unit::One && self.d == 1 }
    pub fn coef(self) -> Q { Q { u: Unit::One, ..self } }
    pub fn approx(self) -> f64 {
        let c = self.n as f64 / self.d as f64;
        match self.u {
            Unit::One => c,
            Unit::Pi => c * std::f64::consts::PI,
            Unit::Phi(b) => { let (co, si, _) = BASES[b as usize]; c * (si as f64).atan2(co as f64) }
            Unit::Mix(_) => {
                let k = self.combo().unwrap();
                let mut a = k[0].0 as f64 / k[0].1 as f64 * std::f64::consts::PI;
                for b in 0..4 { let (co, si, _) = BASES[b]; a += k[1 + b].0 as f64 / k[1 + b].1 as f64 * (si as f64).atan2(co as f64); }
                a
            }
        }
    }
    /// residue of a plain rational in the prime field Z_P (None if the denominator vanishes mod P)
    pub fn residue(self) -> Option<i64> {
        if self.u != Unit::One { inconclusive("residue of a non-plain value") }
        let dm = self.d.rem_euclid(P);
        if dm == 0 { return None; }
        Some(((self.n.rem_euclid(P)) * inv_mod(dm) % P) as i64)
    }
    /// exact (cos, sin) of an angle value
    pub fn cos_sin(self) -> (Q, Q) {
        if self.n == 0 { return (Q::int(1), Q::int(0)); }
        match self.u {
            Unit::Phi(b) if self.d == 1 => {
                let (c, s, h) = BASES[b as usize];
                let (c1, s1) = (Q::new(c, h), Q::new(s, h));
                let k = self.n;
                if k.abs() > 40 { inconclusive("angle multiple too large") }
                let (mut co, mut si) = (Q::int(1), Q::int(0));
                for _ in 0..k.abs() {
                    let nc = co * c1 - si * s1;
                    let ns = si * c1 + co * s1;
                    co = nc; si = ns;
                }
                if k < 0 { si = -si; }
                (co, si)
            }
            Unit::Pi if 2 % self.d == 0 => {
                // multiples of pi/2
                let q = (self.n * (2 / self.d)).rem_euclid(4);
                match q { 0 => (Q::int(1), Q::int(0)), 1 => (Q::int(0), Q::int(1)), 2 => (Q::int(-1), Q::int(0)), _ => (Q::int(0), Q::int(-1)) }
            }
            Unit::Mix(_) => {
                // rotate by each component in turn
                let k = self.combo().unwrap();
                let (mut co, mut si) = Q { n: k[0].0, d: k[0].1, u: Unit::Pi }.cos_sin();
                for b in 0..4 {
                    if k[1 + b].0 == 0 { continue; }
                    let (c2, s2) = Q { n: k[1 + b].0, d: k[1 + b].1, u: Unit::Phi(b as u8) }.cos_sin();
                    let nc = co * c2 - si * s2;
                    let ns = si * c2 + co * s2;
                    co = nc; si = ns;
                }
                (co, si)
            }
            _ => inconclusive("sin/cos of an unregistered angle"),
        }
    }
    pub fn sqrt_exact(self) -> Option<Q> {
        if self.u != Unit::One || self.n < 0 { return None; }
        let (a, b) = (isqrt(self.n), isqrt(self.d));
        if a * a == self.n && b * b == self.d { Some(Q { n: a, d: b, u: Unit::One }) } else { None }
    }
}
pub fn inv_mod(a: i128) -> i128 {
    // Fermat: a^(P-2) mod P
    let (mut r, mut b, mut e) = (1i128, a.rem_euclid(P), P - 2);
    while e > 0 { if e & 1 == 1 { r = r * b % P; } b = b * b % P; e >>= 1; }
    r
}
fn isqrt(v: i128) -> i128 {
    if v < 0 { return -1; }
    let mut r = (v as f64).sqrt() as i128;
    while r * r > v { r -= 1; }
    while (r + 1) * (r + 1) <= v { r += 1; }
    r
}

impl fmt::Debug for Q {
    fn fmt(&self, f: &mut fmt::Formatter) -> fmt::Result {
        let u = match self.u { Unit::One => String::new(), Unit::Pi => "*pi".into(), Unit::Phi(b) => format!("*phi{}", b), Unit::Mix(i) => format!("*mix{}", i) };
        if self.d == 1 { write!(f, "{}{}", self.n, u) } else { write!(f, "{}/{}{}", self.n, self.d, u) }
    }
}
impl fmt::Display for Q {
    fn fmt(&self, f: &mut fmt::Formatter) -> fmt::Result { fmt::Debug::fmt(self, f) }
}
impl PartialEq for Q {
    fn eq(&self, o: &Q) -> bool { self.n == o.n && self.d == o.d && (self.u == o.u || self.n == 0) }
}
impl PartialOrd for Q {
    fn partial_cmp(&self, o: &Q) -> Option<Ordering> {
        if self.u == o.u || self.n == 0 || o.n == 0 {
            // same unit (all units are positive): compare coefficients exactly
            return Some(mul(self.n, o.d).cmp(&mul(o.n, self.d)));
        }
        let (a, b) = (self.approx(), o.approx());
        if (a - b).abs() < 1e-9 * (1.0 + a.abs()) { inconclusive("comparison of different units too close") }
        a.partial_cmp(&b)
    }
}
impl Add for Q {
    type Output = Q;
    fn add(self, o: Q) -> Q {
        if self.n == 0 { return o; }
        if o.n == 0 { return self; }
        if self.u != o.u {
            // two angles in different units: a linear combination
            match (self.combo(), o.combo()) {
                (Some(a), Some(b)) => {
                    let mut c: Combo = [(0, 1); 5];
                    for k in 0..5 { let q = Q::new(a[k].0, a[k].1) + Q::new(b[k].0, b[k].1); c[k] = (q.n, q.d); }
                    return Q::from_combo(c);
                }
                _ => inconclusive("sum of a number and an angle"),
            }
        }
        let g = gcd(self.d, o.d);
        let (da, db) = (self.d / g, o.d / g);
        Q::new(add(mul(self.n, db), mul(o.n, da)), mul(self.d, db)).with(self.u)
    }
}
impl Neg for Q { type Output = Q; fn neg(self) -> Q { Q { n: -self.n, ..self } } }
impl Sub for Q { type Output = Q; fn sub(self, o: Q) -> Q { self + (-o) } }
impl Mul for Q {
    type Output = Q;
    fn mul(self, o: Q) -> Q {
        if self.n == 0 || o.n == 0 { return Q::int(0); }
        let u = match (self.u, o.u) { (Unit::One, u) => u, (u, Unit::One) => u, _ => inconclusive("product of two units") };
        let (g1, g2) = (gcd(self.n, o.d), gcd(o.n, self.d));
        Q::new(mul(self.n / g1, o.n / g2), mul(self.d / g2, o.d / g1)).with(u)
    }
}
impl Div for Q {
    type Output = Q;
    fn div(self, o: Q) -> Q {
        if o.n == 0 { if STRICT_DIV.with(|c| c.get()) { panic!("Q:division by zero in the code under test") } inconclusive("division by zero") }
        let u = if self.n == 0 { Unit::One } else if o.u == Unit::One { self.u } else if o.u == self.u { Unit::One } else { inconclusive("quotient of different units") };
        let inv = Q::new(o.d, o.n);
        (self.coef() * inv).with(u)
    }
}
impl Rem for Q {
    type Output = Q;
    fn rem(self, o: Q) -> Q {
        // truncated remainder, sign of the dividend (as for floats and Rust integers)
        if !(self.is_plain() && o.is_plain()) { inconclusive("rem of non-plain values") }
        let q = (self / o).trunc_q();
        self - q * o
    }
}
macro_rules! assign_ops { ($($tr:ident $f:ident $op:tt),+) => {$( impl $tr for Q { fn $f(&mut self, o: Q) { *self = *self $op o; } } )+} }
assign_ops!(AddAssign add_assign +, SubAssign sub_assign -, MulAssign mul_assign *, DivAssign div_assign /, RemAssign rem_assign %);
macro_rules! ref_ops { ($($tr:ident $f:ident $op:tt),+) => {$(
    impl<'a> $tr<&'a Q> for Q { type Output = Q; fn $f(self, o: &'a Q) -> Q { self $op *o } }
    impl<'a> $tr<Q> for &'a Q { type Output = Q; fn $f(self, o: Q) -> Q { *self $op o } }
    impl<'a, 'b> $tr<&'b Q> for &'a Q { type Output = Q; fn $f(self, o: &'b Q) -> Q { *self $op *o } }
)+} }
ref_ops!(Add add +, Sub sub -, Mul mul *, Div div /, Rem rem %);
impl<'a> Neg for &'a Q { type Output = Q; fn neg(self) -> Q { -*self } }
impl Zero for Q { fn zero() -> Q { Q::int(0) } fn is_zero(&self) -> bool { self.n == 0 } }
impl One for Q { fn one() -> Q { Q::int(1) } }
impl Default for Q { fn default() -> Q { Q::int(0) } }
impl Num for Q {
    type FromStrRadixErr = ();
    fn from_str_radix(s: &str, r: u32) -> Result<Q, ()> { i64::from_str_radix(s, r).map(Q::int).map_err(|_| ()) }
}
impl ToPrimitive for Q {
    fn to_i64(&self) -> Option<i64> { if self.is_plain() { Some((self.n / self.d) as i64) } else { None } }
    fn to_u64(&self) -> Option<u64> { if self.is_plain() && self.n >= 0 { Some((self.n / self.d) as u64) } else { None } }
    fn to_f64(&self) -> Option<f64> { Some(self.approx()) }
}
pub fn from_f64_exact(f: f64) -> Option<Q> {
    if !f.is_finite() { return None; }
    let mut d: i128 = 1;
    let mut x = f;
    let mut i = 0;
    while x.fract() != 0.0 { x *= 2.0; d *= 2; i += 1; if i > 60 { return None; } }
    if x.abs() > 1e30 { return None; }
    Some(Q::new(x as i128, d))
}
impl NumCast for Q {
    fn from<T: ToPrimitive>(n: T) -> Option<Q> {
        // integers exactly; floats as the dyadic rational they are
        if let Some(f) = n.to_f64() {
            if f.fract() == 0.0 && f.abs() < 9e15 { return n.to_i64().map(Q::int).or_else(|| from_f64_exact(f)); }
            return from_f64_exact(f);
        }
        None
    }
}
impl From<u8> for Q { fn from(v: u8) -> Q { Q::int(v as i64) } }
impl From<u16> for Q { fn from(v: u16) -> Q { Q::int(v as i64) } }
impl From<i32> for Q { fn from(v: i32) -> Q { Q::int(v as i64) } }
impl num_traits::MulAdd for Q { type Output = Q; fn mul_add(self, a: Q, b: Q) -> Q { self * a + b } }
impl num_traits::MulAddAssign for Q { fn mul_add_assign(&mut self, a: Q, b: Q) { *self = *self * a + b; } }
impl num_traits::Bounded for Q {
    fn min_value() -> Q { Q::new(-(1i128 << 100), 1) }
    fn max_value() -> Q { Q::new(1i128 << 100, 1) }
}
impl num_traits::Signed for Q {
    fn abs(&self) -> Q { Q { n: self.n.abs(), ..*self } }
    fn abs_sub(&self, o: &Q) -> Q { if *self <= *o { Q::int(0) } else { *self - *o } }
    fn signum(&self) -> Q { Q::int(self.n.signum() as i64) }
    fn is_positive(&self) -> bool { self.n > 0 }
    fn is_negative(&self) -> bool { self.n < 0 }
}
impl Q {
    pub fn max_q(self, o: Q) -> Q { if self >= o { self } else { o } }
    fn trunc_q(self) -> Q { if !self.is_plain() { inconclusive("trunc of non-plain") } Q::new(self.n / self.d, 1) }
    fn floor_q(self) -> Q { if !self.is_plain() { inconclusive("floor of non-plain") } Q::new(self.n.div_euclid(self.d), 1) }
}
fn unsup(what: &str) -> ! { inconclusive(what) }

impl num_traits::real::Real for Q {
    fn min_value() -> Q { Q::new(-(1i128 << 100), 1) }
    fn min_positive_value() -> Q { Q::new(1, 1i128 << 100) }
    fn epsilon() -> Q { Q::new(1, 1i128 << 40) }
    fn max_value() -> Q { Q::new(1i128 << 100, 1) }
    fn floor(self) -> Q { self.floor_q() }
    fn ceil(self) -> Q { -((-self).floor_q()) }
    fn round(self) -> Q {
        // half away from zero, like f32::round
        let a = Q { n: self.n.abs(), ..self };
        let r = (a + Q::new(1, 2)).floor_q();
        if self.n < 0 { -r } else { r }
    }
    fn trunc(self) -> Q { self.trunc_q() }
    fn fract(self) -> Q { self - self.trunc_q() }
    fn abs(self) -> Q { Q { n: self.n.abs(), ..self } }
    fn signum(self) -> Q { Q::int(if self.n >= 0 { 1 } else { -1 }) }
    fn is_sign_positive(self) -> bool { self.n >= 0 }
    fn is_sign_negative(self) -> bool { self.n < 0 }
    fn mul_add(self, a: Q, b: Q) -> Q { self * a + b }
    fn recip(self) -> Q { Q::int(1) / self }
    fn powi(self, n: i32) -> Q {
        let mut r = Q::int(1);
        for _ in 0..n.abs() { r = r * self; }
        if n < 0 { Q::int(1) / r } else { r }
    }
    fn powf(self, n: Q) -> Q { if n.is_int() { self.powi(n.n as i32) } else if n == Q::new(1, 2) { num_traits::real::Real::sqrt(self) } else { unsup("powf") } }
    fn sqrt(self) -> Q { match self.sqrt_exact() { Some(r) => r, None => unsup("sqrt of a non-square") } }
    fn exp(self) -> Q { unsup("exp") }
    fn exp2(self) -> Q { unsup("exp2") }
    fn ln(self) -> Q { unsup("ln") }
    fn log(self, _b: Q) -> Q { unsup("log") }
    fn log2(self) -> Q { unsup("log2") }
    fn log10(self) -> Q { unsup("log10") }
    fn to_degrees(self) -> Q {
        // only rational multiples of pi have a rational number of degrees
        if self.n == 0 { return Q::int(0); }
        match self.u { Unit::Pi => Q::new(mul(self.n, 180), self.d), _ => unsup("to_degrees of a non-pi angle") }
    }
    fn to_radians(self) -> Q {
        // degrees -> radians: d * pi / 180
        if !self.is_plain() { unsup("to_radians of non-plain") }
        (self / Q::int(180)).with(Unit::Pi)
    }
    fn max(self, o: Q) -> Q { if self >= o { self } else { o } }
    fn min(self, o: Q) -> Q { if self <= o { self } else { o } }
    fn abs_sub(self, o: Q) -> Q { if self <= o { Q::int(0) } else { self - o } }
    fn cbrt(self) -> Q { unsup("cbrt") }
    fn hypot(self, o: Q) -> Q { num_traits::real::Real::sqrt(self * self + o * o) }
    fn sin(self) -> Q { self.cos_sin().1 }
    fn cos(self) -> Q { self.cos_sin().0 }
    fn tan(self) -> Q { let (c, s) = self.cos_sin(); s / c }
    fn asin(self) -> Q {
        // the angle in [-pi/2, pi/2] with this sine, when it is a registered token
        if !self.is_plain() { unsup("asin of non-plain") }
        if self.n == 0 { return Q::int(0); }
        if self == Q::int(1) { return Q::pi_mul(1, 2); }
        if self == Q::int(-1) { return Q::pi_mul(-1, 2); }
        for b in 0..BASES.len() {
            for k in 1..=12i64 {
                let a = Q::angle(b as u8, k);
                if a.approx() > std::f64::consts::FRAC_PI_2 { break; }
                let s = a.cos_sin().1;
                if s == self { return a; }
                if s == -self { return -a; }
            }
            // sines of angles beyond a quarter turn belong to pi - k*phi, whose arcsine is the supplement
            for k in 1..=12i64 {
                let a = Q::angle(b as u8, k);
                if a.approx() <= std::f64::consts::FRAC_PI_2 { continue; }
                if a.approx() > std::f64::consts::PI { break; }
                let s = a.cos_sin().1;
                if s == self { return Q::pi_mul(1, 1) - a; }
                if s == -self { return a - Q::pi_mul(1, 1); }
            }
        }
        unsup("asin of an unregistered sine")
    }
    fn acos(self) -> Q {
        if !self.is_plain() { unsup("acos of non-plain") }
        if self == Q::int(1) { return Q::int(0); }
        if self == Q::int(-1) { return Q::pi_mul(1, 1); }
        if self.n == 0 { return Q::pi_mul(1, 2); }
        for b in 0..BASES.len() {
            let mut k = 1;
            loop {
                let a = Q::angle(b as u8, k);
                if a.approx() > std::f64::consts::PI || k > 12 { break; }
                if a.cos_sin().0 == self { return a; }
                k += 1;
            }
        }
        for b in 0..BASES.len() {
            for k in 1..=12 {
                let a = Q::angle(b as u8, k);
                if a.approx() > std::f64::consts::PI { break; }
                if a.cos_sin().0 == -self { return Q::pi_mul(1, 1) - a; }
            }
        }
        unsup("acos of an unregistered cosine")
    }
    fn atan(self) -> Q { unsup("atan") }
    fn atan2(self, _o: Q) -> Q { unsup("atan2") }
    fn sin_cos(self) -> (Q, Q) { let (c, s) = self.cos_sin(); (s, c) }
    fn exp_m1(self) -> Q { unsup("exp_m1") }
    fn ln_1p(self) -> Q { unsup("ln_1p") }
    fn sinh(self) -> Q { unsup("sinh") }
    fn cosh(self) -> Q { unsup("cosh") }
    fn tanh(self) -> Q { unsup("tanh") }
    fn asinh(self) -> Q { unsup("asinh") }
    fn acosh(self) -> Q { unsup("acosh") }
    fn atanh(self) -> Q { unsup("atanh") }
}
#[allow(non_snake_case)]
impl num_traits::FloatConst for Q {
    fn PI() -> Q { Q::pi_mul(1, 1) }
    fn TAU() -> Q { Q::pi_mul(2, 1) }
    fn FRAC_PI_2() -> Q { Q::pi_mul(1, 2) }
    fn FRAC_PI_3() -> Q { Q::pi_mul(1, 3) }
    fn FRAC_PI_4() -> Q { Q::pi_mul(1, 4) }
    fn FRAC_PI_6() -> Q { Q::pi_mul(1, 6) }
    fn FRAC_PI_8() -> Q { Q::pi_mul(1, 8) }
    fn FRAC_1_PI() -> Q { unsup("1/pi") }
    fn FRAC_2_PI() -> Q { unsup("2/pi") }
    fn FRAC_2_SQRT_PI() -> Q { unsup("const") }
    fn E() -> Q { unsup("const") }
    fn LN_10() -> Q { unsup("const") }
    fn LN_2() -> Q { unsup("const") }
    fn LOG10_E() -> Q { unsup("const") }
    fn LOG2_E() -> Q { unsup("const") }
    fn SQRT_2() -> Q { unsup("const") }
    fn FRAC_1_SQRT_2() -> Q { unsup("const") }
}

// approx: exact arithmetic, so the usual float definitions are evaluated exactly
impl approx::AbsDiffEq for Q {
    type Epsilon = Q;
    fn default_epsilon() -> Q { Q::new(1, 1i128 << 40) }
    fn abs_diff_eq(&self, o: &Q, eps: Q) -> bool { num_traits::real::Real::abs(*self - *o) <= eps }
}
impl approx::RelativeEq for Q {
    fn default_max_relative() -> Q { Q::new(1, 1i128 << 40) }
    fn relative_eq(&self, o: &Q, eps: Q, max_rel: Q) -> bool {
        use num_traits::real::Real;
        if self == o { return true; }
        let diff = (*self - *o).abs();
        if diff <= eps { return true; }
        let largest = Real::max(self.abs(), o.abs());
        diff <= largest * max_rel
    }
}
impl approx::UlpsEq for Q {
    fn default_max_ulps() -> u32 { 4 }
    fn ulps_eq(&self, o: &Q, eps: Q, _ulps: u32) -> bool { num_traits::real::Real::abs(*self - *o) <= eps }
}

// vek's own scalar traits, implemented for Q exactly as vek implements them for floats
impl vek::ops::Clamp for Q {
    fn clamped(self, lower: Q, upper: Q) -> Q {
        assert!(lower <= upper);
        vek::ops::partial_min(vek::ops::partial_max(self, lower), upper)
    }
}
impl vek::ops::IsBetween for Q {
    type Output = bool;
    fn is_between(self, lower: Q, upper: Q) -> bool { assert!(lower <= upper); lower <= self && self <= upper }
}
impl vek::ops::Lerp<Q> for Q {
    type Output = Q;
    fn lerp_unclamped_precise(from: Q, to: Q, factor: Q) -> Q { from * (Q::int(1) - factor) + to * factor }
    fn lerp_unclamped(from: Q, to: Q, factor: Q) -> Q { factor * (to - from) + from }
}
impl<'a> vek::ops::Lerp<Q> for &'a Q {
    type Output = Q;
    fn lerp_unclamped_precise(from: &Q, to: &Q, factor: Q) -> Q { vek::ops::Lerp::lerp_unclamped_precise(*from, *to, factor) }
    fn lerp_unclamped(from: &Q, to: &Q, factor: Q) -> Q { vek::ops::Lerp::lerp_unclamped(*from, *to, factor) }
}
impl vek::ops::ColorComponent for Q { fn full() -> Q { Q::int(1) } }
