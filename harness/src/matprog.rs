//! C03: programs of layout-agnostic matrix API calls, enumerated by TLC (MC_MatProg), replayed on a
//! row-major and a column-major value side by side.  After every call each value is projected to the
//! abstract matrix through eight independent routes (indexing, row array, column array, flat slice
//! view + OpenGL transpose flag, raw pointer view, mint row / column matrix, Display); all sixteen projections are logged and must equal the
//! specification's abstract matrix (Trace_MatProg).
use crate::alg::*;
use crate::util::*;
use serde_json::{json, Value};
use vek::mat::repr_c::column_major as cm;
use vek::mat::repr_c::row_major as rm;
use vek::{Vec2, Vec3, Vec4};

#[derive(Clone, Copy, Debug)]
pub enum AnyMat { R2(rm::Mat2<i32>), R3(rm::Mat3<i32>), R4(rm::Mat4<i32>), C2(cm::Mat2<i32>), C3(cm::Mat3<i32>), C4(cm::Mat4<i32>) }
use AnyMat::*;

macro_rules! each { ($s:expr, $m:ident => $e:expr) => { match $s { R2($m) => $e, R3($m) => $e, R4($m) => $e, C2($m) => $e, C3($m) => $e, C4($m) => $e } } }
macro_rules! upd { ($s:expr, $m:ident => $e:expr) => { match $s { R2($m) => R2($e), R3($m) => R3($e), R4($m) => R4($e), C2($m) => C2($e), C3($m) => C3($e), C4($m) => C4($e) } } }

fn unflat(n: usize, f: &[i32], by_rows: bool) -> Vec<Vec<i32>> { (0..n).map(|i| (0..n).map(|j| if by_rows { f[i * n + j] } else { f[j * n + i] }).collect()).collect() }
fn parse_display(n: usize, s: &str) -> Vec<Vec<i32>> {
    let t = s.trim().trim_start_matches('(').trim_end_matches(')');
    let rows: Vec<Vec<i32>> = t.lines().map(|l| l.split_whitespace().map(|x| x.parse().unwrap()).collect()).collect();
    assert_eq!(rows.len(), n);
    rows
}

impl AnyMat {
    pub fn n(&self) -> usize { match self { R2(_) | C2(_) => 2, R3(_) | C3(_) => 3, _ => 4 } }
    pub fn is_rows(&self) -> bool { matches!(self, R2(_) | R3(_) | R4(_)) }
    /// the initial value: element (i,j) is the symbol 10*(i+1) + (j+1), built with the layout-agnostic constructor
    pub fn symbols(n: usize, rows: bool) -> AnyMat {
        let e = |i: usize, j: usize| (10 * (i + 1) + (j + 1)) as i32;
        match (n, rows) {
            (2, true) => R2(rm::Mat2::new(e(0, 0), e(0, 1), e(1, 0), e(1, 1))),
            (2, false) => C2(cm::Mat2::new(e(0, 0), e(0, 1), e(1, 0), e(1, 1))),
            (3, true) => R3(rm::Mat3::new(e(0, 0), e(0, 1), e(0, 2), e(1, 0), e(1, 1), e(1, 2), e(2, 0), e(2, 1), e(2, 2))),
            (3, false) => C3(cm::Mat3::new(e(0, 0), e(0, 1), e(0, 2), e(1, 0), e(1, 1), e(1, 2), e(2, 0), e(2, 1), e(2, 2))),
            (_, true) => R4(rm::Mat4::new(e(0, 0), e(0, 1), e(0, 2), e(0, 3), e(1, 0), e(1, 1), e(1, 2), e(1, 3), e(2, 0), e(2, 1), e(2, 2), e(2, 3), e(3, 0), e(3, 1), e(3, 2), e(3, 3))),
            (_, false) => C4(cm::Mat4::new(e(0, 0), e(0, 1), e(0, 2), e(0, 3), e(1, 0), e(1, 1), e(1, 2), e(1, 3), e(2, 0), e(2, 1), e(2, 2), e(2, 3), e(3, 0), e(3, 1), e(3, 2), e(3, 3))),
        }
    }
    /// the five projection routes
    pub fn views(&self) -> Value {
        let n = self.n();
        let idx: Vec<Vec<i32>> = each!(self, m => (0..n).map(|i| (0..n).map(|j| m[(i, j)]).collect()).collect());
        let rowa: Vec<Vec<i32>> = each!(self, m => unflat(n, &m.into_row_array(), true));
        let cola: Vec<Vec<i32>> = each!(self, m => unflat(n, &m.into_col_array(), false));
        // flat view of the value's own storage, interpreted with the transpose flag reported for OpenGL
        let (slice, flag): (Vec<i32>, bool) = match self {
            R2(m) => (m.as_row_slice().to_vec(), m.gl_should_transpose()), R3(m) => (m.as_row_slice().to_vec(), m.gl_should_transpose()), R4(m) => (m.as_row_slice().to_vec(), m.gl_should_transpose()),
            C2(m) => (m.as_col_slice().to_vec(), m.gl_should_transpose()), C3(m) => (m.as_col_slice().to_vec(), m.gl_should_transpose()), C4(m) => (m.as_col_slice().to_vec(), m.gl_should_transpose()),
        };
        let sl = unflat(n, &slice, flag);
        // the same storage read through the raw pointer accessors (valid for n*n reads exactly when is_packed())
        let (ptr, packed): (Vec<i32>, bool) = {
            fn rd(p: *const i32, k: usize) -> Vec<i32> { (0..k).map(|i| unsafe { *p.add(i) }).collect() }
            match self {
                R2(m) => (rd(m.as_row_ptr(), 4), m.is_packed()), R3(m) => (rd(m.as_row_ptr(), 9), m.is_packed()), R4(m) => (rd(m.as_row_ptr(), 16), m.is_packed()),
                C2(m) => (rd(m.as_col_ptr(), 4), m.is_packed()), C3(m) => (rd(m.as_col_ptr(), 9), m.is_packed()), C4(m) => (rd(m.as_col_ptr(), 16), m.is_packed()),
            }
        };
        let pt = unflat(n, &ptr, flag);
        // through the interoperability types (feature mint): the row matrix lists rows, the column matrix columns
        let (mr, mc): (Vec<i32>, Vec<i32>) = {
            use vek::mint as mt;
            match self {
                R2(m) => ({ let a: [[i32; 2]; 2] = Into::<mt::RowMatrix2<i32>>::into(*m).into(); a.concat() }, { let a: [[i32; 2]; 2] = Into::<mt::ColumnMatrix2<i32>>::into(*m).into(); a.concat() }),
                R3(m) => ({ let a: [[i32; 3]; 3] = Into::<mt::RowMatrix3<i32>>::into(*m).into(); a.concat() }, { let a: [[i32; 3]; 3] = Into::<mt::ColumnMatrix3<i32>>::into(*m).into(); a.concat() }),
                R4(m) => ({ let a: [[i32; 4]; 4] = Into::<mt::RowMatrix4<i32>>::into(*m).into(); a.concat() }, { let a: [[i32; 4]; 4] = Into::<mt::ColumnMatrix4<i32>>::into(*m).into(); a.concat() }),
                C2(m) => ({ let a: [[i32; 2]; 2] = Into::<mt::RowMatrix2<i32>>::into(*m).into(); a.concat() }, { let a: [[i32; 2]; 2] = Into::<mt::ColumnMatrix2<i32>>::into(*m).into(); a.concat() }),
                C3(m) => ({ let a: [[i32; 3]; 3] = Into::<mt::RowMatrix3<i32>>::into(*m).into(); a.concat() }, { let a: [[i32; 3]; 3] = Into::<mt::ColumnMatrix3<i32>>::into(*m).into(); a.concat() }),
                C4(m) => ({ let a: [[i32; 4]; 4] = Into::<mt::RowMatrix4<i32>>::into(*m).into(); a.concat() }, { let a: [[i32; 4]; 4] = Into::<mt::ColumnMatrix4<i32>>::into(*m).into(); a.concat() }),
            }
        };
        let (mintr, mintc) = (unflat(n, &mr, true), unflat(n, &mc, false));
        let disp = each!(self, m => parse_display(n, &format!("{}", m)));
        json!({"idx": idx, "rows": rowa, "cols": cola, "slice": sl, "ptr": pt, "mintr": mintr, "mintc": mintc, "packed": packed as i64, "disp": disp, "flag": flag as i64, "lay": if self.is_rows() { "r" } else { "c" }, "named_order": (self.is_rows() == flag) as i64})
    }
    /// one call of the machine
    pub fn call(self, c: &str, arg: i64) -> AnyMat {
        let n = self.n();
        match c {
            "transposed" => upd!(self, m => m.transposed()),
            "transpose" => upd!(self, m => { let mut x = m; x.transpose(); x }),
            "convert_layout" => match self { R2(m) => C2(m.into()), R3(m) => C3(m.into()), R4(m) => C4(m.into()), C2(m) => R2(m.into()), C3(m) => R3(m.into()), C4(m) => R4(m.into()) },
            "resize" => match (self, arg) {
                (R2(m), 3) => R3(m.into()), (R2(m), 4) => R4(m.into()), (R3(m), 2) => R2(m.into()), (R3(m), 4) => R4(m.into()), (R4(m), 2) => R2(m.into()), (R4(m), 3) => R3(m.into()),
                (C2(m), 3) => C3(m.into()), (C2(m), 4) => C4(m.into()), (C3(m), 2) => C2(m.into()), (C3(m), 4) => C4(m.into()), (C4(m), 2) => C2(m.into()), (C4(m), 3) => C3(m.into()),
                (s, _) => s,
            },
            // flat arrays: out as rows / in as rows (identity), out as rows / in as columns (transposition), ...
            "rr" => match self { R2(m) => R2(rm::Mat2::from_row_array(m.into_row_array())), R3(m) => R3(rm::Mat3::from_row_array(m.into_row_array())), R4(m) => R4(rm::Mat4::from_row_array(m.into_row_array())),
                                 C2(m) => C2(cm::Mat2::from_row_array(m.into_row_array())), C3(m) => C3(cm::Mat3::from_row_array(m.into_row_array())), C4(m) => C4(cm::Mat4::from_row_array(m.into_row_array())) },
            "cc" => match self { R2(m) => R2(rm::Mat2::from_col_array(m.into_col_array())), R3(m) => R3(rm::Mat3::from_col_array(m.into_col_array())), R4(m) => R4(rm::Mat4::from_col_array(m.into_col_array())),
                                 C2(m) => C2(cm::Mat2::from_col_array(m.into_col_array())), C3(m) => C3(cm::Mat3::from_col_array(m.into_col_array())), C4(m) => C4(cm::Mat4::from_col_array(m.into_col_array())) },
            "rc" => match self { R2(m) => R2(rm::Mat2::from_col_array(m.into_row_array())), R3(m) => R3(rm::Mat3::from_col_array(m.into_row_array())), R4(m) => R4(rm::Mat4::from_col_array(m.into_row_array())),
                                 C2(m) => C2(cm::Mat2::from_col_array(m.into_row_array())), C3(m) => C3(cm::Mat3::from_col_array(m.into_row_array())), C4(m) => C4(cm::Mat4::from_col_array(m.into_row_array())) },
            "cr" => match self { R2(m) => R2(rm::Mat2::from_row_array(m.into_col_array())), R3(m) => R3(rm::Mat3::from_row_array(m.into_col_array())), R4(m) => R4(rm::Mat4::from_row_array(m.into_col_array())),
                                 C2(m) => C2(cm::Mat2::from_row_array(m.into_col_array())), C3(m) => C3(cm::Mat3::from_row_array(m.into_col_array())), C4(m) => C4(cm::Mat4::from_row_array(m.into_col_array())) },
            // nested arrays
            "RR" => match self { R2(m) => R2(rm::Mat2::from_row_arrays(m.into_row_arrays())), R3(m) => R3(rm::Mat3::from_row_arrays(m.into_row_arrays())), R4(m) => R4(rm::Mat4::from_row_arrays(m.into_row_arrays())),
                                 C2(m) => C2(cm::Mat2::from_row_arrays(m.into_row_arrays())), C3(m) => C3(cm::Mat3::from_row_arrays(m.into_row_arrays())), C4(m) => C4(cm::Mat4::from_row_arrays(m.into_row_arrays())) },
            "CC" => match self { R2(m) => R2(rm::Mat2::from_col_arrays(m.into_col_arrays())), R3(m) => R3(rm::Mat3::from_col_arrays(m.into_col_arrays())), R4(m) => R4(rm::Mat4::from_col_arrays(m.into_col_arrays())),
                                 C2(m) => C2(cm::Mat2::from_col_arrays(m.into_col_arrays())), C3(m) => C3(cm::Mat3::from_col_arrays(m.into_col_arrays())), C4(m) => C4(cm::Mat4::from_col_arrays(m.into_col_arrays())) },
            "RC" => match self { R2(m) => R2(rm::Mat2::from_col_arrays(m.into_row_arrays())), R3(m) => R3(rm::Mat3::from_col_arrays(m.into_row_arrays())), R4(m) => R4(rm::Mat4::from_col_arrays(m.into_row_arrays())),
                                 C2(m) => C2(cm::Mat2::from_col_arrays(m.into_row_arrays())), C3(m) => C3(cm::Mat3::from_col_arrays(m.into_row_arrays())), C4(m) => C4(cm::Mat4::from_col_arrays(m.into_row_arrays())) },
            "CR" => match self { R2(m) => R2(rm::Mat2::from_row_arrays(m.into_col_arrays())), R3(m) => R3(rm::Mat3::from_row_arrays(m.into_col_arrays())), R4(m) => R4(rm::Mat4::from_row_arrays(m.into_col_arrays())),
                                 C2(m) => C2(cm::Mat2::from_row_arrays(m.into_col_arrays())), C3(m) => C3(cm::Mat3::from_row_arrays(m.into_col_arrays())), C4(m) => C4(cm::Mat4::from_row_arrays(m.into_col_arrays())) },
            "identity" => match self { R2(_) => R2(rm::Mat2::identity()), R3(_) => R3(Default::default()), R4(_) => R4(rm::Mat4::identity()), C2(_) => C2(Default::default()), C3(_) => C3(cm::Mat3::identity()), C4(_) => C4(Default::default()) },
            "zero" => match self { R2(_) => R2(rm::Mat2::zero()), R3(_) => R3(rm::Mat3::zero()), R4(_) => R4(rm::Mat4::zero()), C2(_) => C2(cm::Mat2::zero()), C3(_) => C3(cm::Mat3::zero()), C4(_) => C4(cm::Mat4::zero()) },
            "with_diagonal" => match self { R2(m) => R2(rm::Mat2::with_diagonal(m.diagonal())), R3(m) => R3(rm::Mat3::with_diagonal(m.diagonal())), R4(m) => R4(rm::Mat4::with_diagonal(m.diagonal())),
                                            C2(m) => C2(cm::Mat2::with_diagonal(m.diagonal())), C3(m) => C3(cm::Mat3::with_diagonal(m.diagonal())), C4(m) => C4(cm::Mat4::with_diagonal(m.diagonal())) },
            "broadcast_trace" => match self { R2(m) => R2(rm::Mat2::broadcast_diagonal(m.trace())), R3(m) => R3(rm::Mat3::broadcast_diagonal(m.trace())), R4(m) => R4(rm::Mat4::broadcast_diagonal(m.trace())),
                                              C2(m) => C2(cm::Mat2::broadcast_diagonal(m.trace())), C3(m) => C3(cm::Mat3::broadcast_diagonal(m.trace())), C4(m) => C4(cm::Mat4::broadcast_diagonal(m.trace())) },
            "map" => upd!(self, m => m.map(|x| x + 1000)),
            "apply" => upd!(self, m => { let mut x = m; x.apply(|v| v + 1000); x }),
            "map2" => upd!(self, m => m.map2(m.transposed(), |a, b| a - b)),          // M - M^T, element by element
            "apply2" => upd!(self, m => { let mut x = m; x.apply2(m.transposed(), |a, b| a - b); x }),
            "as" => upd!(self, m => m.as_::<i64>().as_::<i32>()),
            "numcast" => upd!(self, m => m.numcast::<i64>().unwrap().numcast::<i32>().unwrap()),
            // write through (row, column) indexing: element (a/10, a%10) := element (column a%10... of the symmetric position)
            "set" => { let (i, j) = ((arg / 10) as usize % n, (arg % 10) as usize % n); upd!(self, m => { let mut x = m; x[(i, j)] = m[(j, i)] + 500; x }) }
            // write through the mutable flat view: first element of the second stored line in the view's own order
            "slice_write" => match self {
                R2(mut m) => { m.as_mut_row_slice()[1] = 777; R2(m) } R3(mut m) => { m.as_mut_row_slice()[1] = 777; R3(m) } R4(mut m) => { m.as_mut_row_slice()[1] = 777; R4(m) }
                C2(mut m) => { m.as_mut_col_slice()[n] = 777; C2(m) } C3(mut m) => { m.as_mut_col_slice()[n] = 777; C3(m) } C4(mut m) => { m.as_mut_col_slice()[n] = 777; C4(m) }
            },
            // out to the interoperability matrix of the named order and back in: the same abstract matrix
            "mint_r" => { use vek::mint as mt; match self {
                R2(m) => R2(Into::<mt::RowMatrix2<i32>>::into(m).into()), R3(m) => R3(Into::<mt::RowMatrix3<i32>>::into(m).into()), R4(m) => R4(Into::<mt::RowMatrix4<i32>>::into(m).into()),
                C2(m) => C2(Into::<mt::RowMatrix2<i32>>::into(m).into()), C3(m) => C3(Into::<mt::RowMatrix3<i32>>::into(m).into()), C4(m) => C4(Into::<mt::RowMatrix4<i32>>::into(m).into()) } }
            "mint_c" => { use vek::mint as mt; match self {
                R2(m) => R2(Into::<mt::ColumnMatrix2<i32>>::into(m).into()), R3(m) => R3(Into::<mt::ColumnMatrix3<i32>>::into(m).into()), R4(m) => R4(Into::<mt::ColumnMatrix4<i32>>::into(m).into()),
                C2(m) => C2(Into::<mt::ColumnMatrix2<i32>>::into(m).into()), C3(m) => C3(Into::<mt::ColumnMatrix3<i32>>::into(m).into()), C4(m) => C4(Into::<mt::ColumnMatrix4<i32>>::into(m).into()) } }
            // write through the raw mutable pointer at the position of element (row 1, column 0)
            "ptr_write" => match self {
                R2(mut m) => { unsafe { *m.as_mut_row_ptr().add(n) = 888; } R2(m) } R3(mut m) => { unsafe { *m.as_mut_row_ptr().add(n) = 888; } R3(m) } R4(mut m) => { unsafe { *m.as_mut_row_ptr().add(n) = 888; } R4(m) }
                C2(mut m) => { unsafe { *m.as_mut_col_ptr().add(1) = 888; } C2(m) } C3(mut m) => { unsafe { *m.as_mut_col_ptr().add(1) = 888; } C3(m) } C4(mut m) => { unsafe { *m.as_mut_col_ptr().add(1) = 888; } C4(m) }
            },
            other => panic!("unknown call {}", other),
        }
    }
}

pub fn run_program(d: &mut Drv, n0: usize, calls: &[(String, i64)], src: &str) {
    let cj: Vec<Value> = calls.iter().map(|(c, a)| json!({"c": c, "arg": a})).collect();
    d.call("matprog", || json!({"n0": n0, "calls": cj, "src": src}), || {
        let (mut r, mut c) = (AnyMat::symbols(n0, true), AnyMat::symbols(n0, false));
        let mut obs = vec![json!({"r": r.views(), "c": c.views()})];
        for (name, arg) in calls {
            r = r.call(name, *arg);
            c = c.call(name, *arg);
            obs.push(json!({"r": r.views(), "c": c.views()}));
        }
        Value::Array(obs)
    });
}

/// layout-specific line maps, diagonal helpers and constants, one record each
fn singles(d: &mut Drv) {
    macro_rules! one {
        ($M:ident, $n:expr, $V:ident) => {{
            let a: Vec<Vec<i32>> = (0..$n).map(|i| (0..$n).map(|j| (10 * (i + 1) + j + 1) as i32).collect()).collect();
            let (r, c) = (<rm::$M<i32> as crate::mat::MatT<i32>>::from_rows(&a), <cm::$M<i32> as crate::mat::MatT<i32>>::from_rows(&a));
            let rows_of = |m: &dyn Fn(usize, usize) -> i32| -> Vec<Vec<i32>> { (0..$n).map(|i| (0..$n).map(|j| m(i, j)).collect()).collect() };
            // map_rows / map_cols with a line-reversing function
            d.call("map_lines", || json!({"how": "rows", "n": $n, "a": a}), || { let x = r.map_rows(|v| { let mut s: Vec<i32> = v.into_iter().collect(); s.reverse(); $V::from_slice(&s) }); json!(rows_of(&|i, j| x[(i, j)])) });
            d.call("map_lines", || json!({"how": "cols", "n": $n, "a": a}), || { let x = c.map_cols(|v| { let mut s: Vec<i32> = v.into_iter().collect(); s.reverse(); $V::from_slice(&s) }); json!(rows_of(&|i, j| x[(i, j)])) });
            d.call("diag", || json!({"how": "diagonal", "lay": "r", "n": $n, "a": a}), || json!(r.diagonal().into_iter().collect::<Vec<i32>>()));
            d.call("diag", || json!({"how": "diagonal", "lay": "c", "n": $n, "a": a}), || json!(c.diagonal().into_iter().collect::<Vec<i32>>()));
            d.call("diag", || json!({"how": "trace", "lay": "r", "n": $n, "a": a}), || json!([r.trace()]));
            d.call("diag", || json!({"how": "trace", "lay": "c", "n": $n, "a": a}), || json!([c.trace()]));
            d.call("diag", || json!({"how": "counts", "lay": "r", "n": $n, "a": a}), || json!([r.row_count() as i32, r.col_count() as i32]));
            d.call("diag", || json!({"how": "counts", "lay": "c", "n": $n, "a": a}), || json!([c.row_count() as i32, c.col_count() as i32]));
            // Display with format parameters (precision, sign, width): they apply to every element in BOTH layouts.
            // Elements are odd multiples of 1/8 (no rounding ties at one decimal); each printed token is logged
            // as (value * 1000, token length), so a dropped precision ("1.375" for "1.4") or width is visible.
            let e8: Vec<Vec<i32>> = (0..$n).map(|i| (0..$n).map(|j| (2 * (10 * (i as i32 + 1) + j as i32 + 1) + 1) * if (i + j) % 3 == 1 { -1 } else { 1 }).collect()).collect();
            let f8: Vec<Vec<f64>> = e8.iter().map(|r| r.iter().map(|x| *x as f64 / 8.0).collect()).collect();
            let (rf, cf) = (<rm::$M<f64> as crate::mat::MatT<f64>>::from_rows(&f8), <cm::$M<f64> as crate::mat::MatT<f64>>::from_rows(&f8));
            let toks = |s: String| -> Value { let t = s.trim().trim_start_matches('(').trim_end_matches(')').to_string();
                Value::Array(t.lines().map(|l| Value::Array(l.split_whitespace().map(|x| json!([(x.parse::<f64>().unwrap() * 1000.0).round() as i64, x.len()])).collect())).collect()) };
            d.call("display_fmt", || json!({"lay": "r", "n": $n, "a": e8, "fmt": "+8.1"}), || toks(format!("{:+8.1}", rf)));
            d.call("display_fmt", || json!({"lay": "c", "n": $n, "a": e8, "fmt": "+8.1"}), || toks(format!("{:+8.1}", cf)));
        }};
    }
    one!(Mat2, 2, Vec2); one!(Mat3, 3, Vec3); one!(Mat4, 4, Vec4);
}

pub fn drive_matprog(args: &[String]) {
    let seed: u64 = arg_or(args, "--seed", "1").parse().unwrap();
    let n: usize = arg_or(args, "--n", "50").parse().unwrap();
    let maxlen: usize = arg_or(args, "--maxlen", "12").parse().unwrap();
    let mut d = Drv::new(&arg(args, "--out").expect("--out"), seed);
    singles(&mut d);
    if let Some(p) = arg(args, "--programs") {
        let mut progs: Vec<(usize, Vec<(String, i64)>)> = vec![];
        read_tlc_json_lines(&p, |v| {
            let n0 = v["n0"].as_u64().unwrap() as usize;
            let calls = v["calls"].as_array().unwrap().iter().map(|c| (c["c"].as_str().unwrap().to_string(), c["arg"].as_i64().unwrap())).collect();
            progs.push((n0, calls));
        });
        for (n0, calls) in progs { run_program(&mut d, n0, &calls, "tlc"); }
    }
    // long random programs
    const NAMES: [&str; 28] = ["transposed", "transpose", "convert_layout", "resize", "rr", "cc", "rc", "cr", "RR", "CC", "RC", "CR", "identity", "zero",
        "with_diagonal", "broadcast_trace", "map", "apply", "map2", "apply2", "as", "numcast", "set", "slice_write", "resize", "ptr_write", "mint_r", "mint_c"];
    for _ in 0..n {
        let n0 = 2 + d.pick(3);
        let len = 1 + d.pick(maxlen);
        let mut cur = n0;
        let mut calls: Vec<(String, i64)> = vec![];
        let mut maps = 0;
        for _ in 0..len {
            let mut c = NAMES[d.pick(NAMES.len())];
            // keep element values small: at most three value-increasing calls per program
            if ["map", "apply", "broadcast_trace", "set"].contains(&c) { maps += 1; if maps > 3 { c = "transposed"; } }
            let arg = match c { "resize" => { let m = [2, 3, 4][d.pick(3)] as i64; if m as usize == cur { ((cur % 3) + 2) as i64 } else { m } }, "set" => (d.pick(cur) * 10 + d.pick(cur)) as i64, _ => 0 };
            if c == "resize" { cur = arg as usize; }
            calls.push((c.to_string(), arg));
        }
        run_program(&mut d, n0, &calls, "random");
    }
    d.finish(arg(args, "--summary"));
}
