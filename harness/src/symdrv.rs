//! Drivers of the symbolic lane (element type `Sym`, see sym.rs) for the transformation algebra:
//! rotations (C04), quaternions (C05), affine builders / chains / Transform (C07), change of basis (C09).
//! Every operand entry is a distinct free symbol, every angle a symbol `t` whose cosine and sine are the
//! paired symbols (c, s) logged as `cs` (`hcs` for the half angle), so each record is the polynomial the
//! real code computes FOR EVERY INPUT.  The records have the same shape as those of the exact-rational
//! drivers (xform.rs) and are validated by the same actions of Trace_Xform, in the polynomial ring.
//! Left out (they need a square root or a division by a symbol): rotation_3d with a free axis, normalisation,
//! inverse, from-to rotations, angle-axis extraction, look-at.  Those stay with lane Q.
use crate::alg::*;
use crate::mat::{em, MatT, VecT};
use crate::sym::{self, Sym};
use crate::util::*;
use num_traits::Zero;
use serde_json::{json, Value};
use vek::mat::repr_c::column_major as cm;
use vek::mat::repr_c::row_major as rm;
use vek::{Quaternion, Transform, Vec2, Vec3, Vec4};

fn v3(s: &[Sym]) -> Vec3<Sym> { Vec3::new(s[0], s[1], s[2]) }
fn v2(s: &[Sym]) -> Vec2<Sym> { Vec2::new(s[0], s[1]) }
fn quat(s: &[Sym]) -> Quaternion<Sym> { Quaternion::from_xyzw(s[0], s[1], s[2], s[3]) }
fn eq_(q: &Quaternion<Sym>) -> Value { evs(&[q.x, q.y, q.z, q.w]) }
fn ident(n: usize) -> Vec<Vec<Sym>> { (0..n).map(|i| (0..n).map(|j| Sym::int((i == j) as i64)).collect()).collect() }
fn fresh(n: usize) -> Vec<Sym> { (0..n).map(|_| Sym::fresh("x")).collect() }
fn freshm(n: usize) -> Vec<Vec<Sym>> { (0..n).map(|_| fresh(n)).collect() }
/// a fresh angle with the pair (cos, sin) the code under test will obtain for it
fn angle() -> (Sym, Value) { let a = Sym::angle(); let (c, s) = a.cos_sin(); (a, evs(&[c, s])) }

macro_rules! rot_axis {
    ($d:expr, $m:ident, $M:ident, $n:expr, $axis:expr, $ctor:ident, $ed:ident, $inpl:ident) => {{
        let d: &mut Drv = $d;
        sym::reset();
        let (ang, cs) = angle();
        let a = freshm($n);
        let am = <$m::$M<Sym> as MatT<Sym>>::from_rows(&a);
        let lay = <$m::$M<Sym> as MatT<Sym>>::LAY;
        let arg = |form: &str, a: &Vec<Vec<Sym>>| json!({"axis": $axis, "n": $n, "lay": lay, "form": form, "cs": cs, "a": evm(a), "lane": "sym"});
        d.call("rot_axis", || arg("new", &ident($n)), || em(&$m::$M::<Sym>::$ctor(ang)));
        d.call("rot_axis", || arg("ed", &a), || em(&am.$ed(ang)));
        d.call("rot_axis", || arg("inplace", &a), || { let mut m = am; m.$inpl(ang); em(&m) });
    }};
}
macro_rules! mat_of_quat {
    ($d:expr, $m:ident, $M:ident, $n:expr) => {{
        let d: &mut Drv = $d;
        sym::reset();
        let q = fresh(4);
        let lay = <$m::$M<Sym> as MatT<Sym>>::LAY;
        d.call("mat_of_quat", || json!({"n": $n, "lay": lay, "q": evs(&q), "lane": "sym"}), || em(&$m::$M::<Sym>::from(quat(&q))));
    }};
}

fn quat_rotations(d: &mut Drv) {
    sym::reset();
    let ang = Sym::angle();
    let (hc, hs) = (ang / Sym::int(2)).cos_sin();
    let hcs = evs(&[hc, hs]);
    let q0 = fresh(4);
    let qq = quat(&q0);
    let one = Sym::int(1);
    let arg = |form: &str, v: &[Sym], a: &[Sym]| json!({"form": form, "hcs": hcs, "v": evs(v), "len": ev(one), "lenq": [1, 1], "a": evs(a), "lane": "sym"});
    let id = [Sym::int(0), Sym::int(0), Sym::int(0), Sym::int(1)];
    let units = [[Sym::int(1), Sym::int(0), Sym::int(0)], [Sym::int(0), Sym::int(1), Sym::int(0)], [Sym::int(0), Sym::int(0), Sym::int(1)]];
    d.call("quat_rot", || arg("rotation_x", &units[0], &id), || eq_(&Quaternion::rotation_x(ang)));
    d.call("quat_rot", || arg("rotation_y", &units[1], &id), || eq_(&Quaternion::rotation_y(ang)));
    d.call("quat_rot", || arg("rotation_z", &units[2], &id), || eq_(&Quaternion::rotation_z(ang)));
    d.call("quat_rot", || arg("rotated_x", &units[0], &q0), || eq_(&qq.rotated_x(ang)));
    d.call("quat_rot", || arg("rotated_y", &units[1], &q0), || eq_(&qq.rotated_y(ang)));
    d.call("quat_rot", || arg("rotated_z", &units[2], &q0), || eq_(&qq.rotated_z(ang)));
    d.call("quat_rot", || arg("rotate_x", &units[0], &q0), || { let mut q = qq; q.rotate_x(ang); eq_(&q) });
    d.call("quat_rot", || arg("rotate_y", &units[1], &q0), || { let mut q = qq; q.rotate_y(ang); eq_(&q) });
    d.call("quat_rot", || arg("rotate_z", &units[2], &q0), || { let mut q = qq; q.rotate_z(ang); eq_(&q) });
    sym::reset();
    let (ang2, cs2) = angle();
    let v = fresh(2);
    d.call("vec2_rot", || json!({"form": "rotated_z", "cs": cs2, "v": evs(&v), "lane": "sym"}), || { let r = v2(&v).rotated_z(ang2); evs(&[r.x, r.y]) });
    d.call("vec2_rot", || json!({"form": "rotate_z", "cs": cs2, "v": evs(&v), "lane": "sym"}), || { let mut r = v2(&v); r.rotate_z(ang2); evs(&[r.x, r.y]) });
}

pub fn rot(d: &mut Drv) {
    rot_axis!(d, rm, Mat4, 4, "x", rotation_x, rotated_x, rotate_x); rot_axis!(d, cm, Mat4, 4, "x", rotation_x, rotated_x, rotate_x);
    rot_axis!(d, rm, Mat4, 4, "y", rotation_y, rotated_y, rotate_y); rot_axis!(d, cm, Mat4, 4, "y", rotation_y, rotated_y, rotate_y);
    rot_axis!(d, rm, Mat4, 4, "z", rotation_z, rotated_z, rotate_z); rot_axis!(d, cm, Mat4, 4, "z", rotation_z, rotated_z, rotate_z);
    rot_axis!(d, rm, Mat3, 3, "x", rotation_x, rotated_x, rotate_x); rot_axis!(d, cm, Mat3, 3, "x", rotation_x, rotated_x, rotate_x);
    rot_axis!(d, rm, Mat3, 3, "y", rotation_y, rotated_y, rotate_y); rot_axis!(d, cm, Mat3, 3, "y", rotation_y, rotated_y, rotate_y);
    rot_axis!(d, rm, Mat3, 3, "z", rotation_z, rotated_z, rotate_z); rot_axis!(d, cm, Mat3, 3, "z", rotation_z, rotated_z, rotate_z);
    rot_axis!(d, rm, Mat2, 2, "z", rotation_z, rotated_z, rotate_z); rot_axis!(d, cm, Mat2, 2, "z", rotation_z, rotated_z, rotate_z);
    mat_of_quat!(d, rm, Mat4, 4); mat_of_quat!(d, cm, Mat4, 4); mat_of_quat!(d, rm, Mat3, 3); mat_of_quat!(d, cm, Mat3, 3);
    quat_rotations(d);
}

pub fn quats(d: &mut Drv) {
    sym::reset();
    let p = fresh(4);
    let q = fresh(4);
    let v = fresh(3);
    let w = Sym::fresh("w");
    let s = Sym::fresh("s");
    let (pp, qq) = (quat(&p), quat(&q));
    let pq = || json!({"p": evs(&p), "q": evs(&q), "lane": "sym"});
    d.call("quat_mul", pq, || eq_(&(pp * qq)));
    d.call("quat_add", pq, || eq_(&(pp + qq)));
    d.call("quat_sub", pq, || eq_(&(pp - qq)));
    d.call("quat_dot", pq, || ev(pp.dot(qq)));
    d.call("quat_neg", || json!({"p": evs(&p), "lane": "sym"}), || eq_(&(-pp)));
    d.call("quat_conj", || json!({"p": evs(&p), "lane": "sym"}), || eq_(&pp.conjugate()));
    d.call("quat_norm2", || json!({"p": evs(&p), "lane": "sym"}), || ev(pp.magnitude_squared()));
    d.call("quat_muls", || json!({"p": evs(&p), "s": ev(s), "lane": "sym"}), || eq_(&(pp * s)));
    d.call("quat_mulv3", || json!({"q": evs(&q), "v": evs(&v), "kind": "any", "lane": "sym"}), || { let r = qq * v3(&v); evs(&[r.x, r.y, r.z]) });
    d.call("quat_mulv4", || json!({"q": evs(&q), "v": evs(&v), "w": ev(w), "kind": "any", "lane": "sym"}), || { let r = qq * Vec4::new(v[0], v[1], v[2], w); evs(&[r.x, r.y, r.z, r.w]) });
    let conv = |how: &str| json!({"how": how, "p": evs(&p), "lane": "sym"});
    d.call("quat_conv", || conv("from_xyzw"), || eq_(&Quaternion::from_xyzw(p[0], p[1], p[2], p[3])));
    d.call("quat_conv", || conv("into_vec4"), || { let r = pp.into_vec4(); evs(&[r.x, r.y, r.z, r.w]) });
    d.call("quat_conv", || conv("from_vec4"), || eq_(&Quaternion::from_vec4(Vec4::new(p[0], p[1], p[2], p[3]))));
    d.call("quat_conv", || conv("into_vec3"), || { let r = pp.into_vec3(); evs(&[r.x, r.y, r.z]) });
    d.call("quat_conv", || conv("from_scalar_and_vec3"), || eq_(&Quaternion::from_scalar_and_vec3((p[3], Vec3::new(p[0], p[1], p[2])))));
    d.call("quat_conv", || conv("into_scalar_and_vec3"), || { let (s, r) = pp.into_scalar_and_vec3(); evs(&[r.x, r.y, r.z, s]) });
    d.call("quat_conv", || conv("identity"), || eq_(&Quaternion::<Sym>::identity()));
    d.call("quat_conv", || conv("default"), || eq_(&Quaternion::<Sym>::default()));
    d.call("quat_conv", || conv("zero"), || eq_(&Quaternion::<Sym>::zero()));
    // composition through the real code, (p*q)*v and p*(q*v): degree 5 in (p, q, v) - the symbols that reach the
    // highest degree were allocated first and carry the smallest primes
    sym::reset();
    let p = fresh(4);
    let q = fresh(4);
    let v = fresh(3);
    let (pp, qq) = (quat(&p), quat(&q));
    d.call("quat_compose", || json!({"p": evs(&p), "q": evs(&q), "v": evs(&v), "lane": "sym"}), || { let a = (pp * qq) * v3(&v); let b = pp * (qq * v3(&v)); json!([evs(&[a.x, a.y, a.z]), evs(&[b.x, b.y, b.z])]) });
}

// ---------------------------------------------------------------------------
// C07: constructors, chains, point / direction helpers, Transform

#[derive(Clone)]
struct Step { k: String, v: Vec<Sym>, ang: Sym, c: Sym, s: Sym }
impl Step {
    fn new(kind: &str) -> Step {
        let zero = Sym::int(0);
        match kind {
            "rotate_x" | "rotate_y" | "rotate_z" => { let a = Sym::angle(); let (c, s) = a.cos_sin(); Step { k: kind.into(), v: vec![], ang: a, c, s } }
            "translate_2d" | "scale_2d" => Step { k: kind.into(), v: fresh(2), ang: zero, c: Sym::int(1), s: zero },
            "shear_x" | "shear_y" => Step { k: kind.into(), v: fresh(1), ang: zero, c: Sym::int(1), s: zero },
            _ => Step { k: kind.into(), v: fresh(3), ang: zero, c: Sym::int(1), s: zero },
        }
    }
    fn json(&self) -> Value { json!({"k": self.k, "v": evs(&self.v), "c": ev(self.c), "s": ev(self.s)}) }
}
const KINDS4: [&str; 6] = ["translate_3d", "translate_2d", "scale_3d", "rotate_x", "rotate_y", "rotate_z"];
const KINDS3: [&str; 5] = ["translate_2d", "scale_3d", "rotate_x", "rotate_y", "rotate_z"];
const KINDS2: [&str; 4] = ["scale_2d", "shear_x", "shear_y", "rotate_z"];

macro_rules! apply_step {
    (4, $m:expr, $st:expr, $inplace:expr) => {{
        let st: &Step = $st; let (raw, a) = (&st.v, st.ang);
        if $inplace { match st.k.as_str() {
            "translate_3d" => $m.translate_3d(v3(raw)), "translate_2d" => $m.translate_2d(v2(raw)), "scale_3d" => $m.scale_3d(v3(raw)),
            "rotate_x" => $m.rotate_x(a), "rotate_y" => $m.rotate_y(a), "rotate_z" => $m.rotate_z(a), k => panic!("step {}", k) } }
        else { $m = match st.k.as_str() {
            "translate_3d" => $m.translated_3d(v3(raw)), "translate_2d" => $m.translated_2d(v2(raw)), "scale_3d" => $m.scaled_3d(v3(raw)),
            "rotate_x" => $m.rotated_x(a), "rotate_y" => $m.rotated_y(a), "rotate_z" => $m.rotated_z(a), k => panic!("step {}", k) }; }
    }};
    (3, $m:expr, $st:expr, $inplace:expr) => {{
        let st: &Step = $st; let (raw, a) = (&st.v, st.ang);
        if $inplace { match st.k.as_str() {
            "translate_2d" => $m.translate_2d(v2(raw)), "scale_3d" => $m.scale_3d(v3(raw)),
            "rotate_x" => $m.rotate_x(a), "rotate_y" => $m.rotate_y(a), "rotate_z" => $m.rotate_z(a), k => panic!("step {}", k) } }
        else { $m = match st.k.as_str() {
            "translate_2d" => $m.translated_2d(v2(raw)), "scale_3d" => $m.scaled_3d(v3(raw)),
            "rotate_x" => $m.rotated_x(a), "rotate_y" => $m.rotated_y(a), "rotate_z" => $m.rotated_z(a), k => panic!("step {}", k) }; }
    }};
    (2, $m:expr, $st:expr, $inplace:expr) => {{
        let st: &Step = $st; let (raw, a) = (&st.v, st.ang);
        if $inplace { match st.k.as_str() {
            "scale_2d" => $m.scale_2d(v2(raw)), "shear_x" => $m.shear_x(raw[0]), "shear_y" => $m.shear_y(raw[0]), "rotate_z" => $m.rotate_z(a), k => panic!("step {}", k) } }
        else { $m = match st.k.as_str() {
            "scale_2d" => $m.scaled_2d(v2(raw)), "shear_x" => $m.sheared_x(raw[0]), "shear_y" => $m.sheared_y(raw[0]), "rotate_z" => $m.rotated_z(a), k => panic!("step {}", k) }; }
    }};
}
macro_rules! run_chain {
    ($d:expr, $m:ident, $M:ident, $n:tt, $steps:expr, $inplace:expr) => {{
        let d: &mut Drv = $d;
        let steps: &Vec<Step> = $steps;
        let lay = <$m::$M<Sym> as MatT<Sym>>::LAY;
        d.call("chain", || json!({"n": $n, "lay": lay, "form": if $inplace { "inplace" } else { "ed" }, "src": "sym", "lane": "sym",
                                   "steps": Value::Array(steps.iter().map(|s| s.json()).collect())}), || {
            let mut m = $m::$M::<Sym>::identity();
            let mut obs = vec![];
            for st in steps.iter() { apply_step!($n, m, st, $inplace); obs.push(em(&m)); }
            Value::Array(obs)
        });
    }};
}
fn chain(d: &mut Drv, n: usize, kinds: &[String]) {
    sym::reset();
    let steps: Vec<Step> = kinds.iter().map(|k| Step::new(k)).collect();
    for inplace in [false, true] {
        match n {
            4 => { run_chain!(d, rm, Mat4, 4, &steps, inplace); run_chain!(d, cm, Mat4, 4, &steps, inplace); }
            3 => { run_chain!(d, rm, Mat3, 3, &steps, inplace); run_chain!(d, cm, Mat3, 3, &steps, inplace); }
            _ => { run_chain!(d, rm, Mat2, 2, &steps, inplace); run_chain!(d, cm, Mat2, 2, &steps, inplace); }
        }
    }
}

macro_rules! ctors {
    ($d:expr, $m:ident) => {{
        let d: &mut Drv = $d;
        sym::reset();
        let lay = <$m::Mat4<Sym> as MatT<Sym>>::LAY;
        let v = fresh(3);
        let w = fresh(2);
        let k = Sym::fresh("k");
        let st = |kind: &str, v: &[Sym]| json!({"k": kind, "v": evs(v), "c": ev(Sym::int(1)), "s": ev(Sym::int(0))});
        d.call("ctor", || json!({"n": 4, "lay": lay, "lane": "sym", "st": st("translate_3d", &v)}), || em(&$m::Mat4::<Sym>::translation_3d(v3(&v))));
        d.call("ctor", || json!({"n": 4, "lay": lay, "lane": "sym", "st": st("translate_2d", &w)}), || em(&$m::Mat4::<Sym>::translation_2d(v2(&w))));
        d.call("ctor", || json!({"n": 4, "lay": lay, "lane": "sym", "st": st("scale_3d", &v)}), || em(&$m::Mat4::<Sym>::scaling_3d(v3(&v))));
        d.call("ctor", || json!({"n": 3, "lay": lay, "lane": "sym", "st": st("translate_2d", &w)}), || em(&$m::Mat3::<Sym>::translation_2d(v2(&w))));
        d.call("ctor", || json!({"n": 3, "lay": lay, "lane": "sym", "st": st("scale_3d", &v)}), || em(&$m::Mat3::<Sym>::scaling_3d(v3(&v))));
        d.call("ctor", || json!({"n": 2, "lay": lay, "lane": "sym", "st": st("scale_2d", &w)}), || em(&$m::Mat2::<Sym>::scaling_2d(v2(&w))));
        d.call("ctor", || json!({"n": 2, "lay": lay, "lane": "sym", "st": st("shear_x", &[k])}), || em(&$m::Mat2::<Sym>::shearing_x(k)));
        d.call("ctor", || json!({"n": 2, "lay": lay, "lane": "sym", "st": st("shear_y", &[k])}), || em(&$m::Mat2::<Sym>::shearing_y(k)));
        d.call("ctor", || json!({"n": 4, "lay": lay, "lane": "sym", "st": st("scale_3d", &[k, k, k])}), || em(&$m::Mat4::<Sym>::scaling_3d(k)));
        sym::reset();
        let v = fresh(3);
        let w = fresh(2);
        let a4 = freshm(4);
        let a3 = freshm(3);
        let (m4, m3) = (<$m::Mat4<Sym> as MatT<Sym>>::from_rows(&a4), <$m::Mat3<Sym> as MatT<Sym>>::from_rows(&a3));
        d.call("mul_point", || json!({"lay": lay, "lane": "sym", "a": evm(&a4), "v": evs(&v)}), || { let r: Vec3<Sym> = m4.mul_point(v3(&v)); evs(&r.to_v()) });
        d.call("mul_dir", || json!({"lay": lay, "lane": "sym", "a": evm(&a4), "v": evs(&v)}), || { let r: Vec3<Sym> = m4.mul_direction(v3(&v)); evs(&r.to_v()) });
        d.call("mul_point_2d", || json!({"lay": lay, "lane": "sym", "a": evm(&a3), "v": evs(&w)}), || { let r: Vec2<Sym> = m3.mul_point_2d(v2(&w)); evs(&r.to_v()) });
        d.call("mul_dir_2d", || json!({"lay": lay, "lane": "sym", "a": evm(&a3), "v": evs(&w)}), || { let r: Vec2<Sym> = m3.mul_direction_2d(v2(&w)); evs(&r.to_v()) });
        // Transform -> matrix on 10 free symbols (the quaternion is NOT assumed to be unit: the specification's
        // XformMat is the same polynomial in its components)
        sym::reset();
        let q = fresh(4);
        let sc = fresh(3);
        let pos = fresh(3);
        let t = Transform { position: v3(&pos), orientation: quat(&q), scale: v3(&sc) };
        d.call("from_transform", || json!({"lay": lay, "lane": "sym", "pos": evs(&pos), "q": evs(&q), "scale": evs(&sc)}), || em(&$m::Mat4::<Sym>::from(t)));
        // change of basis on 12 free symbols (no orthonormality assumed: ortho = 0)
        sym::reset();
        let (o, i, j, k3) = (fresh(3), fresh(3), fresh(3), fresh(3));
        let basis = || json!({"lay": lay, "lane": "sym", "o": evs(&o), "i": evs(&i), "j": evs(&j), "k": evs(&k3), "ortho": 0});
        d.call("local_to_basis", basis, || em(&$m::Mat4::<Sym>::local_to_basis(v3(&o), v3(&i), v3(&j), v3(&k3))));
        d.call("basis_to_local", basis, || em(&$m::Mat4::<Sym>::basis_to_local(v3(&o), v3(&i), v3(&j), v3(&k3))));
    }};
}

pub fn affine(d: &mut Drv, chains: &[(usize, Vec<String>)]) {
    ctors!(d, rm);
    ctors!(d, cm);
    for (n, kinds) in chains { chain(d, *n, kinds); }
}

// ---------------------------------------------------------------------------
// C14: Bezier curves on free symbols: control points AND the parameter are symbols, so evaluation, derivative and
// both halves of a split are compared with the Bernstein / de Casteljau polynomials for every curve and every t
// (inside or outside [0,1]).  The parameter is allocated first: it reaches degree 3 and gets the smallest prime.
macro_rules! bez_sym {
    ($d:expr, $B:ident, $name:expr, $deg:expr, $dim:expr, $mk:ident, [$($f:ident),+]) => {{
        let d: &mut Drv = $d;
        sym::reset();
        let t = Sym::fresh("t");
        let c: Vec<Vec<Sym>> = (0..=$deg).map(|_| fresh($dim)).collect();
        let mk = |c: &Vec<Vec<Sym>>| { let mut i = 0; vek::bezier::$B::<Sym> { $($f: { i += 1; $mk(&c[i - 1]) }),+ } };
        let b = mk(&c);
        let pj = |c: &Vec<Vec<Sym>>| Value::Array(c.iter().map(|p| evs(p)).collect());
        let tp = |b: &vek::bezier::$B<Sym>| -> Vec<Vec<Sym>> { vec![$(b.$f.into_iter().collect::<Vec<Sym>>()),+] };
        let arg = || json!({"ty": $name, "pts": pj(&c), "t": ev(t), "lane": "sym"});
        d.call("bez_eval", arg, || evs(&b.evaluate(t).into_iter().collect::<Vec<Sym>>()));
        d.call("bez_deriv", arg, || evs(&b.evaluate_derivative(t).into_iter().collect::<Vec<Sym>>()));
        d.call("bez_split", arg, || { let [f, s] = b.split(t); json!([pj(&tp(&f)), pj(&tp(&s))]) });
        let conv = |how: &str| json!({"ty": $name, "how": how, "pts": pj(&c), "lane": "sym"});
        d.call("bez_conv", || conv("reversed"), || pj(&tp(&b.reversed())));
        d.call("bez_conv", || conv("reversed"), || { let mut x = b; x.reverse(); pj(&tp(&x)) });
        d.call("bez_conv", || conv("flip_x"), || pj(&tp(&b.flipped_x())));
        d.call("bez_conv", || conv("flip_y"), || { let mut x = b; x.flip_y(); pj(&tp(&x)) });
        (b, c)
    }};
}
macro_rules! bez_mul_sym {
    ($d:expr, $M:ident, $n:expr, $B:ident, $name:expr, $dim:expr, $mk:ident, [$($f:ident),+]) => {{
        let d: &mut Drv = $d;
        sym::reset();
        let c: Vec<Vec<Sym>> = (0..[$(stringify!($f)),+].len()).map(|_| fresh($dim)).collect();
        let mut a = freshm($n);
        if $n != $dim { for j in 0..$n { a[$n - 1][j] = Sym::int((j == $n - 1) as i64); } }
        let mk = |c: &Vec<Vec<Sym>>| { let mut i = 0; vek::bezier::$B::<Sym> { $($f: { i += 1; $mk(&c[i - 1]) }),+ } };
        let pj = |c: &Vec<Vec<Sym>>| Value::Array(c.iter().map(|p| evs(p)).collect());
        let tp = |b: &vek::bezier::$B<Sym>| -> Vec<Vec<Sym>> { vec![$(b.$f.into_iter().collect::<Vec<Sym>>()),+] };
        d.call("bez_mul", || json!({"ty": $name, "n": $n, "lay": "r", "a": evm(&a), "pts": pj(&c), "lane": "sym"}), || pj(&tp(&(<rm::$M<Sym> as MatT<Sym>>::from_rows(&a) * mk(&c)))));
        d.call("bez_mul", || json!({"ty": $name, "n": $n, "lay": "c", "a": evm(&a), "pts": pj(&c), "lane": "sym"}), || pj(&tp(&(<cm::$M<Sym> as MatT<Sym>>::from_rows(&a) * mk(&c)))));
    }};
}
pub fn bezier(d: &mut Drv) {
    let pj = |c: &Vec<Vec<Sym>>| Value::Array(c.iter().map(|p| evs(p)).collect());
    let (q2, c2) = bez_sym!(d, QuadraticBezier2, "QuadraticBezier2", 2, 2, v2, [start, ctrl, end]);
    d.call("bez_conv", || json!({"ty": "QuadraticBezier2", "how": "into_3d", "pts": pj(&c2), "lane": "sym"}), || { let b = q2.into_3d(); pj(&vec![b.start.into_iter().collect(), b.ctrl.into_iter().collect(), b.end.into_iter().collect()]) });
    let (q3, c3) = bez_sym!(d, QuadraticBezier3, "QuadraticBezier3", 2, 3, v3, [start, ctrl, end]);
    d.call("bez_conv", || json!({"ty": "QuadraticBezier3", "how": "into_2d", "pts": pj(&c3), "lane": "sym"}), || { let b = q3.into_2d(); pj(&vec![b.start.into_iter().collect(), b.ctrl.into_iter().collect(), b.end.into_iter().collect()]) });
    d.call("bez_conv", || json!({"ty": "QuadraticBezier3", "how": "flip_z", "pts": pj(&c3), "lane": "sym"}), || { let mut b = q3; b.flip_z(); pj(&vec![b.start.into_iter().collect(), b.ctrl.into_iter().collect(), b.end.into_iter().collect()]) });
    let (k2, d2) = bez_sym!(d, CubicBezier2, "CubicBezier2", 3, 2, v2, [start, ctrl0, ctrl1, end]);
    d.call("bez_conv", || json!({"ty": "CubicBezier2", "how": "into_3d", "pts": pj(&d2), "lane": "sym"}), || { let b = k2.into_3d(); pj(&vec![b.start.into_iter().collect(), b.ctrl0.into_iter().collect(), b.ctrl1.into_iter().collect(), b.end.into_iter().collect()]) });
    let (k3, d3) = bez_sym!(d, CubicBezier3, "CubicBezier3", 3, 3, v3, [start, ctrl0, ctrl1, end]);
    d.call("bez_conv", || json!({"ty": "CubicBezier3", "how": "into_2d", "pts": pj(&d3), "lane": "sym"}), || { let b = k3.into_2d(); pj(&vec![b.start.into_iter().collect(), b.ctrl0.into_iter().collect(), b.ctrl1.into_iter().collect(), b.end.into_iter().collect()]) });
    d.call("bez_conv", || json!({"ty": "CubicBezier3", "how": "flip_z", "pts": pj(&d3), "lane": "sym"}), || { let b = k3.flipped_z(); pj(&vec![b.start.into_iter().collect(), b.ctrl0.into_iter().collect(), b.ctrl1.into_iter().collect(), b.end.into_iter().collect()]) });
    d.call("bez_conv", || json!({"ty": "CubicBezier3", "how": "flip_z", "pts": pj(&d3), "lane": "sym"}), || { let mut b = k3; b.flip_z(); pj(&vec![b.start.into_iter().collect(), b.ctrl0.into_iter().collect(), b.ctrl1.into_iter().collect(), b.end.into_iter().collect()]) });
    bez_mul_sym!(d, Mat2, 2, QuadraticBezier2, "QuadraticBezier2", 2, v2, [start, ctrl, end]);
    bez_mul_sym!(d, Mat2, 2, CubicBezier2, "CubicBezier2", 2, v2, [start, ctrl0, ctrl1, end]);
    bez_mul_sym!(d, Mat3, 3, QuadraticBezier2, "QuadraticBezier2", 2, v2, [start, ctrl, end]);
    bez_mul_sym!(d, Mat3, 3, CubicBezier2, "CubicBezier2", 2, v2, [start, ctrl0, ctrl1, end]);
    bez_mul_sym!(d, Mat3, 3, QuadraticBezier3, "QuadraticBezier3", 3, v3, [start, ctrl, end]);
    bez_mul_sym!(d, Mat3, 3, CubicBezier3, "CubicBezier3", 3, v3, [start, ctrl0, ctrl1, end]);
    bez_mul_sym!(d, Mat4, 4, QuadraticBezier3, "QuadraticBezier3", 3, v3, [start, ctrl, end]);
    bez_mul_sym!(d, Mat4, 4, CubicBezier3, "CubicBezier3", 3, v3, [start, ctrl0, ctrl1, end]);
}

// ---------------------------------------------------------------------------
// C12: the generic Lerp forms of the vector types on free symbols (end points and factor(s) symbolic): the unclamped
// forms are polynomials - from + t (to - from) and from (1 - t) + to t - compared as such for every input.
// The clamped forms branch on the order of the factor and stay with the exact-rational lane.
pub fn lerps(d: &mut Drv) {
    use vek::ops::Lerp;
    macro_rules! one {
        ($V:ident, $n:expr, $name:expr) => {{
            sym::reset();
            let t = Sym::fresh("t");
            let tv = fresh($n);
            let a = fresh($n);
            let b = fresh($n);
            let (va, vb, vt) = (vek::$V::<Sym>::from_slice(&a), vek::$V::<Sym>::from_slice(&b), vek::$V::<Sym>::from_slice(&tv));
            let ts: Vec<Sym> = vec![t; $n];
            let arg = |form: &str, variant: &str, t: &[Sym]| json!({"ty": $name, "form": form, "variant": variant, "a": evs(&a), "b": evs(&b), "t": evs(t), "lane": "sym"});
            let o = |v: vek::$V<Sym>| evs(&v.into_iter().collect::<Vec<Sym>>());
            d.call("lerp", || arg("inherent/scalar", "unclamped", &ts), || o(vek::$V::lerp_unclamped(va, vb, t)));
            d.call("lerp", || arg("inherent/scalar", "unclamped_precise", &ts), || o(vek::$V::lerp_unclamped_precise(va, vb, t)));
            d.call("lerp", || arg("inherent/vector", "unclamped", &tv), || o(vek::$V::lerp_unclamped(va, vb, vt)));
            d.call("lerp", || arg("inherent/vector", "unclamped_precise", &tv), || o(vek::$V::lerp_unclamped_precise(va, vb, vt)));
            d.call("lerp", || arg("trait", "unclamped", &ts), || o(<vek::$V<Sym> as Lerp<Sym>>::lerp_unclamped(va, vb, t)));
            d.call("lerp", || arg("trait", "unclamped_precise", &ts), || o(<vek::$V<Sym> as Lerp<Sym>>::lerp_unclamped_precise(va, vb, t)));
            d.call("lerp", || arg("trait/ref", "unclamped", &ts), || o(<&vek::$V<Sym> as Lerp<Sym>>::lerp_unclamped(&va, &vb, t)));
            d.call("lerp", || arg("trait/ref", "unclamped_precise", &ts), || o(<&vek::$V<Sym> as Lerp<Sym>>::lerp_unclamped_precise(&va, &vb, t)));
            d.call("lerp", || arg("trait/range", "unclamped", &ts), || o(<vek::$V<Sym> as Lerp<Sym>>::lerp_unclamped_inclusive_range(va..=vb, t)));
            d.call("lerp", || arg("trait/range", "unclamped_precise", &ts), || o(<vek::$V<Sym> as Lerp<Sym>>::lerp_unclamped_precise_inclusive_range(va..=vb, t)));
        }};
    }
    one!(Vec2, 2, "Vec2"); one!(Vec3, 3, "Vec3"); one!(Vec4, 4, "Vec4"); one!(Vec8, 8, "Vec8"); one!(Rgba, 4, "Rgba"); one!(Rgb, 3, "Rgb");
    one!(Extent2, 2, "Extent2"); one!(Extent3, 3, "Extent3"); one!(Uv, 2, "Uv"); one!(Uvw, 3, "Uvw");
    // quaternion, un-normalised forms
    sym::reset();
    let t = Sym::fresh("t");
    let (a, b) = (fresh(4), fresh(4));
    let (pa, pb) = (quat(&a), quat(&b));
    let arg = |variant: &str| json!({"ty": "Quaternion", "form": "unnormalized", "variant": variant, "a": evs(&a), "b": evs(&b), "t": evs(&[t, t, t, t]), "lane": "sym"});
    d.call("lerp", || arg("unclamped"), || eq_(&Quaternion::lerp_unclamped_unnormalized(pa, pb, t)));
    d.call("lerp", || arg("unclamped_precise"), || eq_(&Quaternion::lerp_unclamped_precise_unnormalized(pa, pb, t)));
}

// ---------------------------------------------------------------------------
// C11: the polynomial spatial functions on free symbols, for the spatial vector types of up to 16 elements
pub fn spatial(d: &mut Drv) {
    macro_rules! one {
        ($V:ident, $n:expr, $name:expr) => {{
            sym::reset();
            let (a, b) = (fresh($n), fresh($n));
            let (va, vb) = (vek::$V::<Sym>::from_slice(&a), vek::$V::<Sym>::from_slice(&b));
            let o = |v: vek::$V<Sym>| evs(&v.into_iter().collect::<Vec<Sym>>());
            let ab = || json!({"ty": $name, "a": evs(&a), "b": evs(&b), "lane": "sym"});
            d.call("v_dot", ab, || ev(va.dot(vb)));
            d.call("v_mag2", || json!({"ty": $name, "a": evs(&a), "lane": "sym"}), || ev(va.magnitude_squared()));
            d.call("v_dist2", ab, || ev(va.distance_squared(vb)));
            d.call("v_reflect", || json!({"ty": $name, "a": evs(&a), "n": evs(&b), "unit": 0, "lane": "sym"}), || o(va.reflected(vb)));
        }};
    }
    one!(Vec2, 2, "Vec2"); one!(Vec3, 3, "Vec3"); one!(Vec4, 4, "Vec4"); one!(Vec8, 8, "Vec8"); one!(Vec16, 16, "Vec16");
    one!(Extent2, 2, "Extent2"); one!(Extent3, 3, "Extent3");
    sym::reset();
    let (a, b) = (fresh(3), fresh(3));
    d.call("v_cross", || json!({"a": evs(&a), "b": evs(&b), "lane": "sym"}), || { let c = v3(&a).cross(v3(&b)); evs(&[c.x, c.y, c.z]) });
    let (p, q, r) = (fresh(2), fresh(2), fresh(2));
    d.call("v_side", || json!({"how": "determine_side", "a": evs(&p), "b": evs(&q), "c": evs(&r), "lane": "sym"}), || ev(v2(&r).determine_side(v2(&p), v2(&q))));
}

/// `vh drive sym --area rot|quat|affine [--chains FILE] --out F`: one pass over every operation form (the records
/// do not depend on a seed: the operands are free symbols).
pub fn drive_sym(args: &[String]) {
    let area = arg_or(args, "--area", "rot");
    let mut d = Drv::new(&arg(args, "--out").expect("--out"), 0);
    match area.as_str() {
        "rot" => rot(&mut d),
        "quat" => quats(&mut d),
        "bezier" => bezier(&mut d),
        "lerp" => lerps(&mut d),
        "spatial" => spatial(&mut d),
        "affine" => {
            let mut chains: Vec<(usize, Vec<String>)> = vec![];
            if let Some(p) = arg(args, "--chains") {
                read_tlc_json_lines(&p, |v| {
                    let n = v["n"].as_u64().unwrap() as usize;
                    let kinds: Vec<String> = v["kinds"].as_array().unwrap().iter().map(|k| k.as_str().unwrap().to_string()).collect();
                    // the free-axis rotation needs a square root: those chains stay with the exact-rational lane
                    if !kinds.iter().any(|k| k == "rotate_3d") { chains.push((n, kinds)); }
                });
            } else {
                for (n, ks) in [(4usize, &KINDS4[..]), (3, &KINDS3[..]), (2, &KINDS2[..])] {
                    for a in ks { for b in ks { chains.push((n, vec![a.to_string(), b.to_string()])); } }
                }
            }
            affine(&mut d, &chains);
        }
        a => { eprintln!("unknown sym area {}", a); std::process::exit(2); }
    }
    d.finish(arg(args, "--summary"));
}
