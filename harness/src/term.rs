//! Lane Term: `Tm`, an opaque hash-consed expression tree with NO arithmetic laws.  Running
//! vek's generic code on `Tm` operands records, for every output element, exactly which scalar
//! operations were applied to which input elements; "position i gets op(a_i, b_i) and nothing
//! else" is then a structural equality, valid for every input by parametricity.
//! A term is logged as a flat integer sequence in prefix notation (TLC compares sequences of
//! integers, never values of different kinds): Var k = [0, k]; constant c = [1, c] (0 zero,
//! 1 one, 2 Default::default()); an operation = [code] ++ args.
use num_traits::{One, Zero};
use serde_json::{json, Value};
use std::cell::RefCell;
use std::collections::HashMap;
use std::ops::*;

#[derive(Clone, Copy, PartialEq, Eq, Debug, Hash)]
pub struct Tm(pub u32);

#[derive(Clone, PartialEq, Eq, Hash, Debug)]
enum Node { Var(u32), Const(u8), Op(u8, Vec<u32>) }

thread_local! {
    static ARENA: RefCell<(Vec<Node>, HashMap<Node, u32>)> = RefCell::new((Vec::new(), HashMap::new()));
}
fn intern(n: Node) -> Tm {
    ARENA.with(|a| {
        let mut a = a.borrow_mut();
        if let Some(i) = a.1.get(&n) { return Tm(*i); }
        let i = a.0.len() as u32;
        a.0.push(n.clone());
        a.1.insert(n, i);
        Tm(i)
    })
}
pub const ADD: u8 = 10; pub const SUB: u8 = 11; pub const MUL: u8 = 12; pub const DIV: u8 = 13; pub const REM: u8 = 14;
pub const SHL: u8 = 15; pub const SHR: u8 = 16; pub const AND: u8 = 17; pub const OR: u8 = 18; pub const XOR: u8 = 19;
pub const NEG: u8 = 20; pub const NOT: u8 = 21; pub const FMA: u8 = 22;
pub const F1: u8 = 30; pub const F2: u8 = 31; pub const F3: u8 = 32;

impl Tm {
    pub fn var(k: u32) -> Tm { intern(Node::Var(k)) }
    pub fn konst(c: u8) -> Tm { intern(Node::Const(c)) }
    pub fn op(code: u8, args: &[Tm]) -> Tm { intern(Node::Op(code, args.iter().map(|t| t.0).collect())) }
    fn node(self) -> Node { ARENA.with(|a| a.borrow().0[self.0 as usize].clone()) }
    pub fn code(self) -> Vec<i64> {
        let mut out = vec![];
        self.emit(&mut out);
        out
    }
    fn emit(self, out: &mut Vec<i64>) {
        match self.node() {
            Node::Var(k) => { out.push(0); out.push(k as i64); }
            Node::Const(c) => { out.push(1); out.push(c as i64); }
            Node::Op(c, args) => { out.push(c as i64); for a in args { Tm(a).emit(out); } }
        }
    }
    pub fn json(self) -> Value { json!(self.code()) }
}
pub fn tms(v: &[Tm]) -> Value { Value::Array(v.iter().map(|t| t.json()).collect()) }
/// the opaque user functions passed to map / apply / reduce
pub fn f1(a: Tm) -> Tm { Tm::op(F1, &[a]) }
pub fn f2(a: Tm, b: Tm) -> Tm { Tm::op(F2, &[a, b]) }
pub fn f3(a: Tm, b: Tm, c: Tm) -> Tm { Tm::op(F3, &[a, b, c]) }

impl Default for Tm { fn default() -> Tm { Tm::konst(2) } }
impl Zero for Tm { fn zero() -> Tm { Tm::konst(0) } fn is_zero(&self) -> bool { *self == Tm::konst(0) } }
impl One for Tm { fn one() -> Tm { Tm::konst(1) } }

macro_rules! bin { ($($Tr:ident $f:ident $code:ident $As:ident $fa:ident),+) => {$(
    impl $Tr for Tm { type Output = Tm; fn $f(self, o: Tm) -> Tm { Tm::op($code, &[self, o]) } }
    impl<'a> $Tr<&'a Tm> for Tm { type Output = Tm; fn $f(self, o: &'a Tm) -> Tm { Tm::op($code, &[self, *o]) } }
    impl<'a> $Tr<Tm> for &'a Tm { type Output = Tm; fn $f(self, o: Tm) -> Tm { Tm::op($code, &[*self, o]) } }
    impl<'a, 'b> $Tr<&'b Tm> for &'a Tm { type Output = Tm; fn $f(self, o: &'b Tm) -> Tm { Tm::op($code, &[*self, *o]) } }
    impl $As for Tm { fn $fa(&mut self, o: Tm) { *self = Tm::op($code, &[*self, o]); } }
)+} }
bin!(Add add ADD AddAssign add_assign, Sub sub SUB SubAssign sub_assign, Mul mul MUL MulAssign mul_assign, Div div DIV DivAssign div_assign,
     Rem rem REM RemAssign rem_assign, Shl shl SHL ShlAssign shl_assign, Shr shr SHR ShrAssign shr_assign,
     BitAnd bitand AND BitAndAssign bitand_assign, BitOr bitor OR BitOrAssign bitor_assign, BitXor bitxor XOR BitXorAssign bitxor_assign);
impl Neg for Tm { type Output = Tm; fn neg(self) -> Tm { Tm::op(NEG, &[self]) } }
impl Not for Tm { type Output = Tm; fn not(self) -> Tm { Tm::op(NOT, &[self]) } }
// the eight owned/borrowed forms of the fused multiply-add
macro_rules! fma { ($(($S:ty, $A:ty, $B:ty)),+) => {$(
    impl<'a, 'b, 'c> num_traits::MulAdd<$A, $B> for $S { type Output = Tm; fn mul_add(self, a: $A, b: $B) -> Tm { Tm::op(FMA, &[Tm(self.0), Tm(a.0), Tm(b.0)]) } }
)+} }
fma!((Tm, Tm, Tm), (Tm, Tm, &'b Tm), (Tm, &'a Tm, Tm), (Tm, &'a Tm, &'b Tm), (&'c Tm, Tm, Tm), (&'c Tm, Tm, &'b Tm), (&'c Tm, &'a Tm, Tm), (&'c Tm, &'a Tm, &'b Tm));
// colour components: `full()` is the opaque constant 3; `T::from(k: u8)` the literal 100 + k
impl vek::ops::ColorComponent for Tm { fn full() -> Tm { Tm::konst(3) } }
impl From<u8> for Tm { fn from(k: u8) -> Tm { Tm::konst(100 + k) } }
