//! C19 (colour helpers), feature `image`: the `image::Pixel` implementation of Rgb / Rgba, one
//! record per trait method on integer component types (u8, u16, i32), validated by
//! spec/Trace_Vec.tla against VekVec!Pixel.  Channel values are kept small enough that the sums
//! of to_luma / blend do not overflow the component type (the documented caveat of average_rgb).
use crate::alg::*;
use image::Pixel;
use rand::Rng;
use serde_json::{json, Value};
use vek::ops::ColorComponent;
use vek::{Rgb, Rgba};

pub fn pixels(d: &mut Drv) {
    macro_rules! one {
        ($t:ty, $tn:expr, $hi:expr) => {{
            let full = <$t as ColorComponent>::full() as i64;
            let j = |v: &[$t]| -> Value { json!(v.iter().map(|x| *x as i64).collect::<Vec<i64>>()) };
            for _ in 0..3 {
                let a: Vec<$t> = (0..4).map(|_| d.rng.gen_range(0..$hi) as $t).collect();
                let b: Vec<$t> = (0..6).map(|_| d.rng.gen_range(0..$hi) as $t).collect();
                let f = |x: $t| x + 1;
                let g = |x: $t| x + 2;
                let f2 = |x: $t, y: $t| x + 2 * y;
                macro_rules! both {
                    ($how:expr, |$p:ident, $q:ident, $n:ident| $e:expr) => {{
                        { let $n = 3usize; let $p = Rgb::<$t>::new(a[0], a[1], a[2]); let $q = Rgb::<$t>::new(b[0], b[1], b[2]); let _ = (&$p, &$q, $n);
                          d.call("pixel", || json!({"ty": "Rgb", "comp": $tn, "how": $how, "a": j(&a[..3]), "b": j(&b), "full": full}), || $e); }
                        { let $n = 4usize; let $p = Rgba::<$t>::new(a[0], a[1], a[2], a[3]); let $q = Rgba::<$t>::new(b[0], b[1], b[2], b[3]); let _ = (&$p, &$q, $n);
                          d.call("pixel", || json!({"ty": "Rgba", "comp": $tn, "how": $how, "a": j(&a[..4]), "b": j(&b), "full": full}), || $e); }
                    }};
                }
                both!("channels", |p, _q, n| { let c = Pixel::channels(&p); json!({"v": j(c), "ok": (c.as_ptr() as usize == &p as *const _ as usize && c.len() == n) as i64}) });
                both!("channels_mut", |p, _q, n| { let mut p = p; let base = &p as *const _ as usize; let c = Pixel::channels_mut(&mut p); json!({"v": j(c), "ok": (c.as_ptr() as usize == base && c.len() == n) as i64}) });
                both!("channels4", |p, _q, _n| { let (r, g, bb, al) = Pixel::channels4(&p); j(&[r, g, bb, al]) });
                both!("from_channels", |p, _q, _n| { let y = if false { p } else { Pixel::from_channels(b[0], b[1], b[2], b[3]) }; j(Pixel::channels(&y)) });
                both!("from_slice", |p, _q, n| { let r = if false { &p } else { Pixel::from_slice(&b[..]) }; let ok = std::ptr::eq(r as *const _ as *const $t, b.as_ptr()); json!({"v": j(&Pixel::channels(r)[..n]), "ok": ok as i64}) });
                both!("from_slice_mut", |p, _q, n| { let mut bb = b.clone(); let base = bb.as_ptr(); let mut pp = p; let r = if false { &mut pp } else { Pixel::from_slice_mut(&mut bb[..]) }; let ok = std::ptr::eq(r as *const _ as *const $t, base); json!({"v": j(&Pixel::channels(r)[..n]), "ok": ok as i64}) });
                both!("to_rgb", |p, _q, _n| j(&Pixel::to_rgb(&p).0));
                both!("to_rgba", |p, _q, _n| j(&Pixel::to_rgba(&p).0));
                both!("to_bgr", |p, _q, _n| j(&Pixel::to_bgr(&p).0));
                both!("to_bgra", |p, _q, _n| j(&Pixel::to_bgra(&p).0));
                both!("to_luma", |p, _q, _n| j(&Pixel::to_luma(&p).0));
                both!("to_luma_alpha", |p, _q, _n| j(&Pixel::to_luma_alpha(&p).0));
                both!("map", |p, _q, _n| j(Pixel::channels(&Pixel::map(&p, f))));
                both!("map", |p, _q, _n| { let mut x = p; Pixel::apply(&mut x, f); j(Pixel::channels(&x)) });
                both!("map_with_alpha", |p, _q, _n| j(Pixel::channels(&Pixel::map_with_alpha(&p, f, g))));
                both!("map_with_alpha", |p, _q, _n| { let mut x = p; Pixel::apply_with_alpha(&mut x, f, g); j(Pixel::channels(&x)) });
                both!("map2", |p, q, _n| j(Pixel::channels(&Pixel::map2(&p, &q, f2))));
                both!("map2", |p, q, _n| { let mut x = p; Pixel::apply2(&mut x, &q, f2); j(Pixel::channels(&x)) });
                both!("invert", |p, _q, _n| { let mut x = p; Pixel::invert(&mut x); j(Pixel::channels(&x)) });
                both!("blend", |p, q, _n| { let mut x = p; Pixel::blend(&mut x, &q); j(Pixel::channels(&x)) });
            }
            d.call("pixel", || json!({"ty": "Rgb", "comp": $tn, "how": "consts", "a": [0, 0, 0], "b": [], "full": full}),
                   || json!([<Rgb<$t> as Pixel>::CHANNEL_COUNT as i64, <Rgb<$t> as Pixel>::COLOR_MODEL.len() as i64, (<Rgb<$t> as Pixel>::COLOR_MODEL == "RGB") as i64]));
            d.call("pixel", || json!({"ty": "Rgba", "comp": $tn, "how": "consts", "a": [0, 0, 0, 0], "b": [], "full": full}),
                   || json!([<Rgba<$t> as Pixel>::CHANNEL_COUNT as i64, <Rgba<$t> as Pixel>::COLOR_MODEL.len() as i64, (<Rgba<$t> as Pixel>::COLOR_MODEL == "RGBA") as i64]));
        }};
    }
    one!(u8, "u8", 60); one!(u16, "u16", 5000); one!(i32, "i32", 100000);
}
