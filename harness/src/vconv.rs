//! C19: kind / size conversions, swizzles, setters, shuffles and colour helpers on opaque terms
//! (lane Term), `full()` / inverted_rgb on every ColorComponent type (integer lane), logged for
//! validation by spec/Trace_Vec.tla (P = 0).
use crate::alg::*;
use crate::term::*;
use crate::util::*;
use serde_json::{json, Value};
use std::num::Wrapping;
use vek::ops::ColorComponent;
use vek::vec::ShuffleMask4;
use vek::*;

fn fresh(base: u32, n: usize) -> Vec<Tm> { (0..n).map(|i| Tm::var(base + i as u32)).collect() }
fn o<V: IntoIterator<Item = Tm>>(v: V) -> Value { tms(&v.into_iter().collect::<Vec<Tm>>()) }

fn conversions(d: &mut Drv) {
    let a = fresh(100, 4);
    let s = Tm::var(7);
    let (v2, v3, v4) = (Vec2::new(a[0], a[1]), Vec3::new(a[0], a[1], a[2]), Vec4::new(a[0], a[1], a[2], a[3]));
    // how: "keep" (same size, order kept), "shrink", "zero" (append zeros), "scalar" (append the supplied scalar),
    // "point" (w = 1), "direction" (w = 0), "opaque" (alpha = full), "transparent" (alpha = zero)
    let mut conv = |from: &str, to: &str, how: &str, n: usize, m: usize, f: &mut dyn FnMut() -> Value| {
        let input = a[..n].to_vec();
        d.call("conv", || json!({"from": from, "to": to, "how": how, "m": m, "input": tms(&input), "s": s.json()}), || f());
    };
    macro_rules! c { ($from:expr, $to:expr, $how:expr, $n:expr, $m:expr, $e:expr) => { conv($from, $to, $how, $n, $m, &mut || o($e)); } }
    // equal size, different kind
    c!("Vec2", "Extent2", "keep", 2, 2, Extent2::from(v2)); c!("Extent2", "Vec2", "keep", 2, 2, Vec2::from(Extent2::new(a[0], a[1])));
    c!("Vec2", "Uv", "keep", 2, 2, Uv::from(v2));
    c!("Vec3", "Extent3", "keep", 3, 3, Extent3::from(v3)); c!("Extent3", "Vec3", "keep", 3, 3, Vec3::from(Extent3::new(a[0], a[1], a[2])));
    c!("Vec3", "Rgb", "keep", 3, 3, Rgb::from(v3)); c!("Rgb", "Vec3", "keep", 3, 3, Vec3::from(Rgb::new(a[0], a[1], a[2])));
    c!("Vec3", "Uvw", "keep", 3, 3, Uvw::from(v3)); c!("Uvw", "Vec3", "keep", 3, 3, Vec3::from(Uvw::new(a[0], a[1], a[2])));
    c!("Vec4", "Rgba", "keep", 4, 4, Rgba::from(v4)); c!("Rgba", "Vec4", "keep", 4, 4, Vec4::from(Rgba::new(a[0], a[1], a[2], a[3])));
    // shrinking drops trailing elements
    c!("Vec3", "Vec2", "shrink", 3, 2, Vec2::from(v3)); c!("Vec4", "Vec2", "shrink", 4, 2, Vec2::from(v4)); c!("Vec4", "Vec3", "shrink", 4, 3, Vec3::from(v4));
    c!("Rgba", "Rgb", "shrink", 4, 3, Rgb::from(Rgba::new(a[0], a[1], a[2], a[3]))); c!("Rgba", "Rgb", "shrink", 4, 3, Rgba::new(a[0], a[1], a[2], a[3]).rgb());
    c!("Vec3", "Vec2", "shrink", 3, 2, v3.xy()); c!("Vec4", "Vec2", "shrink", 4, 2, v4.xy()); c!("Vec4", "Vec3", "shrink", 4, 3, v4.xyz());
    // growing appends zeros
    c!("Vec2", "Vec3", "zero", 2, 3, Vec3::from(v2)); c!("Vec2", "Vec4", "zero", 2, 4, Vec4::from(v2)); c!("Vec3", "Vec4", "zero", 3, 4, Vec4::from(v3));
    // ... or the supplied scalar
    c!("Vec2", "Vec3", "scalar", 2, 3, Vec3::from((v2, s))); c!("Vec3", "Vec4", "scalar", 3, 4, Vec4::from((v3, s)));
    c!("Extent2", "Extent3", "scalar", 2, 3, Extent3::from((Extent2::new(a[0], a[1]), s)));
    c!("Rgb", "Rgba", "scalar", 3, 4, Rgba::from((Rgb::new(a[0], a[1], a[2]), s))); c!("Uv", "Uvw", "scalar", 2, 3, Uvw::from((Uv::new(a[0], a[1]), s)));
    c!("Vec2", "Vec3", "scalar", 2, 3, v2.with_z(s)); c!("Vec3", "Vec4", "scalar", 3, 4, v3.with_w(s));
    c!("Rgb", "Rgba", "scalar", 3, 4, Rgba::from_translucent(Rgb::new(a[0], a[1], a[2]), s));
    // Vec2::with_w: z = 0, w = s
    conv("Vec2", "Vec4", "zero_scalar", 2, 4, &mut || o(v2.with_w(s)));
    // points and directions
    c!("Vec3", "Vec4", "point", 3, 4, Vec4::from_point(v3)); c!("Vec3", "Vec4", "direction", 3, 4, Vec4::from_direction(v3));
    c!("Vec3", "Vec4", "point", 3, 4, Vec4::new_point(a[0], a[1], a[2])); c!("Vec3", "Vec4", "direction", 3, 4, Vec4::new_direction(a[0], a[1], a[2]));
    c!("Vec2", "Vec3", "point", 2, 3, Vec3::from_point_2d(v2)); c!("Vec2", "Vec3", "direction", 2, 3, Vec3::from_direction_2d(v2));
    c!("Vec2", "Vec3", "point", 2, 3, Vec3::new_point_2d(a[0], a[1])); c!("Vec2", "Vec3", "direction", 2, 3, Vec3::new_direction_2d(a[0], a[1]));
    // interoperability types (feature mint): same elements under the same names; the quaternion's (s, v) is (w, xyz)
    {
        use vek::mint as mt;
        c!("Vec2", "mint::Vector2", "keep", 2, 2, { let m: mt::Vector2<Tm> = v2.into(); vec![m.x, m.y] });
        c!("Vec2", "mint::Point2", "keep", 2, 2, { let m: mt::Point2<Tm> = v2.into(); vec![m.x, m.y] });
        c!("mint::Vector2", "Vec2", "keep", 2, 2, Vec2::from(mt::Vector2 { x: a[0], y: a[1] }));
        c!("mint::Point2", "Vec2", "keep", 2, 2, Vec2::from(mt::Point2 { x: a[0], y: a[1] }));
        c!("Vec3", "mint::Vector3", "keep", 3, 3, { let m: mt::Vector3<Tm> = v3.into(); vec![m.x, m.y, m.z] });
        c!("Vec3", "mint::Point3", "keep", 3, 3, { let m: mt::Point3<Tm> = v3.into(); vec![m.x, m.y, m.z] });
        c!("mint::Vector3", "Vec3", "keep", 3, 3, Vec3::from(mt::Vector3 { x: a[0], y: a[1], z: a[2] }));
        c!("mint::Point3", "Vec3", "keep", 3, 3, Vec3::from(mt::Point3 { x: a[0], y: a[1], z: a[2] }));
        c!("Vec4", "mint::Vector4", "keep", 4, 4, { let m: mt::Vector4<Tm> = v4.into(); vec![m.x, m.y, m.z, m.w] });
        c!("mint::Vector4", "Vec4", "keep", 4, 4, Vec4::from(mt::Vector4 { x: a[0], y: a[1], z: a[2], w: a[3] }));
        c!("Quaternion", "mint::Quaternion", "keep", 4, 4, { let m: mt::Quaternion<Tm> = Quaternion::from_xyzw(a[0], a[1], a[2], a[3]).into(); vec![m.v.x, m.v.y, m.v.z, m.s] });
        c!("mint::Quaternion", "Quaternion", "keep", 4, 4, { let q = Quaternion::from(mt::Quaternion { s: a[3], v: mt::Vector3 { x: a[0], y: a[1], z: a[2] } }); vec![q.x, q.y, q.z, q.w] });
    }
    // colours: opaque / transparent alpha
    c!("Rgb", "Rgba", "opaque", 3, 4, Rgba::from(Rgb::new(a[0], a[1], a[2]))); c!("Rgb", "Rgba", "opaque", 3, 4, Rgba::from_opaque(Rgb::new(a[0], a[1], a[2])));
    c!("Rgb", "Rgba", "opaque", 3, 4, Rgba::new_opaque(a[0], a[1], a[2])); c!("Rgb", "Rgba", "transparent", 3, 4, Rgba::from_transparent(Rgb::new(a[0], a[1], a[2])));
    c!("Rgb", "Rgba", "transparent", 3, 4, Rgba::new_transparent(a[0], a[1], a[2])); c!("Vec3", "Rgba", "opaque", 3, 4, Rgba::from_opaque(v3));
}

fn swizzles(d: &mut Drv) {
    let a = fresh(100, 4);
    let s = Tm::var(7);
    let (v2, v3, v4) = (Vec2::new(a[0], a[1]), Vec3::new(a[0], a[1], a[2]), Vec4::new(a[0], a[1], a[2], a[3]));
    let (rgb, rgba) = (Rgb::new(a[0], a[1], a[2]), Rgba::new(a[0], a[1], a[2], a[3]));
    let mut sw = |how: &str, n: usize, f: &mut dyn FnMut() -> Value| {
        let input = a[..n].to_vec();
        d.call("swz", || json!({"how": how, "n": n, "input": tms(&input), "s": s.json()}), || f());
    };
    macro_rules! z { ($how:expr, $n:expr, $e:expr) => { sw($how, $n, &mut || o($e)); } }
    z!("yx", 2, v2.yx()); z!("zyx", 3, v3.zyx()); z!("wxyz", 4, v4.wxyz()); z!("wzyx", 4, v4.wzyx()); z!("zyxw", 4, v4.zyxw());
    z!("with_x", 2, v2.with_x(s)); z!("with_y", 2, v2.with_y(s));
    z!("with_x", 3, v3.with_x(s)); z!("with_y", 3, v3.with_y(s)); z!("with_z", 3, v3.with_z(s));
    z!("with_x", 4, v4.with_x(s)); z!("with_y", 4, v4.with_y(s)); z!("with_z", 4, v4.with_z(s)); z!("with_w", 4, v4.with_w(s));
    z!("argb", 4, rgba.shuffled_argb()); z!("bgra", 4, rgba.shuffled_bgra()); z!("bgr", 3, rgb.shuffled_bgr());
    z!("inverted_rgb", 3, rgb.inverted_rgb()); z!("inverted_rgb", 4, rgba.inverted_rgb());
    z!("inverted_twice", 3, rgb.inverted_rgb().inverted_rgb()); // recorded structurally; the involution is checked on values below
    sw("average_rgb", 3, &mut || o(vec![rgb.average_rgb()])); sw("average_rgb", 4, &mut || o(vec![rgba.average_rgb()]));
    sw("gray", 3, &mut || o(Rgb::gray(s))); sw("gray", 3, &mut || o(Rgb::grey(s))); sw("gray4", 4, &mut || o(Rgba::gray(s))); sw("gray4", 4, &mut || o(Rgba::grey(s)));
    // named colours and unit vectors: component patterns over {zero, one / full, -one}
    macro_rules! named { ($ty:expr, $how:expr, $e:expr) => { d.call("named", || json!({"ty": $ty, "how": $how}), || o($e)); } }
    named!("Rgb", "black", Rgb::<Tm>::black()); named!("Rgb", "white", Rgb::<Tm>::white()); named!("Rgb", "red", Rgb::<Tm>::red()); named!("Rgb", "green", Rgb::<Tm>::green());
    named!("Rgb", "blue", Rgb::<Tm>::blue()); named!("Rgb", "cyan", Rgb::<Tm>::cyan()); named!("Rgb", "magenta", Rgb::<Tm>::magenta()); named!("Rgb", "yellow", Rgb::<Tm>::yellow());
    named!("Rgba", "black", Rgba::<Tm>::black()); named!("Rgba", "white", Rgba::<Tm>::white()); named!("Rgba", "red", Rgba::<Tm>::red()); named!("Rgba", "green", Rgba::<Tm>::green());
    named!("Rgba", "blue", Rgba::<Tm>::blue()); named!("Rgba", "cyan", Rgba::<Tm>::cyan()); named!("Rgba", "magenta", Rgba::<Tm>::magenta()); named!("Rgba", "yellow", Rgba::<Tm>::yellow());
    named!("Rgba", "zero", Rgba::<Tm>::zero());
    #[allow(deprecated)]
    {
        named!("Vec2", "unit_x", Vec2::<Tm>::unit_x()); named!("Vec2", "unit_y", Vec2::<Tm>::unit_y());
        named!("Vec2", "left", Vec2::<Tm>::left()); named!("Vec2", "right", Vec2::<Tm>::right()); named!("Vec2", "up", Vec2::<Tm>::up()); named!("Vec2", "down", Vec2::<Tm>::down());
        named!("Vec3", "unit_x", Vec3::<Tm>::unit_x()); named!("Vec3", "unit_y", Vec3::<Tm>::unit_y()); named!("Vec3", "unit_z", Vec3::<Tm>::unit_z());
        named!("Vec3", "left", Vec3::<Tm>::left()); named!("Vec3", "right", Vec3::<Tm>::right()); named!("Vec3", "up", Vec3::<Tm>::up()); named!("Vec3", "down", Vec3::<Tm>::down());
        named!("Vec3", "forward_lh", Vec3::<Tm>::forward_lh()); named!("Vec3", "forward_rh", Vec3::<Tm>::forward_rh()); named!("Vec3", "back_lh", Vec3::<Tm>::back_lh()); named!("Vec3", "back_rh", Vec3::<Tm>::back_rh());
        named!("Vec4", "unit_x", Vec4::<Tm>::unit_x()); named!("Vec4", "unit_y", Vec4::<Tm>::unit_y()); named!("Vec4", "unit_z", Vec4::<Tm>::unit_z()); named!("Vec4", "unit_w", Vec4::<Tm>::unit_w());
        named!("Vec4", "left", Vec4::<Tm>::left()); named!("Vec4", "right", Vec4::<Tm>::right()); named!("Vec4", "up", Vec4::<Tm>::up()); named!("Vec4", "down", Vec4::<Tm>::down());
        named!("Vec4", "forward_lh", Vec4::<Tm>::forward_lh()); named!("Vec4", "forward_rh", Vec4::<Tm>::forward_rh()); named!("Vec4", "back_lh", Vec4::<Tm>::back_lh()); named!("Vec4", "back_rh", Vec4::<Tm>::back_rh());
        named!("Vec4", "unit_x_point", Vec4::<Tm>::unit_x_point()); named!("Vec4", "unit_y_point", Vec4::<Tm>::unit_y_point()); named!("Vec4", "unit_z_point", Vec4::<Tm>::unit_z_point());
        named!("Vec4", "left_point", Vec4::<Tm>::left_point()); named!("Vec4", "right_point", Vec4::<Tm>::right_point()); named!("Vec4", "up_point", Vec4::<Tm>::up_point()); named!("Vec4", "down_point", Vec4::<Tm>::down_point());
        named!("Vec4", "forward_point_lh", Vec4::<Tm>::forward_point_lh()); named!("Vec4", "forward_point_rh", Vec4::<Tm>::forward_point_rh());
        named!("Vec4", "back_point_lh", Vec4::<Tm>::back_point_lh()); named!("Vec4", "back_point_rh", Vec4::<Tm>::back_point_rh());
    }
}

/// all 8^4 index tuples (indices are taken modulo 4; this includes all 256 masks) on Vec4 and Rgba
fn shuffles(d: &mut Drv, full: bool) {
    let (lo, hi) = (fresh(100, 4), fresh(200, 4));
    let (l4, h4) = (Vec4::new(lo[0], lo[1], lo[2], lo[3]), Vec4::new(hi[0], hi[1], hi[2], hi[3]));
    let (lc, hc) = (Rgba::new(lo[0], lo[1], lo[2], lo[3]), Rgba::new(hi[0], hi[1], hi[2], hi[3]));
    let big = [0usize, 1, 2, 3, 4, 5, 6, 7];
    let mut k = 0u32;
    for &a in &big { for &b in &big { for &c in &big { for &e in &big {
        k += 1;
        if !full && k % 7 != 0 && (a > 3 || b > 3 || c > 3 || e > 3) { continue; }
        // out-of-range indices far beyond 7 now and then
        let (a2, b2, c2, e2) = if k % 97 == 0 { (a + 4 * 1000, b + 4 * 77, c + 4 * 123456, e + 4 * 9) } else { (a, b, c, e) };
        let arg = |ty: &str, how: &str| json!({"ty": ty, "how": how, "lo": tms(&lo), "hi": tms(&hi), "idx": [a2, b2, c2, e2]});
        match k % 6 {
            0 => d.call("shuf", || arg("Vec4", "lo_hi"), || o(Vec4::shuffle_lo_hi(l4, h4, (a2, b2, c2, e2)))),
            1 => d.call("shuf", || arg("Rgba", "lo_hi"), || o(Rgba::shuffle_lo_hi(lc, hc, [a2, b2, c2, e2]))),
            2 => d.call("shuf", || arg("Vec4", "self"), || o(l4.shuffled(ShuffleMask4::new(a2, b2, c2, e2)))),
            3 => d.call("shuf", || arg("Rgba", "self"), || o(lc.shuffled((a2, b2, c2, e2)))),
            4 => d.call("shuf", || arg("mask", "to_indices"), || { let (p, q, r, s) = ShuffleMask4::from((a2, b2, c2, e2)).to_indices(); json!([p, q, r, s]) }),
            _ => d.call("shuf", || arg("mask", "to_indices"), || { let (p, q, r, s) = ShuffleMask4::from([a2, b2, c2, e2]).to_indices(); json!([p, q, r, s]) }),
        }
    }}}}
    for m in 0..8usize {
        d.call("shuf", || json!({"ty": "Vec4", "how": "self", "lo": tms(&lo), "hi": tms(&hi), "idx": [m, m, m, m]}), || o(l4.shuffled(m)));
        d.call("shuf", || json!({"ty": "mask", "how": "to_indices", "lo": tms(&lo), "hi": tms(&hi), "idx": [m, m, m, m]}), || { let (p, q, r, s) = ShuffleMask4::from(m).to_indices(); json!([p, q, r, s]) });
    }
    // the fixed lane diagrams
    macro_rules! fx { ($how:expr, $e4:expr, $ec:expr) => {
        d.call("shuf", || json!({"ty": "Vec4", "how": $how, "lo": tms(&lo), "hi": tms(&hi), "idx": [0, 0, 0, 0]}), || o($e4));
        d.call("shuf", || json!({"ty": "Rgba", "how": $how, "lo": tms(&lo), "hi": tms(&hi), "idx": [0, 0, 0, 0]}), || o($ec));
    } }
    fx!("s0101", l4.shuffled_0101(), lc.shuffled_0101()); fx!("s2323", l4.shuffled_2323(), lc.shuffled_2323());
    fx!("s0022", l4.shuffled_0022(), lc.shuffled_0022()); fx!("s1133", l4.shuffled_1133(), lc.shuffled_1133());
    fx!("interleave_0011", Vec4::interleave_0011(l4, h4), Rgba::interleave_0011(lc, hc));
    fx!("interleave_2233", Vec4::interleave_2233(l4, h4), Rgba::interleave_2233(lc, hc));
    fx!("lo_hi_0101", Vec4::shuffle_lo_hi_0101(l4, h4), Rgba::shuffle_lo_hi_0101(lc, hc));
    fx!("hi_lo_2323", Vec4::shuffle_hi_lo_2323(l4, h4), Rgba::shuffle_hi_lo_2323(lc, hc));
}

/// `full()` and inverted_rgb on every ColorComponent type: values (bits, signed, float) on the integer lane
fn color_values(d: &mut Drv) {
    macro_rules! int { ($t:ty, $name:expr, $bits:expr, $signed:expr, $mk:expr, $get:expr) => {{
        d.call("full", || json!({"ty": $name, "bits": $bits, "signed": $signed}), || json!($get(<$t as ColorComponent>::full()).to_string()));
        for v in [0i128, 1, 7, 100, 127] {
            let x: $t = $mk(v);
            d.call("invert", || json!({"ty": $name, "bits": $bits, "signed": $signed, "v": v.to_string()}), || {
                let c = Rgba::new(x, $mk(0), <$t as ColorComponent>::full(), $mk(5));
                let i = c.inverted_rgb();
                let back = i.inverted_rgb();
                // 64-bit values do not fit TLC's integers: the inverted components are logged as their (small)
                // distance from full(), full() itself is checked as a decimal string by the "full" record
                let full = $get(<$t as ColorComponent>::full());
                json!({"off": [(full - $get(i.r)) as i64, (full - $get(i.g)) as i64], "b": $get(i.b).to_string(), "a": $get(i.a).to_string(), "back": (back == c) as i64})
            });
        }
    }} }
    int!(u8, "u8", 8, 0, |v: i128| v as u8, |x: u8| x as i128); int!(u16, "u16", 16, 0, |v: i128| v as u16, |x: u16| x as i128);
    int!(u32, "u32", 32, 0, |v: i128| v as u32, |x: u32| x as i128); int!(u64, "u64", 64, 0, |v: i128| v as u64, |x: u64| x as i128);
    int!(i8, "i8", 8, 1, |v: i128| v as i8, |x: i8| x as i128); int!(i16, "i16", 16, 1, |v: i128| v as i16, |x: i16| x as i128);
    int!(i32, "i32", 32, 1, |v: i128| v as i32, |x: i32| x as i128); int!(i64, "i64", 64, 1, |v: i128| v as i64, |x: i64| x as i128);
    int!(Wrapping<u8>, "Wrapping<u8>", 8, 0, |v: i128| Wrapping(v as u8), |x: Wrapping<u8>| x.0 as i128); int!(Wrapping<u16>, "Wrapping<u16>", 16, 0, |v: i128| Wrapping(v as u16), |x: Wrapping<u16>| x.0 as i128);
    int!(Wrapping<u32>, "Wrapping<u32>", 32, 0, |v: i128| Wrapping(v as u32), |x: Wrapping<u32>| x.0 as i128); int!(Wrapping<u64>, "Wrapping<u64>", 64, 0, |v: i128| Wrapping(v as u64), |x: Wrapping<u64>| x.0 as i128);
    int!(Wrapping<i8>, "Wrapping<i8>", 8, 1, |v: i128| Wrapping(v as i8), |x: Wrapping<i8>| x.0 as i128); int!(Wrapping<i16>, "Wrapping<i16>", 16, 1, |v: i128| Wrapping(v as i16), |x: Wrapping<i16>| x.0 as i128);
    int!(Wrapping<i32>, "Wrapping<i32>", 32, 1, |v: i128| Wrapping(v as i32), |x: Wrapping<i32>| x.0 as i128); int!(Wrapping<i64>, "Wrapping<i64>", 64, 1, |v: i128| Wrapping(v as i64), |x: Wrapping<i64>| x.0 as i128);
    d.call("full", || json!({"ty": "f32", "bits": 0, "signed": 0}), || json!((<f32 as ColorComponent>::full() as i64).to_string()));
    d.call("full", || json!({"ty": "f64", "bits": 0, "signed": 0}), || json!((<f64 as ColorComponent>::full() as i64).to_string()));
}

/// matrix size conversions (both layouts) on opaque elements: the common upper-left block is kept,
/// the rest is filled from the identity - consistently with the vector conversions above
fn mat_resizes(d: &mut Drv) {
    use crate::mat::MatT;
    use vek::mat::repr_c::column_major as cm;
    use vek::mat::repr_c::row_major as rm;
    let mk = |n: usize| -> Vec<Vec<Tm>> { (0..n).map(|i| (0..n).map(|j| Tm::var(100 + (10 * i + j) as u32)).collect()).collect() };
    let om = |rows: Vec<Vec<Tm>>| Value::Array(rows.iter().map(|r| tms(r)).collect());
    macro_rules! rs { ($m:ident, $From:ident, $n:expr, $To:ident, $k:expr) => {{
        let a = mk($n);
        d.call("mat_resize", || json!({"lay": <$m::$From<Tm> as MatT<Tm>>::LAY, "n": $n, "m": $k, "a": om(a.clone())}),
               || om(MatT::rows(&$m::$To::<Tm>::from(<$m::$From<Tm> as MatT<Tm>>::from_rows(&a)))));
    }} }
    rs!(rm, Mat2, 2, Mat3, 3); rs!(rm, Mat2, 2, Mat4, 4); rs!(rm, Mat3, 3, Mat4, 4); rs!(rm, Mat3, 3, Mat2, 2); rs!(rm, Mat4, 4, Mat2, 2); rs!(rm, Mat4, 4, Mat3, 3);
    rs!(cm, Mat2, 2, Mat3, 3); rs!(cm, Mat2, 2, Mat4, 4); rs!(cm, Mat3, 3, Mat4, 4); rs!(cm, Mat3, 3, Mat2, 2); rs!(cm, Mat4, 4, Mat2, 2); rs!(cm, Mat4, 4, Mat3, 3);
}

pub fn drive_vconv(args: &[String]) {
    let seed: u64 = arg_or(args, "--seed", "1").parse().unwrap();
    let full = arg_or(args, "--full", "0") == "1";
    let mut d = Drv::new(&arg(args, "--out").expect("--out"), seed);
    conversions(&mut d);
    mat_resizes(&mut d);
    swizzles(&mut d);
    shuffles(&mut d, full);
    color_values(&mut d);
    crate::pixel::pixels(&mut d);
    d.finish(arg(args, "--summary"));
}
